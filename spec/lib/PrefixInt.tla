----------------------------- MODULE PrefixInt -----------------------------
(* RFC 7541 section 5.1: integers with an N-bit prefix.                                                          *)
(*   if I < 2^N - 1, encode I on N bits; else encode (2^N - 1) on N bits, I = I - (2^N - 1),                      *)
(*   while I >= 128: encode (I % 128 + 128) on 8 bits, I = I / 128; encode I on 8 bits.                           *)
(*  "Integer encodings that exceed implementation limits -- in value or octet length -- MUST be treated as        *)
(*   decoding errors."                                                                                            *)
(* Values are U64; the true value of an encoding is computed with overflow detection at 2^64.                     *)
EXTENDS U64

PMask(n) == 2 ^ n - 1           \* n \in 1..8

\* continuation bytes starting at index i: accumulate sum of (b & 127) * 128^k
RECURSIVE Cont(_,_,_,_,_,_)
\* acc: value so far (U64); scale: 128^k (U64); scOv: scale has overflowed; ov: the true value is >= 2^64
Cont(bs, i, acc, scale, scOv, ov) ==
    IF i > Len(bs) THEN [ok |-> FALSE, why |-> "truncated"]
    ELSE LET b == bs[i]
             low == b % 128
             termOv == low # 0 /\ (scOv \/ MulSmallOverflows(scale, low))
             term == MulSmall(scale, low)
             addOv == ~termOv /\ AddOverflows(acc, term)
             acc2 == Add(acc, term)
             ov2 == ov \/ termOv \/ addOv
             scOv2 == scOv \/ MulSmallOverflows(scale, 128)
         IN IF b < 128
            THEN [ok |-> TRUE, overflow |-> ov2, value |-> acc2, len |-> i, conts |-> i - 1]
            ELSE Cont(bs, i + 1, acc2, MulSmall(scale, 128), scOv2, ov2)

\* Decode an n-bit-prefix integer at the front of bs:
\*   [ok |-> TRUE, flags (the bits above the prefix), value, overflow, len (bytes consumed), conts] | [ok |-> FALSE, why]
Decode(n, bs) ==
    IF bs = <<>> THEN [ok |-> FALSE, why |-> "truncated"]
    ELSE LET m == PMask(n)
             p == bs[1] % (m + 1)
             flags == bs[1] \div (m + 1)
         IN IF p < m THEN [ok |-> TRUE, flags |-> flags, value |-> FromInt(p), overflow |-> FALSE, len |-> 1, conts |-> 0]
            ELSE LET c == Cont(bs, 2, FromInt(m), FromInt(1), FALSE, FALSE) IN
                 IF ~c.ok THEN c
                 ELSE [ok |-> TRUE, flags |-> flags, value |-> c.value, overflow |-> c.overflow, len |-> c.len, conts |-> c.conts]

\* verdict a conforming decoder may give:  "value" (must return exactly .value), "reject", or "either"
\*   must reject: truncated, or true value beyond 2^64 - 1 (it cannot be represented: returning anything is wrapping)
\*   may reject (implementation limits in value or octet length): value >= 2^62 or more than 9 continuation bytes
Verdict(d) == IF ~d.ok THEN "reject"
              ELSE IF d.overflow THEN "reject"
              ELSE IF d.conts > 9 \/ ~Leq(d.value, Max62) THEN "either"
              ELSE "value"

\* reference encoder (the RFC's algorithm), v: U64, n-bit prefix, flags placed above the prefix
RECURSIVE EncCont(_)
EncCont(v) == IF Less(v, FromInt(128)) THEN <<ToInt(v)>>
              ELSE <<ModSmall(v, 128) + 128>> \o EncCont(DivSmall(v, 128))
Encode(n, flags, v) ==
    LET m == PMask(n) IN
    IF Less(v, FromInt(m)) THEN <<flags * (m + 1) + ToInt(v)>>
    ELSE <<flags * (m + 1) + m>> \o EncCont(Sub(v, FromInt(m)))
EncodeInt(n, flags, k) == Encode(n, flags, FromInt(k))
=============================================================================
