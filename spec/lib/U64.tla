------------------------------- MODULE U64 -------------------------------
(* Unsigned 64-bit naturals as 8-element big-endian byte sequences.            *)
(* TLC integers are 32-bit, so every quantity of the HTTP/3 / QUIC wire format  *)
(* that can reach 2^31 (varint values, stream ids, SETTINGS values, prefixed    *)
(* integers) is carried in this representation.  All operators are total on     *)
(* B8 = [1..8 -> 0..255] and never build an Int >= 2^31.                        *)
EXTENDS Integers, Sequences, FiniteSets

Byte == 0..255
IsB8(b) == /\ Len(b) = 8 /\ \A i \in 1..8 : b[i] \in Byte

Zero == <<0,0,0,0,0,0,0,0>>

\* n must satisfy 0 <= n < 2^31
FromInt(n) == <<0,0,0,0, (n \div 16777216) % 256, (n \div 65536) % 256, (n \div 256) % 256, n % 256>>

FitsInt(b) == b[1] = 0 /\ b[2] = 0 /\ b[3] = 0 /\ b[4] = 0 /\ b[5] < 128
ToInt(b) == ((b[5] * 256 + b[6]) * 256 + b[7]) * 256 + b[8]

\* lexicographic comparison, most significant byte first
RECURSIVE LessFrom(_,_,_)
LessFrom(a, b, i) == IF i > 8 THEN FALSE
                     ELSE IF a[i] < b[i] THEN TRUE
                     ELSE IF a[i] > b[i] THEN FALSE
                     ELSE LessFrom(a, b, i+1)
Less(a, b) == LessFrom(a, b, 1)
Leq(a, b)  == a = b \/ Less(a, b)
Min(a, b)  == IF Less(a, b) THEN a ELSE b
Max(a, b)  == IF Less(a, b) THEN b ELSE a

\* Addition with carry-out: result is <<carry, sum>> with carry \in {0,1}
RECURSIVE AddFrom(_,_,_,_,_)
AddFrom(a, b, i, carry, acc) ==
    IF i = 0 THEN <<carry, acc>>
    ELSE LET s == a[i] + b[i] + carry
         IN AddFrom(a, b, i-1, s \div 256, <<s % 256>> \o acc)
AddC(a, b) == AddFrom(a, b, 8, 0, <<>>)
Add(a, b)  == AddC(a, b)[2]                  \* wrapping
AddOverflows(a, b) == AddC(a, b)[1] = 1
SatAdd(a, b) == IF AddOverflows(a, b) THEN <<255,255,255,255,255,255,255,255>> ELSE Add(a, b)

\* Subtraction a - b, requires b <= a
RECURSIVE SubFrom(_,_,_,_,_)
SubFrom(a, b, i, borrow, acc) ==
    IF i = 0 THEN acc
    ELSE LET d == a[i] - b[i] - borrow
         IN IF d < 0 THEN SubFrom(a, b, i-1, 1, <<d + 256>> \o acc)
                     ELSE SubFrom(a, b, i-1, 0, <<d>> \o acc)
Sub(a, b) == SubFrom(a, b, 8, 0, <<>>)

\* multiply by a small factor m (m <= 256): <<carry-out, product>>
RECURSIVE MulFrom(_,_,_,_,_)
MulFrom(a, m, i, carry, acc) ==
    IF i = 0 THEN <<carry, acc>>
    ELSE LET s == a[i] * m + carry
         IN MulFrom(a, m, i-1, s \div 256, <<s % 256>> \o acc)
MulSmallC(a, m) == MulFrom(a, m, 8, 0, <<>>)
MulSmall(a, m)  == MulSmallC(a, m)[2]
MulSmallOverflows(a, m) == MulSmallC(a, m)[1] # 0

\* divide by a small divisor d (d <= 256): quotient (remainder dropped)
RECURSIVE DivFrom(_,_,_,_,_)
DivFrom(a, d, i, rem, acc) ==
    IF i > 8 THEN <<rem, acc>>
    ELSE LET cur == rem * 256 + a[i]
         IN DivFrom(a, d, i+1, cur % d, acc \o <<cur \div d>>)
DivSmall(a, d) == DivFrom(a, d, 1, 0, <<>>)[2]
ModSmall(a, d) == DivFrom(a, d, 1, 0, <<>>)[1]

\* frequently used constants
Pow2(k) ==   \* 2^k for 0 <= k <= 63 as B8
    LET byteIdx == 8 - (k \div 8)
        bit == k % 8
        v == CASE bit = 0 -> 1 [] bit = 1 -> 2 [] bit = 2 -> 4 [] bit = 3 -> 8
               [] bit = 4 -> 16 [] bit = 5 -> 32 [] bit = 6 -> 64 [] bit = 7 -> 128
    IN [i \in 1..8 |-> IF i = byteIdx THEN v ELSE 0]
Pow2m1(k) == Sub(Pow2(k), FromInt(1))        \* 2^k - 1, 1 <= k <= 63
MaxU64 == <<255,255,255,255,255,255,255,255>>
Max62  == <<63,255,255,255,255,255,255,255>>  \* 2^62 - 1
Max60  == <<15,255,255,255,255,255,255,255>>  \* 2^60 - 1

\* big-endian bytes (any length <= 8) to B8
PadLeft(bs) == [i \in 1..8 |-> IF i <= 8 - Len(bs) THEN 0 ELSE bs[i - (8 - Len(bs))]]
\* the low n bytes of a B8 as a sequence of length n
LowBytes(b, n) == [i \in 1..n |-> b[8 - n + i]]

=============================================================================
