------------------------------ MODULE H3Frame ------------------------------
(* RFC 9114 section 7.1: "All frames have the following format: Type (i), Length (i), Frame Payload (..)". *)
(*   "Each frame's payload MUST contain exactly the fields identified in its description.  A frame payload *)
(*    that contains additional bytes after the identified fields or a frame payload that terminates before *)
(*    the end of the identified fields MUST be treated as a connection error of type H3_FRAME_ERROR."      *)
(*   "When a stream terminates cleanly, if the last frame on the stream was truncated, this MUST be        *)
(*    treated as a connection error of type H3_FRAME_ERROR."                                               *)
(* section 7.2.8: types 0x02, 0x06, 0x08, 0x09 "MUST NOT be sent, and their receipt MUST be treated as a   *)
(*    connection error of type H3_FRAME_UNEXPECTED"; frame types 0x1f * N + 0x21 are reserved and, like    *)
(*    every unknown type (section 9), are ignored.                                                         *)
(* The segmentation oracle `Observe(bytes, fin)` is what a reader of the stream must have seen once it has *)
(* consumed everything that is available; it is defined declaratively (no notion of chunks), so           *)
(* chunk-independence is built in.                                                                         *)
EXTENDS Varint, H3Codes

T_DATA == 0
T_HEADERS == 1
T_CANCEL_PUSH == 3
T_SETTINGS == 4
T_PUSH_PROMISE == 5
T_GOAWAY == 7
T_MAX_PUSH_ID == 13
T_WT_BIDI == 65

H2Reserved == {2, 6, 8, 9}
KnownTypes == {0, 1, 3, 4, 5, 7, 13}

\* type class of a frame type given as U64
TypeInt(t) == IF FitsInt(t) THEN ToInt(t) ELSE -1        \* -1: some huge (unknown) type
ClassOf(t) == LET n == TypeInt(t) IN
    CASE n = T_DATA -> "DATA" [] n = T_HEADERS -> "HEADERS" [] n = T_CANCEL_PUSH -> "CANCEL_PUSH"
      [] n = T_SETTINGS -> "SETTINGS" [] n = T_PUSH_PROMISE -> "PUSH_PROMISE" [] n = T_GOAWAY -> "GOAWAY"
      [] n = T_MAX_PUSH_ID -> "MAX_PUSH_ID" [] n \in H2Reserved -> "H2" [] n = T_WT_BIDI -> "WT"
      [] OTHER -> "UNKNOWN"
IsReservedForm(t) == ModSmall(Sub(t, FromInt(33)), 31) = 0 /\ Leq(FromInt(33), t)   \* 0x1f * N + 0x21

(* ---- SETTINGS payload (section 7.2.4): a sequence of (identifier, value) varint pairs ------------------ *)
SettingForbidden == {0, 2, 3, 4, 5}     \* HTTP/2 settings without HTTP/3 meaning (7.2.4.1, 11.2.2); 0x0 reserved too
RECURSIVE SettingsPairs(_)
\* <<ok, pairs>> : ok = FALSE when an entry is truncated
SettingsPairs(p) ==
    IF p = <<>> THEN <<TRUE, <<>>>>
    ELSE LET i == Decode(p) IN
         IF ~i.ok THEN <<FALSE, <<>>>>
         ELSE LET v == Decode(i.rest) IN
              IF ~v.ok THEN <<FALSE, <<>>>>
              ELSE LET r == SettingsPairs(v.rest) IN <<r[1], <<[id |-> i.value, val |-> v.value]>> \o r[2]>>

\* verdict on a complete SETTINGS payload: "ok", "truncated" (any connection error acceptable, see C13),
\* "forbidden" (an HTTP/2-reserved id: H3_SETTINGS_ERROR), "dup" (repeated id: H3_SETTINGS_ERROR when the id is
\* one the receiver knows; for an unknown id rejecting is permitted but not required)
KnownSettingIds == { FromInt(1), FromInt(6), FromInt(7), FromInt(8), FromInt(51), FromInt(727725890), FromInt(727725891) }
SettingsVerdict(p) ==
    LET r == SettingsPairs(p) IN
    IF ~r[1] THEN "truncated"
    ELSE LET ps == r[2]
             forb == \E k \in DOMAIN ps : FitsInt(ps[k].id) /\ ToInt(ps[k].id) \in SettingForbidden
             dupKnown == \E a, b \in DOMAIN ps : a < b /\ ps[a].id = ps[b].id /\ ps[a].id \in KnownSettingIds
             dupAny == \E a, b \in DOMAIN ps : a < b /\ ps[a].id = ps[b].id
         IN IF forb /\ dupKnown THEN "forbidden_or_dup"
            ELSE IF forb THEN "forbidden"
            ELSE IF dupKnown THEN "dup"
            ELSE IF dupAny THEN "dup_unknown"
            ELSE "ok"

(* ---- one frame at the front of bs ----------------------------------------------------------------------- *)
\* st: "none" (no bytes), "partial" (header or non-DATA payload incomplete), "data" (DATA header complete),
\*     "frame" (complete non-DATA frame, possibly erroneous), "wt" (WebTransport stream header)
NextFrame(bs) ==
    IF bs = <<>> THEN [st |-> "none"]
    ELSE LET t == Decode(bs) IN
    IF ~t.ok THEN [st |-> "partial", hdr |-> FALSE]
    ELSE IF ClassOf(t.value) = "WT" THEN [st |-> "wt"]
    ELSE LET l == Decode(t.rest) IN
    IF ~l.ok THEN [st |-> "partial", hdr |-> FALSE]
    ELSE LET cls == ClassOf(t.value)
             big == ~FitsInt(l.value)
             len == IF big THEN 2147483647 ELSE ToInt(l.value)
             body == l.rest
         IN IF cls = "DATA" THEN [st |-> "data", len |-> len, rest |-> body]
            ELSE IF Len(body) < len THEN [st |-> "partial", hdr |-> TRUE, cls |-> cls]
            ELSE [st |-> "frame", cls |-> cls, type |-> t.value, payload |-> SubSeq(body, 1, len),
                  rest |-> SubSeq(body, len + 1, Len(body))]

\* a single-varint payload (CANCEL_PUSH, GOAWAY, MAX_PUSH_ID): exactly one varint and nothing else
SingleVarint(p) == LET d == Decode(p) IN d.ok /\ d.rest = <<>>

\* the item a reader reports for a complete non-DATA frame:  [c, ...]  or an error item [c |-> "ERR", codes]
FrameItem(f) ==
    CASE f.cls = "HEADERS" -> [c |-> "HEADERS", payload |-> f.payload]
      [] f.cls \in {"CANCEL_PUSH", "GOAWAY", "MAX_PUSH_ID"} ->
            IF SingleVarint(f.payload) THEN [c |-> f.cls, v |-> Decode(f.payload).value]
            ELSE [c |-> "ERR", codes |-> {H3_FRAME_ERROR}]
      [] f.cls = "PUSH_PROMISE" ->
            IF Decode(f.payload).ok THEN [c |-> "PUSH_PROMISE"]
            ELSE [c |-> "ERR", codes |-> {H3_FRAME_ERROR, H3_FRAME_UNEXPECTED}]   \* h3 does not implement push: either verdict
      [] f.cls = "SETTINGS" ->
            LET v == SettingsVerdict(f.payload) IN
            IF v \in {"ok", "dup_unknown"} THEN [c |-> "SETTINGS"]
            ELSE IF v = "truncated" THEN [c |-> "ERR", codes |-> {H3_FRAME_ERROR, H3_SETTINGS_ERROR}]
            ELSE [c |-> "ERR", codes |-> {H3_SETTINGS_ERROR}]
      [] f.cls = "H2" -> [c |-> "ERR", codes |-> {H3_FRAME_UNEXPECTED}]
      [] OTHER -> [c |-> "SKIP"]

(* ---- Observe: everything a reader must have seen after consuming `bs` (fin: the stream ended cleanly) ---- *)
\* result: [items |-> sequence of frame items (unknown frames omitted; DATA items carry the payload bytes
\*          available), term |-> "end" | "more" | "err", codes |-> acceptable error codes when term = "err"]
RECURSIVE ObserveFrom(_,_,_)
ObserveFrom(bs, fin, acc) ==
    LET f == NextFrame(bs) IN
    CASE f.st = "none" -> [items |-> acc, term |-> IF fin THEN "end" ELSE "more", codes |-> {}]
      [] f.st = "partial" ->
            IF fin THEN [items |-> acc, term |-> "err", codes |-> {H3_FRAME_ERROR}]
            \* an HTTP/2-reserved type may be refused as soon as its header is complete (codes lists what
            \* "more" may alternatively be)
            ELSE [items |-> acc, term |-> "more", codes |-> IF f.hdr /\ f.cls = "H2" THEN {H3_FRAME_UNEXPECTED} ELSE {}]
      [] f.st = "wt" -> [items |-> acc \o <<[c |-> "WT"]>>, term |-> "wt", codes |-> {}]
      [] f.st = "data" ->
            IF Len(f.rest) >= f.len
            THEN ObserveFrom(SubSeq(f.rest, f.len + 1, Len(f.rest)), fin,
                             acc \o <<[c |-> "DATA", len |-> f.len, got |-> SubSeq(f.rest, 1, f.len)]>>)
            ELSE [items |-> acc \o <<[c |-> "DATA", len |-> f.len, got |-> f.rest]>>,
                  term |-> IF fin THEN "err" ELSE "more", codes |-> IF fin THEN {H3_FRAME_ERROR} ELSE {}]
      [] OTHER ->
            LET it == FrameItem(f) IN
            IF it.c = "ERR" THEN [items |-> acc, term |-> "err", codes |-> it.codes]
            ELSE IF it.c = "SKIP" THEN ObserveFrom(f.rest, fin, acc)
            ELSE ObserveFrom(f.rest, fin, acc \o <<it>>)

Observe(bs, fin) == ObserveFrom(bs, fin, <<>>)

\* the same walk, but unknown-type frames are kept as [c |-> "UNKNOWN", type, len] (used to judge what an endpoint SENDS)
RECURSIVE ObserveAllFrom(_,_,_)
ObserveAllFrom(bs, fin, acc) ==
    LET f == NextFrame(bs) IN
    CASE f.st = "none" -> [items |-> acc, term |-> IF fin THEN "end" ELSE "more", codes |-> {}]
      [] f.st = "partial" -> [items |-> acc, term |-> IF fin THEN "err" ELSE "more", codes |-> IF fin THEN {H3_FRAME_ERROR} ELSE {}]
      [] f.st = "wt" -> [items |-> acc \o <<[c |-> "WT"]>>, term |-> "wt", codes |-> {}]
      [] f.st = "data" ->
            IF Len(f.rest) >= f.len
            THEN ObserveAllFrom(SubSeq(f.rest, f.len + 1, Len(f.rest)), fin, acc \o <<[c |-> "DATA", len |-> f.len, got |-> SubSeq(f.rest, 1, f.len)]>>)
            ELSE [items |-> acc \o <<[c |-> "DATA", len |-> f.len, got |-> f.rest]>>, term |-> IF fin THEN "err" ELSE "more", codes |-> IF fin THEN {H3_FRAME_ERROR} ELSE {}]
      [] OTHER ->
            LET it == FrameItem(f) IN
            IF it.c = "ERR" THEN [items |-> acc, term |-> "err", codes |-> it.codes]
            ELSE IF it.c = "SKIP" THEN ObserveAllFrom(f.rest, fin, acc \o <<[c |-> "UNKNOWN", type |-> f.type, len |-> Len(f.payload)]>>)
            ELSE ObserveAllFrom(f.rest, fin, acc \o <<it>>)
ObserveAll(bs, fin) == ObserveAllFrom(bs, fin, <<>>)

(* ---- building frames (used by generators and by the reference sender model) ---------------------------- *)
Frame(typeInt, payload) == EncodeInt(typeInt) \o EncodeInt(Len(payload)) \o payload
\* explicit varint forms for type and length (n bytes each)
FrameForms(typeInt, tn, declLen, ln, payload) == EncodeN(FromInt(typeInt), tn) \o EncodeN(FromInt(declLen), ln) \o payload
=============================================================================
