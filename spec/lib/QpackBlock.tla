----------------------------- MODULE QpackBlock -----------------------------
(* RFC 9204 section 4.5: encoded field sections, for a decoder whose dynamic table capacity is 0 (which is what    *)
(* h3 advertises: it never sends SETTINGS_QPACK_MAX_TABLE_CAPACITY).                                                *)
(*  4.5.1   Encoded Field Section Prefix:  Required Insert Count (8+), S bit + Delta Base (7+).                     *)
(*  4.5.1.1 "if MaxEntries is 0 ... the encoded value MUST be 0" -> a non-zero Required Insert Count cannot be      *)
(*          decoded: "If the decoder encounters a value of EncodedInsertCount that could not have been produced     *)
(*          by a conformant encoder, it MUST treat this as a connection error of type QPACK_DECOMPRESSION_FAILED."  *)
(*  4.5.2   Indexed Field Line             1 T index(6+)            T=1 static, T=0 dynamic                         *)
(*  4.5.3   Indexed, Post-Base Index       0 0 0 1 index(4+)        dynamic                                         *)
(*  4.5.4   Literal with Name Reference    0 1 N T nameindex(4+)    then value: H len(7+) bytes                     *)
(*  4.5.5   Literal, Post-Base Name Ref    0 0 0 0 N nameindex(3+)  dynamic                                         *)
(*  4.5.6   Literal with Literal Name      0 0 1 N H namelen(3+) name, then value: H len(7+) bytes                  *)
(*  Any reference to the dynamic table (which is empty and stays empty) is invalid; a static index >= 99 is         *)
(*  invalid (3.1: "an index ... greater than or equal to the number of entries ... MUST be treated as a connection  *)
(*  error of type QPACK_DECOMPRESSION_FAILED").                                                                      *)
EXTENDS QpackStatic, Huffman, TLC
PI == INSTANCE PrefixInt

\* ---- strings: H flag + length with an (n)-bit prefix, flag bit directly above the prefix -------------------------
\* [ok |-> TRUE, bytes, rest, either] | [ok |-> FALSE, why]
DecString(n, bs) ==
    LET d == PI!Decode(n, bs) IN
    IF ~d.ok THEN [ok |-> FALSE, why |-> "truncated-integer"]
    ELSE IF PI!Verdict(d) = "reject" THEN [ok |-> FALSE, why |-> "integer-overflow"]
    ELSE IF ~PI!FitsInt(d.value) THEN [ok |-> FALSE, why |-> "truncated-string"]      \* longer than any input
    ELSE LET len == PI!ToInt(d.value)
             rest == SubSeq(bs, d.len + 1, Len(bs))
             h == d.flags % 2
         IN IF Len(rest) < len THEN [ok |-> FALSE, why |-> "truncated-string"]
            ELSE LET raw == SubSeq(rest, 1, len)
                     after == SubSeq(rest, len + 1, Len(rest))
                     ei == PI!Verdict(d) = "either"
                 IN IF h = 0 THEN [ok |-> TRUE, bytes |-> raw, rest |-> after, either |-> ei]
                    ELSE LET hd == Decode(raw) IN
                         IF hd.ok THEN [ok |-> TRUE, bytes |-> hd.bytes, rest |-> after, either |-> ei]
                         ELSE [ok |-> FALSE, why |-> hd.why]

\* ---- an index with an n-bit prefix ----------------------------------------------------------------------------------
DecIndex(n, bs) ==
    LET d == PI!Decode(n, bs) IN
    IF ~d.ok THEN [ok |-> FALSE, why |-> "truncated-integer"]
    ELSE IF PI!Verdict(d) = "reject" THEN [ok |-> FALSE, why |-> "integer-overflow"]
    ELSE IF ~PI!FitsInt(d.value) \/ PI!ToInt(d.value) >= StaticSize THEN [ok |-> FALSE, why |-> "static-index-out-of-range"]
    ELSE [ok |-> TRUE, index |-> PI!ToInt(d.value), flags |-> d.flags, rest |-> SubSeq(bs, d.len + 1, Len(bs)), either |-> PI!Verdict(d) = "either"]

\* ---- one field line ---------------------------------------------------------------------------------------------------
\* [ok |-> TRUE, name, value, rest, either] | [ok |-> FALSE, why]
DecLine(bs) ==
    LET b == bs[1] IN
    IF b >= 128 THEN                                            \* 1 T index(6+)
        IF (b \div 64) % 2 = 0 THEN [ok |-> FALSE, why |-> "dynamic-reference"]
        ELSE LET i == DecIndex(6, bs) IN
             IF ~i.ok THEN i
             ELSE [ok |-> TRUE, name |-> StaticEntry(i.index)[1], value |-> StaticEntry(i.index)[2], rest |-> i.rest, either |-> i.either]
    ELSE IF b >= 64 THEN                                        \* 0 1 N T nameindex(4+)
        IF (b \div 16) % 2 = 0 THEN [ok |-> FALSE, why |-> "dynamic-reference"]
        ELSE LET i == DecIndex(4, bs) IN
             IF ~i.ok THEN i
             ELSE IF i.rest = <<>> THEN [ok |-> FALSE, why |-> "truncated-integer"]
             ELSE LET v == DecString(7, i.rest) IN
                  IF ~v.ok THEN v
                  ELSE [ok |-> TRUE, name |-> StaticEntry(i.index)[1], value |-> v.bytes, rest |-> v.rest, either |-> i.either \/ v.either]
    ELSE IF b >= 32 THEN                                        \* 0 0 1 N H namelen(3+)
        LET n == DecString(3, bs) IN
        IF ~n.ok THEN n
        ELSE IF n.rest = <<>> THEN [ok |-> FALSE, why |-> "truncated-integer"]
        ELSE LET v == DecString(7, n.rest) IN
             IF ~v.ok THEN v
             ELSE [ok |-> TRUE, name |-> n.bytes, value |-> v.bytes, rest |-> v.rest, either |-> n.either \/ v.either]
    ELSE [ok |-> FALSE, why |-> "dynamic-reference"]            \* 0001 post-base index / 0000 post-base name reference

RECURSIVE DecLines(_,_,_)
DecLines(bs, acc, either) ==
    IF bs = <<>> THEN [v |-> IF either THEN "either" ELSE "ok", fields |-> acc]
    ELSE LET f == DecLine(bs) IN
         IF ~f.ok THEN [v |-> "reject", why |-> f.why]
         ELSE DecLines(f.rest, Append(acc, <<f.name, f.value>>), either \/ f.either)

\* The verdict of an RFC 9204 decoder with table capacity 0 on a complete encoded field section:
\*   [v |-> "ok", fields]      must be accepted with exactly these <<name, value>> pairs, in order
\*   [v |-> "reject", why]     must be rejected
\*   [v |-> "either", fields]  may be rejected (implementation limits, or a prefix a conformant encoder would not produce
\*                             but whose meaning is clear); if accepted the result must be `fields`
DecodeSection(bs) ==
    LET ric == PI!Decode(8, bs) IN
    IF ~ric.ok THEN [v |-> "reject", why |-> "truncated-prefix"]
    ELSE LET r1 == SubSeq(bs, ric.len + 1, Len(bs))
             base == PI!Decode(7, r1)
         IN IF ~base.ok THEN [v |-> "reject", why |-> "truncated-prefix"]
            ELSE IF PI!Verdict(ric) = "reject" \/ PI!Verdict(base) = "reject" THEN [v |-> "reject", why |-> "integer-overflow"]
            ELSE IF ric.value # PI!Zero THEN [v |-> "reject", why |-> "required-insert-count-nonzero"]
            ELSE LET odd == base.flags % 2 = 1 \/ base.value # PI!Zero \/ PI!Verdict(ric) = "either" \/ PI!Verdict(base) = "either"
                 IN DecLines(SubSeq(r1, base.len + 1, Len(r1)), <<>>, odd)

\* RFC 9114 4.2.2 / RFC 9204 3.2.1: size of a field section = sum of (name length + value length + 32)
RECURSIVE SectionSize(_)
SectionSize(fields) == IF fields = <<>> THEN 0 ELSE Len(fields[1][1]) + Len(fields[1][2]) + 32 + SectionSize(Tail(fields))

(* ---- reference encoder (used to build what the scripted peer sends; independent of h3's encoder) -------------- *)
Prefix00 == <<0, 0>>
EncStr(n, flagsAbove, s, huff) ==     \* flagsAbove: the bits above the H bit
    IF huff THEN LET e == Encode(s) IN PI!EncodeInt(n, flagsAbove * 2 + 1, Len(e)) \o e
    ELSE PI!EncodeInt(n, flagsAbove * 2, Len(s)) \o s
EncIndexedStatic(i) == PI!EncodeInt(6, 3, i)                              \* 1 1 index
EncNameRefStatic(i, value, huff) == PI!EncodeInt(4, 5, i) \o EncStr(7, 0, value, huff)   \* 0 1 N=0 T=1
EncLiteral(name, value, hn, hv) == EncStr(3, 2, name, hn) \o EncStr(7, 0, value, hv)      \* 0 0 1 N=0 H
RECURSIVE EncLiterals(_,_)
EncLiterals(fields, huff) == IF fields = <<>> THEN <<>> ELSE EncLiteral(fields[1][1], fields[1][2], huff, huff) \o EncLiterals(Tail(fields), huff)
\* a whole section with every field as a literal with literal name
RefSection(fields, huff) == Prefix00 \o EncLiterals(fields, huff)

\* sanity of the oracle itself: every static entry and a literal round-trip through the reference encoder
ASSUME \A i \in {0, 1, 17, 25, 62, 63, 98} : DecodeSection(Prefix00 \o EncIndexedStatic(i)) = [v |-> "ok", fields |-> <<StaticEntry(i)>>]
ASSUME DecodeSection(RefSection(<< <<<<120>>, <<121, 0, 255>>>>, <<<<97, 98>>, <<>>>> >>, TRUE)) = [v |-> "ok", fields |-> << <<<<120>>, <<121, 0, 255>>>>, <<<<97, 98>>, <<>>>> >>]
ASSUME DecodeSection(RefSection(<< <<<<120>>, <<121>>>> >>, FALSE)) = [v |-> "ok", fields |-> << <<<<120>>, <<121>>>> >>]
ASSUME DecodeSection(Prefix00 \o EncNameRefStatic(0, <<97>>, FALSE)).fields = << <<StaticEntry(0)[1], <<97>>>> >>
ASSUME DecodeSection(<<5, 0>>).v = "reject" /\ DecodeSection(<<0, 0, 128>>).v = "reject" /\ DecodeSection(<<0, 0, 255, 36>>).v = "reject"
ASSUME DecodeSection(<<0, 0, 16>>).v = "reject" /\ DecodeSection(<<0, 0, 0>>).v = "reject" /\ DecodeSection(<<0>>).v = "reject"
=============================================================================
