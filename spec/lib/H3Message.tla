----------------------------- MODULE H3Message -----------------------------
(* RFC 9114 section 4.2 (field names lowercase, no malformed names/values), 4.3 (pseudo-header fields:            *)
(* request :method :scheme :authority :path (+ :protocol, RFC 9220); response :status), 4.3.1 (a request needs      *)
(* :method; :authority / Host must agree and not be empty), 4.2.2 (size of a field section).                       *)
(* Fields are <<name, value>> pairs of byte sequences.                                                               *)
EXTENDS QpackBlock

A(s) == s  \* ASCII tuples are written out below
N_METHOD == <<58, 109, 101, 116, 104, 111, 100>>
N_SCHEME == <<58, 115, 99, 104, 101, 109, 101>>
N_AUTHORITY == <<58, 97, 117, 116, 104, 111, 114, 105, 116, 121>>
N_PATH == <<58, 112, 97, 116, 104>>
N_STATUS == <<58, 115, 116, 97, 116, 117, 115>>
N_PROTOCOL == <<58, 112, 114, 111, 116, 111, 99, 111, 108>>
N_HOST == <<104, 111, 115, 116>>
ASSUME N_METHOD = StaticEntry(17)[1] /\ N_SCHEME = StaticEntry(23)[1] /\ N_AUTHORITY = StaticEntry(0)[1] /\ N_PATH = StaticEntry(1)[1] /\ N_STATUS = StaticEntry(25)[1]

IsPseudo(f) == f[1] # <<>> /\ f[1][1] = 58
ValuesOf(fields, name) == SelectSeq(fields, LAMBDA f : f[1] = name)
Has(fields, name) == ValuesOf(fields, name) # <<>>
Get(fields, name) == ValuesOf(fields, name)[1][2]
Regular(fields) == SelectSeq(fields, LAMBDA f : ~IsPseudo(f))

\* RFC 9110 5.6.2 token characters
TChar == (48..57) \cup (65..90) \cup (97..122) \cup {33, 35, 36, 37, 38, 39, 42, 43, 45, 46, 94, 95, 96, 124, 126}
IsToken(s) == s # <<>> /\ \A i \in DOMAIN s : s[i] \in TChar
HasUpper(s) == \E i \in DOMAIN s : s[i] \in 65..90
ValidRegularName(n) == IsToken(n) /\ ~HasUpper(n)
ValidValue(v) == \A i \in DOMAIN v : v[i] \notin {0, 10, 13}
DefinedPseudo == {N_METHOD, N_SCHEME, N_AUTHORITY, N_PATH, N_STATUS, N_PROTOCOL}
IsStatus(v) == Len(v) = 3 /\ v[1] \in 49..57 /\ v[2] \in 48..57 /\ v[3] \in 48..57

\* all pseudo fields precede all regular fields, none twice (what a sender must produce, 4.3)
PseudoFirst(fields) == \A i, j \in DOMAIN fields : (i < j /\ IsPseudo(fields[j])) => IsPseudo(fields[i])
PseudoOnce(fields) == \A i, j \in DOMAIN fields : (i # j /\ IsPseudo(fields[i])) => fields[i][1] # fields[j][1]

(* ---- the gate of C12: which decoded field sections may reach the application ------------------------------------ *)
IsDigits3(v) == IsStatus(v)
HasCtlOrSpace(v) == \E i \in DOMAIN v : v[i] <= 32 \/ v[i] = 127
FieldBad(f) ==
    IF IsPseudo(f) THEN
        \/ f[1] \notin DefinedPseudo
        \/ ~ValidValue(f[2])
        \/ (f[1] = N_METHOD /\ ~IsToken(f[2]))
        \/ (f[1] = N_STATUS /\ ~IsStatus(f[2]))
        \/ (f[1] = N_PATH /\ HasCtlOrSpace(f[2]))
    ELSE ~ValidRegularName(f[1]) \/ ~ValidValue(f[2])

\* kind \in {"request", "response", "trailers"}
MustRefuse(kind, fields) ==
    \/ \E i \in DOMAIN fields : FieldBad(fields[i])
    \/ kind = "request" /\
         \/ ~Has(fields, N_METHOD)
         \/ LET au == IF Has(fields, N_AUTHORITY) THEN Get(fields, N_AUTHORITY) ELSE <<>>
                 ho == IF Has(fields, N_HOST) THEN Get(fields, N_HOST) ELSE <<>>
             IN \/ (au = <<>> /\ ho = <<>>)                                         \* no non-empty authority at all
                \/ (Has(fields, N_AUTHORITY) /\ Has(fields, N_HOST) /\ au # ho)     \* both present and different
    \/ kind = "response" /\ ~Has(fields, N_STATUS)

SchemeOk(v) == v \in { <<104, 116, 116, 112>>, <<104, 116, 116, 112, 115>> }
SimpleAuthority(v) == v # <<>> /\ \A i \in DOMAIN v : v[i] \in (48..57) \cup (97..122) \cup {45, 46}
SimplePath(v) == v # <<>> /\ v[1] = 47 /\ \A i \in DOMAIN v : v[i] \in (48..57) \cup (97..122) \cup {45, 46, 47, 95}
\* the fully regular shape: must be delivered, with exactly these parts
ClearValue(v) == \A i \in DOMAIN v : v[i] \in {9} \cup (32..126) \cup (128..255)
ClearName(n) == n # <<>> /\ \A i \in DOMAIN n : n[i] \in (48..57) \cup (97..122) \cup {45, 95}
MustDeliver(kind, fields) ==
    /\ ~MustRefuse(kind, fields) /\ PseudoFirst(fields) /\ PseudoOnce(fields)
    /\ \A i \in DOMAIN fields : ClearValue(fields[i][2]) /\ (IsPseudo(fields[i]) \/ ClearName(fields[i][1]))
    /\ \A i \in DOMAIN fields : ~IsPseudo(fields[i]) => fields[i][1] # N_HOST
    /\ CASE kind = "request" ->
              /\ { fields[i][1] : i \in { j \in DOMAIN fields : IsPseudo(fields[j]) } } = {N_METHOD, N_SCHEME, N_AUTHORITY, N_PATH}
              /\ Get(fields, N_METHOD) \in { <<71, 69, 84>>, <<80, 79, 83, 84>>, <<80, 85, 84>> }
              /\ SchemeOk(Get(fields, N_SCHEME)) /\ SimpleAuthority(Get(fields, N_AUTHORITY)) /\ SimplePath(Get(fields, N_PATH))
         [] kind = "response" -> { fields[i][1] : i \in { j \in DOMAIN fields : IsPseudo(fields[j]) } } = {N_STATUS}
         [] OTHER -> \A i \in DOMAIN fields : ~IsPseudo(fields[i])
\* http::HeaderMap groups values by name: names in order of first appearance, values of one name in order
RECURSIVE GroupByName(_)
GroupByName(fs) == IF fs = <<>> THEN <<>>
                   ELSE LET n == fs[1][1] IN SelectSeq(fs, LAMBDA f : f[1] = n) \o GroupByName(SelectSeq(fs, LAMBDA f : f[1] # n))
Classify(kind, fields) == IF MustRefuse(kind, fields) THEN "refuse" ELSE IF MustDeliver(kind, fields) THEN "deliver" ELSE "unconstrained"
=============================================================================
