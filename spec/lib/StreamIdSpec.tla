--------------------------- MODULE StreamIdSpec ---------------------------
(* RFC 9000 section 2.1: stream identifiers.                                  *)
(*   bit 0: initiator (0 client, 1 server); bit 1: direction (0 bidi, 1 uni);  *)
(*   the remaining 60 bits number streams of one kind (the "index").          *)
EXTENDS Varint

Initiator(id) == IF id[8] % 2 = 0 THEN "client" ELSE "server"
Direction(id) == IF (id[8] \div 2) % 2 = 0 THEN "bi" ELSE "uni"
Index(id)     == DivSmall(id, 4)
IsRequest(id) == Initiator(id) = "client" /\ Direction(id) = "bi"
IsPush(id)    == Initiator(id) = "server" /\ Direction(id) = "uni"
Valid(v)      == Leq(v, Max62)

Make(index, kind) == Add(MulSmall(index, 4), FromInt(kind))     \* kind = low two bits, index <= 2^60-1

\* advancing by n requests (n is any u64): same kind, index saturating at 2^60 - 1
Advance(id, n) ==
    LET idx == Index(id)
        s == IF AddOverflows(idx, n) THEN Max60 ELSE Min(Add(idx, n), Max60)
    IN Make(s, id[8] % 4)
=============================================================================
