------------------------------ MODULE Huffman ------------------------------
(* RFC 7541 section 5.2 string literals with the static Huffman code of Appendix B.                              *)
(*  "As the Huffman-encoded data doesn't always end at an octet boundary, some padding is inserted after it, up   *)
(*   to the next octet boundary. To prevent this padding from being misinterpreted as part of the string          *)
(*   literal, the most significant bits of the code corresponding to the EOS (end-of-string) symbol are used."    *)
(*  "Upon decoding, an incomplete code at the end of the encoded data is to be considered as padding and          *)
(*   discarded. A padding strictly longer than 7 bits MUST be treated as a decoding error. A padding not          *)
(*   corresponding to the most significant bits of the code for the EOS symbol MUST be treated as a decoding      *)
(*   error. A Huffman-encoded string literal containing the EOS symbol MUST be treated as a decoding error."      *)
EXTENDS HuffmanTable, Integers, Sequences, FiniteSets

EOS == 256
MinLen == 5
MaxLen == 30
LenOf(sym) == HuffLens[sym + 1]

Pow2(k) == 2 ^ k         \* k <= 30

\* symbols of each code length, in increasing symbol order
Syms == [i \in 1..257 |-> i - 1]
SymsOfLen == [L \in MinLen..MaxLen |-> SelectSeq(Syms, LAMBDA s : LenOf(s) = L)]
Count == [L \in MinLen..MaxLen |-> Len(SymsOfLen[L])]
\* canonical assignment: first code of each length
RECURSIVE FirstCode(_)
FirstCode(L) == IF L = MinLen THEN 0 ELSE (FirstCode(L - 1) + Count[L - 1]) * 2
First == [L \in MinLen..MaxLen |-> FirstCode(L)]

\* rank of a symbol among the symbols of its length
RankIn(seq, s) == CHOOSE i \in 1..Len(seq) : seq[i] = s
CodeOf == [s \in 0..256 |-> First[LenOf(s)] + RankIn(SymsOfLen[LenOf(s)], s) - 1]
CodeBits(s) == LET L == LenOf(s) c == CodeOf[s] IN [i \in 1..L |-> (c \div Pow2(L - i)) % 2]

\* Kraft equality (complete prefix code):  sum 2^(30 - len) = 2^30
RECURSIVE KraftFrom(_)
KraftFrom(L) == IF L > MaxLen THEN 0 ELSE Count[L] * Pow2(MaxLen - L) + KraftFrom(L + 1)
ASSUME KraftFrom(MinLen) = Pow2(MaxLen)
ASSUME CodeOf[EOS] = Pow2(30) - 1          \* EOS is thirty 1 bits
ASSUME \A L \in MinLen..MaxLen : First[L] + Count[L] <= Pow2(L)

(* ---- bits <-> bytes ----------------------------------------------------------------------------------------- *)
ByteBits(b) == [i \in 1..8 |-> (b \div Pow2(8 - i)) % 2]
BitsOfBytes(bs) == [k \in 1..(8 * Len(bs)) |-> (bs[((k - 1) \div 8) + 1] \div Pow2(7 - ((k - 1) % 8))) % 2]
BytesOfBits(bits) ==   \* Len(bits) is a multiple of 8
    [j \in 1..(Len(bits) \div 8) |->
        bits[8*j-7] * 128 + bits[8*j-6] * 64 + bits[8*j-5] * 32 + bits[8*j-4] * 16 + bits[8*j-3] * 8 + bits[8*j-2] * 4 + bits[8*j-1] * 2 + bits[8*j]]

(* ---- encode --------------------------------------------------------------------------------------------------- *)
RECURSIVE EncBits(_,_)
EncBits(s, i) == IF i > Len(s) THEN <<>> ELSE CodeBits(s[i]) \o EncBits(s, i + 1)
Encode(s) == LET b == EncBits(s, 1)
                 pad == (8 - (Len(b) % 8)) % 8
             IN BytesOfBits(b \o [i \in 1..pad |-> 1])
EncodedLen(s) == LET RECURSIVE N(_) N(i) == IF i > Len(s) THEN 0 ELSE LenOf(s[i]) + N(i + 1) IN (N(1) + 7) \div 8

(* ---- strict decode -------------------------------------------------------------------------------------------- *)
\* read one symbol starting at bit position p (1-based): <<sym, next p>>, or <<-1, p>> when the bits run out first
RECURSIVE ReadSym(_,_,_,_)
ReadSym(bits, p, L, v) ==
    IF p > Len(bits) THEN <<-1, p>>
    ELSE LET v2 == v * 2 + bits[p]
             L2 == L + 1
         IN IF L2 >= MinLen /\ v2 - First[L2] >= 0 /\ v2 - First[L2] < Count[L2]
            THEN <<SymsOfLen[L2][v2 - First[L2] + 1], p + 1>>
            ELSE IF L2 = MaxLen THEN <<-2, p>>            \* cannot happen for a complete code
            ELSE ReadSym(bits, p + 1, L2, v2)

RECURSIVE DecFrom(_,_,_)
DecFrom(bits, p, acc) ==
    IF p > Len(bits) THEN [ok |-> TRUE, bytes |-> acc]
    ELSE LET r == ReadSym(bits, p, 0, 0) IN
         IF r[1] = -1 THEN
              \* an incomplete code at the end: padding; at most 7 bits, all ones
              LET k == Len(bits) - p + 1 IN
              \* (the reason distinguishes a padding with a zero bit from an all-ones padding that is merely too long)
              IF \E i \in p..Len(bits) : bits[i] = 0 THEN [ok |-> FALSE, why |-> "padding-not-eos-prefix"]
              ELSE IF k > 7 THEN [ok |-> FALSE, why |-> "padding-too-long"]
              ELSE [ok |-> TRUE, bytes |-> acc]
         \* (an EOS code followed by nothing but one bits is the over-long all-ones padding seen from the other side)
         ELSE IF r[1] = EOS THEN [ok |-> FALSE, why |-> IF \A i \in r[2]..Len(bits) : bits[i] = 1 THEN "eos-symbol" ELSE "eos-symbol-inside"]
         ELSE IF r[1] < 0 THEN [ok |-> FALSE, why |-> "invalid-code"]
         ELSE DecFrom(bits, r[2], Append(acc, r[1]))

Decode(bs) == DecFrom(BitsOfBytes(bs), 1, <<>>)

(* ---- RFC 7541 Appendix C.4.1, C.4.2, C.4.3, C.6.1 examples ------------------------------------------------------ *)
ASSUME Encode(<<119,119,119,46,101,120,97,109,112,108,101,46,99,111,109>>) = <<241,227,194,229,242,58,107,160,171,144,244,255>>   \* www.example.com
ASSUME Encode(<<110,111,45,99,97,99,104,101>>) = <<168,235,16,100,156,191>>                                                       \* no-cache
ASSUME Encode(<<99,117,115,116,111,109,45,107,101,121>>) = <<37,168,73,233,91,169,125,127>>                                       \* custom-key
ASSUME Encode(<<99,117,115,116,111,109,45,118,97,108,117,101>>) = <<37,168,73,233,91,184,232,180,191>>                            \* custom-value
ASSUME Encode(<<51,48,50>>) = <<100, 2>>                                                                                          \* 302  (C.6.1: 6402)
ASSUME Decode(<<241,227,194,229,242,58,107,160,171,144,244,255>>) = [ok |-> TRUE, bytes |-> <<119,119,119,46,101,120,97,109,112,108,101,46,99,111,109>>]
ASSUME Decode(<<255>>).ok = FALSE /\ Decode(<<>>) = [ok |-> TRUE, bytes |-> <<>>]
=============================================================================
