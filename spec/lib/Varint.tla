------------------------------ MODULE Varint ------------------------------
(* RFC 9000 section 16: variable-length integer encoding.                     *)
(*   2MSB  length  usable bits  range                                         *)
(*   00    1       6            0-63                                          *)
(*   01    2       14           0-16383                                       *)
(*   10    4       30           0-1073741823                                  *)
(*   11    8       62           0-4611686018427387903                         *)
(* Values are U64 (8-byte big-endian sequences), byte strings are Seq(0..255). *)
EXTENDS U64

\* length announced by the first byte
LenOfFirst(b0) == CASE b0 \div 64 = 0 -> 1 [] b0 \div 64 = 1 -> 2 [] b0 \div 64 = 2 -> 4 [] OTHER -> 8

\* Decode the varint at the front of bs.
\*   [ok |-> TRUE, len, value (U64), rest]  or  [ok |-> FALSE]  (truncated)
Decode(bs) ==
    IF Len(bs) = 0 THEN [ok |-> FALSE]
    ELSE LET n == LenOfFirst(bs[1])
         IN IF Len(bs) < n THEN [ok |-> FALSE]
            ELSE [ok |-> TRUE, len |-> n,
                  value |-> PadLeft([i \in 1..n |-> IF i = 1 THEN bs[1] % 64 ELSE bs[i]]),
                  rest |-> SubSeq(bs, n + 1, Len(bs))]

Representable(v) == Leq(v, Max62)

\* length of the shortest form
MinLen(v) == IF Less(v, FromInt(64)) THEN 1
             ELSE IF Less(v, FromInt(16384)) THEN 2
             ELSE IF Less(v, FromInt(1073741824)) THEN 4
             ELSE 8

\* encode v in exactly n bytes (n \in {1,2,4,8}); caller guarantees it fits
EncodeN(v, n) ==
    LET tag == CASE n = 1 -> 0 [] n = 2 -> 64 [] n = 4 -> 128 [] OTHER -> 192
        low == LowBytes(v, n)
    IN [i \in 1..n |-> IF i = 1 THEN low[1] + tag ELSE low[i]]

FitsN(v, n) == CASE n = 1 -> Less(v, FromInt(64))
                 [] n = 2 -> Less(v, FromInt(16384))
                 [] n = 4 -> Less(v, FromInt(1073741824))
                 [] OTHER -> Representable(v)

\* the shortest encoding (what RFC 9114 senders are expected to produce)
Encode(v) == EncodeN(v, MinLen(v))

\* small-integer conveniences for frame grammars
EncodeInt(n) == Encode(FromInt(n))
=============================================================================
