---- MODULE Shutdown_MC ----
EXTENDS Shutdown
====
