SPECIFICATION Spec
CONSTANTS Ids = {0, 4, 8}
  MaxN = 2
INVARIANTS NonIncreasing RequestIds Line NoEarlyNone
PROPERTY Drains
CHECK_DEADLOCK FALSE
