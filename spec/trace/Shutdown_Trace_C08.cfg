SPECIFICATION Spec
CONSTANT Prop = "C08"
POSTCONDITION TraceAccepted
CHECK_DEADLOCK FALSE
