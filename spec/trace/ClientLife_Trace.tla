-------------------------- MODULE ClientLife_Trace --------------------------
(* Trace specification for the client life cycle (ClientLife.tla).  The harness logs when a request task clones the       *)
(* application's SendRequest, when that clone is dropped, and when the application drops its own handle.                  *)
(*   safety    the client closes the connection (H3_NO_ERROR, with nothing else wrong) only when no handle is left        *)
(*   liveness  at quiescence: no handle left  =>  closed with H3_NO_ERROR and the driver has reported exactly that;       *)
(*             a handle left => not closed                                                                              *)
(*   a request task spawned after the last handle went finds no handle to clone                                          *)
EXTENDS Integers, Sequences, FiniteSets, Json, IOUtils, TLC

Rec == ndJsonDeserialize(IOEnv.TRACE)
VARIABLES l, scn, live, closed, drv, ok, why
vars == <<l, scn, live, closed, drv, ok, why>>
E == Rec[l]
NoError == 256

Bad(reason) == ok' = FALSE /\ why' = (IF ok THEN <<reason, l>> ELSE why)
Init == l = 1 /\ scn = "" /\ live = {} /\ closed = -1 /\ drv = <<>> /\ ok = TRUE /\ why = <<"">>
Reset == E.ev = "reset" /\ scn' = E.scn /\ live' = {"app"} /\ closed' = -1 /\ drv' = <<>> /\ ok' = TRUE /\ why' = <<"">>
Cloned == /\ E.ev = "sender_cloned" /\ live' = live \cup {E.task}
          /\ (IF live # {} THEN UNCHANGED <<ok, why>> ELSE Bad("a handle was cloned after the last one had been dropped"))
          /\ UNCHANGED <<scn, closed, drv>>
Dropped == E.ev = "sender_dropped" /\ live' = live \ {E.task} /\ UNCHANGED <<scn, closed, drv, ok, why>>
AppDrop == E.ev = "step" /\ E.op = "drop_sender" /\ live' = live \ {"app"} /\ UNCHANGED <<scn, closed, drv, ok, why>>
Close == /\ E.ev = "h3_close" /\ closed' = (IF closed = -1 THEN E.code ELSE closed)
         /\ (IF live = {} /\ E.code = NoError THEN UNCHANGED <<ok, why>>
             ELSE Bad(IF live # {} THEN "the connection was closed while a SendRequest handle is alive" ELSE "closed with another code than H3_NO_ERROR"))
         /\ UNCHANGED <<scn, live, drv>>
DrvRet == /\ E.ev = "ret" /\ E.api = "wait_idle" /\ E.res.k = "conn_err"
          /\ drv' = Append(drv, [origin |-> E.res.origin, code |-> E.res.code])
          /\ UNCHANGED <<scn, live, closed, ok, why>>
BadEv == E.ev \in {"panic", "late", "livelock", "harness_panic"} /\ Bad("panic / lost wake-up / livelock") /\ UNCHANGED <<scn, live, closed, drv>>
Check == IF live = {} THEN closed = NoError /\ drv # <<>> /\ \A i \in DOMAIN drv : drv[i] = [origin |-> "local", code |-> NoError]
         ELSE closed = -1 /\ drv = <<>>
Quiesce == /\ E.ev = "quiesce"
           /\ LET good == Check okk == ok /\ good w == IF ok /\ ~good THEN <<"at quiescence: handles left / close state", ToJson(live), closed>> ELSE why
              IN ok' = okk /\ why' = w /\ (IF okk THEN TRUE ELSE PrintT(<<"REJECT", scn, ToJson(w)>>))
           /\ UNCHANGED <<scn, live, closed, drv>>
Other == /\ ~(E.ev \in {"reset", "sender_cloned", "sender_dropped", "h3_close", "panic", "late", "livelock", "harness_panic", "quiesce"})
         /\ ~(E.ev = "step" /\ E.op = "drop_sender") /\ ~(E.ev = "ret" /\ E.api = "wait_idle" /\ E.res.k = "conn_err")
         /\ UNCHANGED <<scn, live, closed, drv, ok, why>>
Next == l <= Len(Rec) /\ l' = l + 1 /\ (Reset \/ Cloned \/ Dropped \/ AppDrop \/ Close \/ DrvRet \/ BadEv \/ Quiesce \/ Other)
Spec == Init /\ [][Next]_vars
TraceAccepted == TLCGet("stats").diameter - 1 = Len(Rec)
=============================================================================
