----------------------------- MODULE C06Q_Trace -----------------------------
(* Trace specification for C06 over the real transport (family "H3ERR", harness/src/quinnh.rs mod h3err).                  *)
(* In every scenario the peer ends the request stream or the connection, so EVERY call of the application's program has to   *)
(* return: a `panic` has no explanation, neither has a call still `pending` CAP after the peer's last act.                   *)
(* The program is the documented pattern with a retry loop: the operations in order; the first receive operation that fails  *)
(* is called again `again` times, the receive operations after it are skipped, the send operations are made regardless.      *)
(* The recorded events must be exactly that - the check cannot pass by not having called anything:                           *)
(*    ret      the next operation of the program returned                                                                    *)
(*    retry    the operation that failed was called again and returned                                                       *)
(*    skipped  a receive operation after the failed one; everything after a server's failed resolve_request (the resolver    *)
(*             is consumed, there is no stream); the whole program when a server never heard of the request because the      *)
(*             peer closed the connection first                                                                              *)
EXTENDS Integers, Sequences, FiniteSets, Json, IOUtils, TLC

Rec == ndJsonDeserialize(IOEnv.TRACE)
VARIABLES l, scn, role, prog, again, endk, pos, failedAt, nretry, ok, why
vars == <<l, scn, role, prog, again, endk, pos, failedAt, nretry, ok, why>>
E == Rec[l]
IsRecv(a) == a \in {"head", "recv_body", "recv_data", "recv_trailers"}
IsErr(r) == r.k \notin {"request", "response", "data", "none", "trailers", "ok"}
Want == IF pos <= Len(prog) THEN prog[pos] ELSE ""
Fail(t) == ok' = FALSE /\ why' = (IF ok THEN t ELSE why)
Keep == UNCHANGED <<ok, why>>

Init == l = 1 /\ scn = "" /\ role = "" /\ prog = <<>> /\ again = 0 /\ endk = "" /\ pos = 1 /\ failedAt = "" /\ nretry = 0 /\ ok = TRUE /\ why = <<"">>
Reset == /\ E.ev = "reset"
         /\ scn' = E.scn /\ role' = E.role /\ prog' = E.prog /\ again' = E.again /\ endk' = E.end.k /\ pos' = 1 /\ failedAt' = "" /\ nretry' = 0 /\ ok' = TRUE /\ why' = <<"">>
Ret == /\ E.ev = "ret" /\ E.api \in {"head", "recv_body", "recv_trailers", "send_data", "finish"}
       /\ pos' = pos + 1
       /\ failedAt' = (IF failedAt = "" /\ IsRecv(E.api) /\ IsErr(E.res) THEN E.api ELSE failedAt)
       /\ UNCHANGED <<scn, role, prog, again, endk, nretry>>
       /\ IF E.api # Want THEN Fail(<<"out of order", Want, E.api>>)
          ELSE IF IsRecv(E.api) /\ failedAt # "" THEN Fail(<<"receive call made after one had failed", E.api>>)
          ELSE Keep
Retry == /\ E.ev = "retry"
         /\ nretry' = nretry + 1
         /\ UNCHANGED <<scn, role, prog, again, endk, pos, failedAt>>
         /\ IF failedAt = "" \/ E.api # (IF failedAt = "recv_body" THEN "recv_data" ELSE failedAt) \/ nretry >= again THEN Fail(<<"unexpected retry", E.api>>) ELSE Keep
Skip == /\ E.ev = "skipped"
        /\ pos' = pos + 1
        /\ UNCHANGED <<scn, role, prog, again, endk, failedAt, nretry>>
        /\ IF E.api # Want THEN Fail(<<"out of order", Want, E.api>>)
           ELSE IF \/ (failedAt # "" /\ IsRecv(E.api))
                   \/ (role = "server" /\ failedAt = "head")
                   \/ (role = "server" /\ endk = "close" /\ failedAt = "" /\ "no_request" \in DOMAIN E.res)
                THEN Keep ELSE Fail(<<"call not made", E.api>>)
Bad == /\ E.ev \in {"panic", "pending"}
       /\ Fail(IF E.ev = "panic" THEN <<"panic", IF "res" \in DOMAIN E THEN E.res.msg ELSE E.msg>> ELSE <<"call pending forever", E.api>>)
       /\ UNCHANGED <<scn, role, prog, again, endk, pos, failedAt, nretry>>
Quiesce == /\ E.ev = "quiesce"
           /\ LET retriesDue == IF failedAt = "" \/ (role = "server" /\ failedAt = "head") THEN 0 ELSE again
                  good == pos = Len(prog) + 1 /\ nretry = retriesDue
                  okk == ok /\ good
                  w == IF ok /\ ~good THEN <<"not every call of the program was made and returned", pos, Len(prog), nretry, retriesDue>> ELSE why
              IN ok' = okk /\ why' = w /\ (IF okk THEN TRUE ELSE PrintT(<<"REJECT", scn, ToJson(w)>>))
           /\ UNCHANGED <<scn, role, prog, again, endk, pos, failedAt, nretry>>
Other == /\ ~(E.ev \in {"reset", "retry", "skipped", "panic", "pending", "quiesce"})
         /\ ~(E.ev = "ret" /\ E.api \in {"head", "recv_body", "recv_trailers", "send_data", "finish"})
         /\ UNCHANGED <<scn, role, prog, again, endk, pos, failedAt, nretry, ok, why>>
Next == l <= Len(Rec) /\ l' = l + 1 /\ (Reset \/ Ret \/ Retry \/ Skip \/ Bad \/ Quiesce \/ Other)
Spec == Init /\ [][Next]_vars
TraceAccepted == TLCGet("stats").diameter - 1 = Len(Rec)
=============================================================================
