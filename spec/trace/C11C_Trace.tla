----------------------------- MODULE C11C_Trace -----------------------------
(* Trace specification for the connection-level part of C11: the scenario delivered a field section the reference         *)
(* decoder refuses; the endpoint must have closed the connection with QPACK_DECOMPRESSION_FAILED and every connection      *)
(* error it reported (on the request, from the driver) must be that error.                                                *)
EXTENDS Integers, Sequences, FiniteSets, Json, IOUtils, TLC

Rec == ndJsonDeserialize(IOEnv.TRACE)
VARIABLES l, scn, errs, closes, ok, why
vars == <<l, scn, errs, closes, ok, why>>
E == Rec[l]
QPACK_DECOMPRESSION_FAILED == 512

Init == l = 1 /\ scn = "" /\ errs = <<>> /\ closes = <<>> /\ ok = TRUE /\ why = <<"">>
Reset == E.ev = "reset" /\ scn' = E.scn /\ errs' = <<>> /\ closes' = <<>> /\ ok' = TRUE /\ why' = <<"">>
Ret == /\ E.ev = "ret" /\ E.res.k = "conn_err"
       /\ errs' = Append(errs, [origin |-> E.res.origin, code |-> E.res.code]) /\ UNCHANGED <<scn, closes, ok, why>>
Close == E.ev = "h3_close" /\ closes' = Append(closes, E.code) /\ UNCHANGED <<scn, errs, ok, why>>
Bad == E.ev \in {"panic", "late", "livelock", "harness_panic"} /\ ok' = FALSE /\ why' = (IF ok THEN <<"event", E.ev>> ELSE why) /\ UNCHANGED <<scn, errs, closes>>
Check == /\ closes # <<>> /\ closes[1] = QPACK_DECOMPRESSION_FAILED
         /\ errs # <<>> /\ \A i \in DOMAIN errs : errs[i] = [origin |-> "local", code |-> QPACK_DECOMPRESSION_FAILED]
Quiesce == /\ E.ev = "quiesce"
           /\ LET good == Check okk == ok /\ good w == IF ok /\ ~good THEN <<"not QPACK_DECOMPRESSION_FAILED at connection level", ToJson(closes), ToJson(errs)>> ELSE why
              IN ok' = okk /\ why' = w /\ (IF okk THEN TRUE ELSE PrintT(<<"REJECT", scn, ToJson(w)>>))
           /\ UNCHANGED <<scn, errs, closes>>
Other == /\ ~(E.ev \in {"reset", "h3_close", "panic", "late", "livelock", "harness_panic", "quiesce"}) /\ ~(E.ev = "ret" /\ E.res.k = "conn_err")
         /\ UNCHANGED <<scn, errs, closes, ok, why>>
Next == l <= Len(Rec) /\ l' = l + 1 /\ (Reset \/ Ret \/ Close \/ Bad \/ Quiesce \/ Other)
Spec == Init /\ [][Next]_vars
TraceAccepted == TLCGet("stats").diameter - 1 = Len(Rec)
=============================================================================
