----------------------------- MODULE C18D_Trace -----------------------------
(* Trace specification for C18 at connection level (family "H3DG", harness/src/quinnh.rs mod h3dg): h3 with h3-datagram   *)
(* over h3-quinn against a raw Quinn peer, judged with the operators of Datagram.tla.                                      *)
(*   sending    every datagram the raw peer read is Enc(S, P) of a datagram the application sent, as often as it was sent    *)
(*              (nothing invented, altered, duplicated; on the loopback nothing is lost either);                             *)
(*   receiving  what read_datagram hands out is exactly Dec(b) of the valid datagrams the peer sent; a datagram with         *)
(*              Dec(b) not ok makes read_datagram fail with the local connection error H3_DATAGRAM_ERROR and the peer sees   *)
(*              the connection closed with that code; without such a datagram there is no error and no close.                *)
EXTENDS Datagram, Json, IOUtils, TLC, FiniteSets

Rec == ndJsonDeserialize(IOEnv.TRACE)
VARIABLES l, scn, sent, got, psent, reads, closed, ok, why
vars == <<l, scn, sent, got, psent, reads, closed, ok, why>>
E == Rec[l]

Count(s, x) == Cardinality({i \in DOMAIN s : s[i] = x})
SameBag(a, b) == Len(a) = Len(b) /\ \A i \in DOMAIN a : Count(a, a[i]) = Count(b, a[i])
ValidIdx == {i \in DOMAIN psent : Dec(psent[i]).ok}
DataReads == SelectSeq(reads, LAMBDA r : r.k = "datagram")
ExpectedReads == LET idx == ValidIdx
                     RECURSIVE F(_)
                     F(i) == IF i > Len(psent) THEN <<>> ELSE (IF i \in idx THEN <<[sid |-> Dec(psent[i]).sid, payload |-> Dec(psent[i]).payload]>> ELSE <<>>) \o F(i + 1)
                 IN F(1)
Check ==
    /\ SameBag(got, sent)
    /\ SameBag([i \in DOMAIN DataReads |-> [sid |-> DataReads[i].sid, payload |-> DataReads[i].payload]], ExpectedReads)
    /\ \A i \in DOMAIN reads : reads[i].k \in {"datagram", "conn_err"}
    /\ IF ValidIdx = DOMAIN psent
       THEN (\A i \in DOMAIN reads : reads[i].k = "datagram") /\ closed = -2
       ELSE /\ reads # <<>> /\ LET r == reads[Len(reads)] IN r.k = "conn_err" /\ r.origin = "local" /\ r.code = H3_DATAGRAM_ERROR
            /\ closed = H3_DATAGRAM_ERROR

Init == l = 1 /\ scn = "" /\ sent = <<>> /\ got = <<>> /\ psent = <<>> /\ reads = <<>> /\ closed = -2 /\ ok = TRUE /\ why = <<"">>
Reset == E.ev = "reset" /\ scn' = E.scn /\ sent' = <<>> /\ got' = <<>> /\ psent' = <<>> /\ reads' = <<>> /\ closed' = -2 /\ ok' = TRUE /\ why' = <<"">>
Sent == E.ev = "dg_sent" /\ sent' = (IF E.res.k = "ok" THEN Append(sent, Enc(E.sid, E.payload)) ELSE sent) /\ UNCHANGED <<scn, got, psent, reads, closed, ok, why>>
Got == E.ev = "peer_got" /\ got' = Append(got, E.bytes) /\ UNCHANGED <<scn, sent, psent, reads, closed, ok, why>>
PSent == E.ev = "peer_sent" /\ psent' = (IF E.ok THEN Append(psent, E.bytes) ELSE psent) /\ UNCHANGED <<scn, sent, got, reads, closed, ok, why>>
Read == E.ev = "dg_read" /\ reads' = Append(reads, E.res) /\ UNCHANGED <<scn, sent, got, psent, closed, ok, why>>
Closed == E.ev = "peer_closed" /\ closed' = E.code /\ UNCHANGED <<scn, sent, got, psent, reads, ok, why>>
Bad == E.ev \in {"panic", "pending"} /\ ok' = FALSE /\ why' = (IF ok THEN <<"event", E.ev>> ELSE why) /\ UNCHANGED <<scn, sent, got, psent, reads, closed>>
Quiesce == /\ E.ev = "quiesce"
           /\ LET good == Check okk == ok /\ good
                  w == IF ok /\ ~good THEN (IF ~SameBag(got, sent) THEN <<"what the peer read is not what was sent", ToJson(got)>>
                                            ELSE <<"what read_datagram reported", ToJson(reads), closed>>) ELSE why
              IN ok' = okk /\ why' = w /\ (IF okk THEN TRUE ELSE PrintT(<<"REJECT", scn, ToJson(w)>>))
           /\ UNCHANGED <<scn, sent, got, psent, reads, closed>>
Other == ~(E.ev \in {"reset", "dg_sent", "peer_got", "peer_sent", "dg_read", "peer_closed", "panic", "pending", "quiesce"}) /\ UNCHANGED <<scn, sent, got, psent, reads, closed, ok, why>>
Next == l <= Len(Rec) /\ l' = l + 1 /\ (Reset \/ Sent \/ Got \/ PSent \/ Read \/ Closed \/ Bad \/ Quiesce \/ Other)
Spec == Init /\ [][Next]_vars
TraceAccepted == TLCGet("stats").diameter - 1 = Len(Rec)
=============================================================================
