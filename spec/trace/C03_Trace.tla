----------------------------- MODULE C03_Trace -----------------------------
(* Trace specification for C03 (binding B).  One ndjson file holds many scenarios separated by `reset` events.     *)
(* Every event of the recorded execution is one step of this spec; the state is the abstract state of            *)
(* RequestRecv: what has arrived on the request stream, how it ended, what the application has been told, and      *)
(* the first close code the transport saw.  At every quiescent point (just before the environment acts again,      *)
(* and at the end) the recorded observations must be exactly those RequestRecv!Expect allows.                      *)
(* A scenario that is not a behaviour of the spec is reported (REJECT) and the next scenario is examined.          *)
EXTENDS RequestRecv, Json, IOUtils, TLC

Rec == ndJsonDeserialize(IOEnv.TRACE)

VARIABLES l, scn, role, wire, ended, rcode, obs, obsAtReset, closed, drv, ok, why
vars == <<l, scn, role, wire, ended, rcode, obs, obsAtReset, closed, drv, ok, why>>

E == Rec[l]
AppApis == {"resolve_request", "recv_response", "recv_data", "recv_trailers"}

\* the recorded result as the record shape RequestRecv compares (data results carry their bytes)
Proj(r) == IF r.k = "data" THEN [k |-> "data", bytes |-> r.bytes]
           ELSE IF r.k \in {"stream_err", "remote_terminate"} THEN [k |-> r.k, code |-> r.code]
           ELSE IF r.k = "conn_err" THEN [k |-> "conn_err", origin |-> r.origin, code |-> r.code]
           ELSE [k |-> r.k]

CloseOk(cl, ex) == LET ec == ExpectedClose(ex) IN
                   IF ec = {} THEN cl = -1 ELSE IF ec = {-2} THEN TRUE ELSE cl \in ec

\* the judgement at a quiescent point
Check ==
    IF ended # "reset" THEN
        LET ex == Expect(Observe(wire, ended = "fin"), role)
        IN ObsOk(obs, ex) /\ CloseOk(closed, ex)
           \* the driver reports exactly the connection's outcome
           /\ \A i \in DOMAIN drv : drv[i].k = "conn_err" => (closed # -1 /\ drv[i].origin = "local" /\ drv[i].code = closed)
    ELSE
        LET exo == Expect(Observe(wire, FALSE), role)
            before == SubSeq(obs, 1, obsAtReset)
        IN /\ ObsOk(before, exo) /\ CloseOk(closed, exo)
           /\ IF HasAny(exo.rets) THEN TRUE
              ELSE IF exo.pending
                   THEN \* the call that was waiting on the stream fails with the peer's code, stream-level only
                        /\ Len(obs) = obsAtReset + 1
                        /\ obs[Len(obs)].k = "remote_terminate" /\ obs[Len(obs)].code = rcode
                   ELSE Len(obs) = obsAtReset

Judge(tag) == IF ok /\ ~Check THEN <<FALSE, tag>> ELSE <<ok, why>>

Init == /\ l = 1 /\ scn = "" /\ role = "server" /\ wire = <<>> /\ ended = "open" /\ rcode = 0 /\ obs = <<>>
        /\ obsAtReset = 0 /\ closed = -1 /\ drv = <<>> /\ ok = TRUE /\ why = ""

Reset == /\ E.ev = "reset"
         /\ scn' = E.scn /\ role' = E.role /\ wire' = <<>> /\ ended' = "open" /\ rcode' = 0 /\ obs' = <<>>
         /\ obsAtReset' = 0 /\ closed' = -1 /\ drv' = <<>> /\ ok' = TRUE /\ why' = ""

\* the environment acts: the judgement is made on the state reached so far, then the input is applied
EnvStep == /\ E.ev = "step"
           /\ LET j == Judge(<<"before step", E.i>>) IN ok' = j[1] /\ why' = j[2]
           /\ CASE E.op = "deliver" /\ E.sid = 0 -> wire' = wire \o E.bytes /\ UNCHANGED <<ended, rcode, obsAtReset>>
                [] E.op = "fin" /\ E.sid = 0 -> ended' = "fin" /\ UNCHANGED <<wire, rcode, obsAtReset>>
                [] E.op = "reset" /\ E.sid = 0 -> ended' = "reset" /\ rcode' = E.code /\ obsAtReset' = Len(obs) /\ UNCHANGED wire
                [] OTHER -> UNCHANGED <<wire, ended, rcode, obsAtReset>>
           /\ UNCHANGED <<scn, role, obs, closed, drv>>

AppRet == /\ E.ev = "ret" /\ E.api \in AppApis
          /\ obs' = Append(obs, Proj(E.res))
          /\ UNCHANGED <<scn, role, wire, ended, rcode, obsAtReset, closed, drv, ok, why>>

DriverRet == /\ E.ev = "ret" /\ E.api \in {"accept", "wait_idle"} /\ E.res.k = "conn_err"
             /\ drv' = Append(drv, [k |-> "conn_err", origin |-> E.res.origin, code |-> E.res.code])
             /\ UNCHANGED <<scn, role, wire, ended, rcode, obs, obsAtReset, closed, ok, why>>

Close == /\ E.ev = "h3_close"
         /\ closed' = IF closed = -1 THEN E.code ELSE closed
         /\ UNCHANGED <<scn, role, wire, ended, rcode, obs, obsAtReset, drv, ok, why>>

\* there is no way to explain a panic, a lost wake-up or a livelock
Bad == /\ E.ev \in {"panic", "late", "livelock", "harness_panic"}
       /\ ok' = FALSE /\ why' = IF ok THEN <<"event", E.ev>> ELSE why
       /\ UNCHANGED <<scn, role, wire, ended, rcode, obs, obsAtReset, closed, drv>>

Quiesce == /\ E.ev = "quiesce"
           /\ LET j == Judge(<<"at quiescence">>) IN
                 /\ ok' = j[1] /\ why' = j[2]
                 /\ IF j[1] THEN TRUE ELSE PrintT(<<"REJECT", scn, ToJson(j[2])>>)
           /\ UNCHANGED <<scn, role, wire, ended, rcode, obs, obsAtReset, closed, drv>>

Other == /\ ~(E.ev \in {"reset", "step", "h3_close", "panic", "late", "livelock", "harness_panic", "quiesce"})
         /\ ~(E.ev = "ret" /\ (E.api \in AppApis \/ (E.api \in {"accept", "wait_idle"} /\ E.res.k = "conn_err")))
         /\ UNCHANGED <<scn, role, wire, ended, rcode, obs, obsAtReset, closed, drv, ok, why>>

Next == l <= Len(Rec) /\ l' = l + 1 /\ (Reset \/ EnvStep \/ AppRet \/ DriverRet \/ Close \/ Bad \/ Quiesce \/ Other)
Spec == Init /\ [][Next]_vars
TraceAccepted == TLCGet("stats").diameter - 1 = Len(Rec)
=============================================================================
