----------------------------- MODULE C06P_Trace -----------------------------
(* Generic termination monitor for C06 over traces of the real-transport families (harness/src/quinnh.rs): whatever the      *)
(* scenario was written for, a `panic` of the code under test has no explanation, neither has a call recorded as `pending`      *)
(* after the peer's last act (a result whose kind is "pending" / "missing" counts as such).  Silent about every outcome.         *)
(* A scenario in which nothing at all was recorded is rejected too (the monitor cannot pass by not having looked).              *)
EXTENDS Integers, Sequences, Json, IOUtils, TLC

Rec == ndJsonDeserialize(IOEnv.TRACE)
VARIABLES l, scn, n, ok, why
vars == <<l, scn, n, ok, why>>
E == Rec[l]
IsPendingResult == "res" \in DOMAIN E /\ "k" \in DOMAIN E.res /\ E.res.k = "pending"

Init == l = 1 /\ scn = "" /\ n = 0 /\ ok = TRUE /\ why = <<"">>
Reset == E.ev = "reset" /\ scn' = E.scn /\ n' = 0 /\ ok' = TRUE /\ why' = <<"">>
Bad == /\ E.ev \in {"panic", "pending"} \/ (E.ev \notin {"reset", "quiesce"} /\ IsPendingResult)
       /\ ok' = FALSE /\ n' = n + 1 /\ UNCHANGED scn
       /\ why' = (IF ok THEN (IF E.ev = "panic" THEN <<"panic", IF "msg" \in DOMAIN E THEN E.msg ELSE "">> ELSE <<"call pending forever", E.ev>>) ELSE why)
Quiesce == /\ E.ev = "quiesce"
           /\ LET okk == ok /\ n > 0 w == IF ok /\ n = 0 THEN <<"nothing was recorded">> ELSE why
              IN ok' = okk /\ why' = w /\ (IF okk THEN TRUE ELSE PrintT(<<"REJECT", scn, ToJson(w)>>))
           /\ UNCHANGED <<scn, n>>
Other == /\ E.ev \notin {"reset", "panic", "pending", "quiesce"} /\ ~IsPendingResult
         /\ n' = n + 1 /\ UNCHANGED <<scn, ok, why>>
Next == l <= Len(Rec) /\ l' = l + 1 /\ (Reset \/ Bad \/ Quiesce \/ Other)
Spec == Init /\ [][Next]_vars
TraceAccepted == TLCGet("stats").diameter - 1 = Len(Rec)
=============================================================================
