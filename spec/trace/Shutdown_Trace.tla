--------------------------- MODULE Shutdown_Trace ---------------------------
(* Trace specification for C08 and C09 (server side, binding B).  The recorded execution is explained as a          *)
(* behaviour of Shutdown.tla: the variables of that spec are reconstructed from the events (GOAWAY identifiers       *)
(* are parsed out of the bytes the server wrote on its control stream by H3Frame!Observe, not by the harness)        *)
(* and its invariants are evaluated at every step; at quiescence the liveness obligation `Drains` is discharged      *)
(* by the deterministic executor (nothing is runnable, so "not yet" means "never").                                  *)
EXTENDS H3Frame, StreamIdSpec, Json, IOUtils, TLC, FiniteSets

CONSTANT Prop      \* "C08" | "C09"

Rec == ndJsonDeserialize(IOEnv.TRACE)
VARIABLES l, scn, arrived, ctrlOut, peerCtl, shown, rejected, live, everLive, none, errd, ok, why
vars == <<l, scn, arrived, ctrlOut, peerCtl, shown, rejected, live, everLive, none, errd, ok, why>>
E == Rec[l]

IsReqSid(sid) == sid % 4 = 0
\* GOAWAY identifiers the server has written so far (complete frames only), as Ints (scenario ids are small)
GoawayItems(bytes) == LET o == Observe(bytes, FALSE) IN SelectSeq(o.items, LAMBDA it : it.c = "GOAWAY")
SentIdsOf(co) == LET g == GoawayItems(co) IN [i \in 1..Len(g) |-> IF FitsInt(g[i].v) THEN ToInt(g[i].v) ELSE -1]
SentIds == SentIdsOf(ctrlOut)
PeerGoaway == Len(peerCtl) >= 1 /\ GoawayItems(SubSeq(peerCtl, 2, Len(peerCtl))) # <<>>

\* handler task name -> request stream id ("h8", "h8.s", "h8.r")
Digits == [c \in {"0","1","2","3","4","5","6","7","8","9"} |-> CASE c = "0" -> 0 [] c = "1" -> 1 [] c = "2" -> 2 [] c = "3" -> 3 [] c = "4" -> 4
                                                                   [] c = "5" -> 5 [] c = "6" -> 6 [] c = "7" -> 7 [] c = "8" -> 8 [] c = "9" -> 9]
TaskSid(t) == CASE t \in {"h0", "h0.s", "h0.r"} -> 0 [] t \in {"h4", "h4.s", "h4.r"} -> 4 [] t \in {"h8", "h8.s", "h8.r"} -> 8
                [] t \in {"h12", "h12.s", "h12.r"} -> 12 [] OTHER -> -1

NonIncreasing(s) == \A i \in 1..(Len(s) - 1) : s[i + 1] <= s[i]
\* (evaluated on explicit next-state values: TLC does not cache LET definitions under a prime)
C08InvOf(co, sh, rj) ==
    LET s == SentIdsOf(co) IN
    /\ NonIncreasing(s)
    /\ \A i \in 1..Len(s) : s[i] >= 0 /\ s[i] % 4 = 0
    /\ \A x \in sh, i \in 1..Len(s) : x < s[i]                       \* nothing at or above an announced identifier is shown
    /\ sh \cap rj = {}
C08Reject(sid) == LET s == SentIds IN s # <<>> /\ sid >= s[Len(s)]   \* only streams at or above the line are refused
\* every request is either served or refused; nothing in a C08 history is a connection error
C08Quiesce == ~errd /\ (none \/ arrived \subseteq (shown \cup rejected))

LiveSet == { s \in shown : live[s] > 0 }
C09None == LiveSet = {}                                              \* never "no more requests" while one is in progress
\* (nothing the peer does in a C09 history is a connection error: every fault is confined to a request, the GOAWAY is legal - also when
\*  it is repeated with the same identifier - so a driver that reports a connection error has not "drained")
C09Quiesce == ~errd /\ ((PeerGoaway /\ LiveSet = {} /\ arrived \subseteq (shown \cup rejected)) => none)

Fail(tag) == ok' = FALSE /\ why' = IF ok THEN tag ELSE why
Keep == UNCHANGED <<ok, why>>

Init == /\ l = 1 /\ scn = "" /\ arrived = {} /\ ctrlOut = <<>> /\ peerCtl = <<>> /\ shown = {} /\ rejected = {}
        /\ live = [s \in {0, 4, 8, 12} |-> 0] /\ everLive = {} /\ none = FALSE /\ errd = FALSE /\ ok = TRUE /\ why = <<"">>

Reset == /\ E.ev = "reset"
         /\ scn' = E.scn /\ arrived' = {} /\ ctrlOut' = <<>> /\ peerCtl' = <<>> /\ shown' = {} /\ rejected' = {}
         /\ live' = [s \in {0, 4, 8, 12} |-> 0] /\ everLive' = {} /\ none' = FALSE /\ errd' = FALSE /\ ok' = TRUE /\ why' = <<"">>

EnvStep == /\ E.ev = "step"
           /\ CASE E.op \in {"deliver", "fin", "reset"} /\ IsReqSid(E.sid) -> arrived' = arrived \cup {E.sid} /\ UNCHANGED peerCtl
                [] E.op = "deliver" /\ E.sid = 2 -> peerCtl' = peerCtl \o E.bytes /\ UNCHANGED arrived
                [] OTHER -> UNCHANGED <<arrived, peerCtl>>
           /\ UNCHANGED <<scn, ctrlOut, shown, rejected, live, everLive, none, errd>> /\ Keep

\* the server's control stream: a unidirectional stream of its own whose first byte was the stream type 0x00
IsCtl == E.ev = "wrote" /\ (E.sid \div 2) % 2 = 1 /\ E.ut = 0
Wrote == /\ IsCtl
         /\ ctrlOut' = ctrlOut \o E.bytes
         /\ UNCHANGED <<scn, arrived, peerCtl, shown, rejected, live, everLive, none, errd>>
         /\ IF Prop = "C08" /\ ~C08InvOf(ctrlOut \o E.bytes, shown, rejected) THEN Fail(<<"C08 invariant after GOAWAY written", l>>) ELSE Keep

AcceptRet == /\ E.ev = "ret" /\ E.api = "accept"
             /\ CASE E.res.k = "some" -> shown' = shown \cup {E.res.sid} /\ UNCHANGED <<none, errd>>
                  [] E.res.k = "none" -> none' = TRUE /\ UNCHANGED <<shown, errd>>
                  [] E.res.k = "conn_err" -> errd' = TRUE /\ UNCHANGED <<shown, none>>
                  [] OTHER -> UNCHANGED <<shown, none, errd>>
             /\ UNCHANGED <<scn, arrived, ctrlOut, peerCtl, rejected, live, everLive>>
             /\ IF Prop = "C08" /\ E.res.k = "some" /\ ~C08InvOf(ctrlOut, shown \cup {E.res.sid}, rejected) THEN Fail(<<"C08: stream shown at or above the announced identifier", E.res.sid>>)
                ELSE IF Prop = "C09" /\ E.res.k = "none" /\ ~C09None THEN Fail(<<"C09: accept ended while a request is in progress">>)
                ELSE Keep

\* a request refused with H3_REQUEST_REJECTED
Reject == /\ E.ev = "h3_reset" /\ E.code = H3_REQUEST_REJECTED
          /\ rejected' = rejected \cup {E.sid}
          /\ UNCHANGED <<scn, arrived, ctrlOut, peerCtl, shown, live, everLive, none, errd>>
          /\ IF Prop = "C08" /\ ~(C08Reject(E.sid) /\ C08InvOf(ctrlOut, shown, rejected \cup {E.sid})) THEN Fail(<<"C08: stream below the announced identifier refused", E.sid>>) ELSE Keep

\* a request that is refused is refused with H3_REQUEST_REJECTED in both directions: whatever STOP_SENDING a request stream that was never
\* shown to the application gets (explicitly, or implicitly when its receiving half is let go while the peer is still sending) carries that code
IsStop == E.ev = "h3_stop" /\ IsReqSid(E.sid) /\ E.sid \notin shown
Stop == /\ IsStop
        /\ UNCHANGED <<scn, arrived, ctrlOut, peerCtl, shown, rejected, live, everLive, none, errd>>
        /\ IF Prop = "C08" /\ E.code # H3_REQUEST_REJECTED THEN Fail(<<"C08: refused request stopped with another code", E.sid, E.code>>) ELSE Keep

TaskStart == /\ E.ev = "task_start" /\ TaskSid(E.task) # -1
             /\ live' = [live EXCEPT ![TaskSid(E.task)] = @ + 1] /\ everLive' = everLive \cup {TaskSid(E.task)}
             /\ UNCHANGED <<scn, arrived, ctrlOut, peerCtl, shown, rejected, none, errd>> /\ Keep
TaskEnd == /\ E.ev = "task_end" /\ TaskSid(E.task) # -1
           /\ live' = [live EXCEPT ![TaskSid(E.task)] = @ - 1]
           /\ UNCHANGED <<scn, arrived, ctrlOut, peerCtl, shown, rejected, everLive, none, errd>> /\ Keep

Bad == /\ E.ev \in {"panic", "late", "livelock", "harness_panic"}
       /\ Fail(<<"event", E.ev>>)
       /\ UNCHANGED <<scn, arrived, ctrlOut, peerCtl, shown, rejected, live, everLive, none, errd>>

Quiesce == /\ E.ev = "quiesce"
           /\ LET bad == IF Prop = "C08" THEN ~C08Quiesce ELSE ~C09Quiesce
                  okk == ok /\ ~bad
                  w == IF ok /\ bad THEN <<"at quiescence", Prop>> ELSE why
              IN /\ ok' = okk /\ why' = w
                 /\ IF okk THEN TRUE ELSE PrintT(<<"REJECT", scn, ToJson(w)>>)
           /\ UNCHANGED <<scn, arrived, ctrlOut, peerCtl, shown, rejected, live, everLive, none, errd>>

Other == /\ ~(E.ev \in {"reset", "step", "panic", "late", "livelock", "harness_panic", "quiesce"})
         /\ ~IsCtl /\ ~(E.ev = "ret" /\ E.api = "accept")
         /\ ~(E.ev = "h3_reset" /\ E.code = H3_REQUEST_REJECTED) /\ ~IsStop
         /\ ~(E.ev \in {"task_start", "task_end"} /\ TaskSid(E.task) # -1)
         /\ UNCHANGED <<scn, arrived, ctrlOut, peerCtl, shown, rejected, live, everLive, none, errd>> /\ Keep

Next == l <= Len(Rec) /\ l' = l + 1 /\ (Reset \/ EnvStep \/ Wrote \/ AcceptRet \/ Reject \/ Stop \/ TaskStart \/ TaskEnd \/ Bad \/ Quiesce \/ Other)
Spec == Init /\ [][Next]_vars
TraceAccepted == TLCGet("stats").diameter - 1 = Len(Rec)
=============================================================================
