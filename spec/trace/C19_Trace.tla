----------------------------- MODULE C19_Trace -----------------------------
(* Trace specification for C19 (binding B): a WebTransport session is identified by the stream id of its CONNECT.       *)
(*  - the session id reported after accepting the session is the CONNECT stream id (not its index);                      *)
(*  - every stream the server opens for the session starts with  varint(0x54) / varint(0x41), varint(CONNECT id)  and    *)
(*    continues with exactly the payload the application wrote (parsed here from the recorded wire bytes);               *)
(*  - an incoming WebTransport stream is surfaced with the session id found in its header, and the bytes read from it    *)
(*    are exactly the bytes after the header, also when header and payload shared a chunk; once its header has been     *)
(*    delivered completely it IS surfaced (the accept call has moved on to reading it), also while it stays open;        *)
(*  - with the extension disabled, a 0x54 stream is never surfaced and is no error;                                      *)
(*  - the session's datagrams carry the quarter stream id of the CONNECT stream.                                         *)
EXTENDS H3Frame, Json, IOUtils, TLC

Rec == ndJsonDeserialize(IOEnv.TRACE)
VARIABLES l, scn, meta, rets, wires, dgrams, closed, ok, why
vars == <<l, scn, meta, rets, wires, dgrams, closed, ok, why>>
E == Rec[l]

Ret(api) == SelectSeq(rets, LAMBDA r : r.api = api)
WireOf(sid) == LET w == SelectSeq(wires, LAMBDA x : x.sid = sid) IN IF w = <<>> THEN <<>> ELSE w[1].bytes
P1 == <<111, 117, 116>>
P2 == <<98, 105>>
P3 == <<100, 103>>
C == meta.connect_sid

Opened(api, ty, payload) ==
    LET rs == Ret(api) IN
    /\ Len(rs) = 1 /\ rs[1].k = "ok"
    /\ LET w == WireOf(rs[1].sid) t == Decode(w) IN
       /\ t.ok /\ t.value = FromInt(ty)
       /\ LET s == Decode(t.rest) IN s.ok /\ s.value = FromInt(C) /\ s.rest = payload

Incoming(api, sid, pending) ==
    LET rs == Ret(api) IN
    IF meta.fin_in THEN Len(rs) = 1 /\ rs[1].k = "eof" /\ rs[1].session = C /\ rs[1].sid = sid /\ rs[1].bytes = meta.pay_in
    ELSE \* still open: no result yet, but the stream has been surfaced - the call is now waiting on that stream
         /\ rs = <<>>
         /\ \E i \in DOMAIN pending : pending[i].task = "srv" /\ pending[i].api = api /\ pending[i].kind = "rx" /\ pending[i].sid = sid

\* part T: two sessions on one connection - the stream is attached to the session its header names (4), not to the accepting one (0)
CheckTwo ==
    /\ closed = -1
    /\ Len(Ret("wt_accept")) = 1 /\ Ret("wt_accept")[1].k = "ok" /\ Ret("wt_accept")[1].session = 0
    /\ Len(Ret("accept_bi_request")) = 1
    /\ LET rs == Ret("accept_bi") IN Len(rs) = 1 /\ rs[1].k = "eof" /\ rs[1].session = 4 /\ rs[1].sid = meta.bi_sid /\ rs[1].bytes = meta.pay_in
CheckW(pending) ==
    /\ closed = -1
    /\ Len(Ret("wt_accept")) = 1 /\ Ret("wt_accept")[1].k = "ok" /\ Ret("wt_accept")[1].session = C
    /\ Opened("open_uni", 84, P1)
    /\ IF meta.wt THEN
           /\ Opened("open_bi", 65, P2)
           /\ Len(Ret("send_datagram")) = 1 /\ Ret("send_datagram")[1].k = "ok" /\ dgrams = <<EncodeInt(C \div 4) \o P3>>
           /\ Len(Ret("read_datagram")) = 1 /\ Ret("read_datagram")[1].k = "datagram" /\ Ret("read_datagram")[1].sid = C /\ Ret("read_datagram")[1].payload = P3
           /\ Incoming("accept_uni", meta.uni_sid, pending)
           \* the bidirectional stream is accepted after the unidirectional one has been read to its end
           /\ meta.fin_in => Incoming("accept_bi", meta.bi_sid, pending)
       ELSE \* extension disabled: the typed stream is not surfaced, and that is not an error
           Ret("accept_uni") = <<>>

Check(pending) == IF meta.part = "T" THEN CheckTwo ELSE CheckW(pending)

Init == l = 1 /\ scn = "" /\ meta = <<>> /\ rets = <<>> /\ wires = <<>> /\ dgrams = <<>> /\ closed = -1 /\ ok = TRUE /\ why = <<"">>
Reset == E.ev = "reset" /\ scn' = E.scn /\ meta' = E.meta /\ rets' = <<>> /\ wires' = <<>> /\ dgrams' = <<>> /\ closed' = -1 /\ ok' = TRUE /\ why' = <<"">>
Proj(r) == CASE r.k = "ok" /\ "session" \in DOMAIN r -> [k |-> "ok", session |-> r.session]
             [] r.k = "ok" /\ "sid" \in DOMAIN r -> [k |-> "ok", sid |-> r.sid]
             [] r.k = "eof" -> [k |-> "eof", session |-> r.session, sid |-> r.sid, bytes |-> r.bytes]
             [] r.k = "datagram" -> [k |-> "datagram", sid |-> r.sid, payload |-> r.payload]
             [] OTHER -> [k |-> r.k]
WtApis == {"wt_accept", "open_uni", "open_bi", "accept_uni", "accept_bi", "accept_bi_request", "send_datagram", "read_datagram"}
ARet == /\ E.ev = "ret" /\ E.api \in WtApis /\ rets' = Append(rets, Proj(E.res) @@ [api |-> E.api])
        /\ UNCHANGED <<scn, meta, wires, dgrams, closed, ok, why>>
Wrote == /\ E.ev = "wrote"
         /\ wires' = (IF \E i \in DOMAIN wires : wires[i].sid = E.sid
                      THEN [i \in DOMAIN wires |-> IF wires[i].sid = E.sid THEN [sid |-> E.sid, bytes |-> wires[i].bytes \o E.bytes] ELSE wires[i]]
                      ELSE Append(wires, [sid |-> E.sid, bytes |-> E.bytes]))
         /\ UNCHANGED <<scn, meta, rets, dgrams, closed, ok, why>>
Dgram == E.ev = "h3_datagram" /\ dgrams' = Append(dgrams, E.bytes) /\ UNCHANGED <<scn, meta, rets, wires, closed, ok, why>>
Close == E.ev = "h3_close" /\ closed' = (IF closed = -1 THEN E.code ELSE closed) /\ UNCHANGED <<scn, meta, rets, wires, dgrams, ok, why>>
Bad == /\ E.ev \in {"panic", "late", "livelock", "harness_panic"}
       /\ ok' = FALSE /\ why' = (IF ok THEN <<"event", E.ev>> ELSE why) /\ UNCHANGED <<scn, meta, rets, wires, dgrams, closed>>
Quiesce == /\ E.ev = "quiesce"
           /\ LET good == Check(E.pending) okk == ok /\ good w == IF ok /\ ~good THEN <<"at quiescence">> ELSE why
              IN ok' = okk /\ why' = w /\ (IF okk THEN TRUE ELSE PrintT(<<"REJECT", scn, ToJson(w)>>))
           /\ UNCHANGED <<scn, meta, rets, wires, dgrams, closed>>
Other == /\ ~(E.ev \in {"reset", "wrote", "h3_datagram", "h3_close", "panic", "late", "livelock", "harness_panic", "quiesce"})
         /\ ~(E.ev = "ret" /\ E.api \in WtApis)
         /\ UNCHANGED <<scn, meta, rets, wires, dgrams, closed, ok, why>>
Next == l <= Len(Rec) /\ l' = l + 1 /\ (Reset \/ ARet \/ Wrote \/ Dgram \/ Close \/ Bad \/ Quiesce \/ Other)
Spec == Init /\ [][Next]_vars
TraceAccepted == TLCGet("stats").diameter - 1 = Len(Rec)
=============================================================================
