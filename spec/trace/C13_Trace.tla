----------------------------- MODULE C13_Trace -----------------------------
(* Trace specification for C13 (binding B).                                                                          *)
(*  part S: the bytes the endpoint wrote on its first unidirectional stream during set-up are parsed here              *)
(*          (stream type 0x00, one SETTINGS frame whose length equals its payload, identifier/value pairs) and         *)
(*          compared with the configuration echoed in the `reset` event: the effective value of every known setting    *)
(*          (value sent, or the protocol default when omitted) equals the configured one, no identifier twice,         *)
(*          no HTTP/2-reserved identifier, exactly one reserved-form (0x1f*N+0x21) identifier iff grease is on.        *)
(*          A configured value >= 2^62 is not representable: set-up either fails cleanly or sends 2^62-1.              *)
(*  part R: a received SETTINGS payload is applied exactly: the probe (client: request of size 167; server:             *)
(*          response of size 175) is refused locally iff it exceeds the advertised limit, erroneous payloads           *)
(*          close the connection with the right code (RFC 9114 7.2.4, 7.2.4.1).                                        *)
EXTENDS H3Frame, Json, IOUtils, TLC

Rec == ndJsonDeserialize(IOEnv.TRACE)
VARIABLES l, scn, role, cfg, part, payload, cut, ctrl, built, closed, probe, drv, ok, why
vars == <<l, scn, role, cfg, part, payload, cut, ctrl, built, closed, probe, drv, ok, why>>
E == Rec[l]

S_MAX_FIELD == FromInt(6)
S_EXT_CONNECT == FromInt(8)
S_DATAGRAM == FromInt(51)
S_WT == FromInt(727725890)
S_WT_SESSIONS == FromInt(727725891)
Known == {S_MAX_FIELD, S_EXT_CONNECT, S_DATAGRAM, S_WT, S_WT_SESSIONS}
Default(id) == IF id = S_MAX_FIELD THEN Max62 ELSE Zero          \* 7.2.4.1: unlimited; extensions off
Clamp(v) == IF Less(Max62, v) THEN Max62 ELSE v
B(b) == IF b THEN FromInt(1) ELSE Zero

Effective(pairs, id) == IF \E i \in DOMAIN pairs : pairs[i].id = id THEN (CHOOSE p \in { pairs[i] : i \in DOMAIN pairs } : p.id = id).val ELSE Default(id)
Configured(c, id) == CASE id = S_MAX_FIELD -> c.max_field [] id = S_EXT_CONNECT -> B(c.ext_connect) [] id = S_DATAGRAM -> B(c.datagram)
                       [] id = S_WT -> B(c.wt) [] id = S_WT_SESSIONS -> c.max_wt_sessions
CfgRepresentable(c) == Leq(c.max_field, Max62) /\ Leq(c.max_wt_sessions, Max62)

SentOk ==
    /\ Len(ctrl) >= 1 /\ ctrl[1] = 0                                           \* stream type: control
    /\ LET f == NextFrame(SubSeq(ctrl, 2, Len(ctrl))) IN
       /\ f.st = "frame" /\ f.cls = "SETTINGS" /\ f.rest = <<>>               \* exactly one complete frame, SETTINGS
       /\ LET sp == SettingsPairs(f.payload) pairs == sp[2] IN
          /\ sp[1]                                                             \* no truncated entry
          /\ \A a, b \in DOMAIN pairs : a # b => pairs[a].id # pairs[b].id    \* no identifier twice
          /\ \A a \in DOMAIN pairs : ~(FitsInt(pairs[a].id) /\ ToInt(pairs[a].id) \in SettingForbidden)
          /\ \A id \in Known : Effective(pairs, id) = Clamp(Configured(cfg, id))
          /\ LET extra == { a \in DOMAIN pairs : pairs[a].id \notin Known } IN
             /\ \A a \in extra : IsReservedForm(pairs[a].id)
             /\ Cardinality(extra) = (IF cfg.grease THEN 1 ELSE 0)

CheckS == IF built = "ok" THEN SentOk
          ELSE \* set-up refused: only legitimate for an unrepresentable value, and nothing malformed may have been written
               built = "err" /\ ~CfgRepresentable(cfg) /\ ctrl = <<>>

\* ---- part R ------------------------------------------------------------------------------------------------------------
ProbeSize == IF role = "client" THEN 167 ELSE 175
Delivered == IF cut < 0 THEN Frame(4, payload) ELSE SubSeq(Frame(4, payload), 1, cut)
CheckR ==
    LET o == Observe(Delivered, FALSE) IN
    IF o.term = "err" THEN
        /\ closed \in (o.codes \cup {H3_MISSING_SETTINGS})
        /\ drv # <<>> /\ \A i \in DOMAIN drv : drv[i].k = "conn_err" /\ drv[i].code = closed
    ELSE IF o.items = <<>> THEN            \* frame incomplete: defaults still apply
        /\ closed = -1 /\ probe # <<>> /\ probe[1].k = "ok"
    ELSE
        LET pairs == SettingsPairs(payload)[2]
            lim == Effective(SelectSeq(pairs, LAMBDA p : p.id = S_MAX_FIELD), S_MAX_FIELD)
            fits == Leq(FromInt(ProbeSize), lim)
        IN /\ closed = -1 /\ probe # <<>>
           /\ IF fits THEN probe[1].k = "ok"
              ELSE probe[1].k = "too_big" /\ probe[1].max = lim /\ probe[1].actual = FromInt(ProbeSize)

Check == IF part = "S" THEN CheckS ELSE CheckR

Init == /\ l = 1 /\ scn = "" /\ role = "" /\ cfg = <<>> /\ part = "" /\ payload = <<>> /\ cut = -1 /\ ctrl = <<>> /\ built = ""
        /\ closed = -1 /\ probe = <<>> /\ drv = <<>> /\ ok = TRUE /\ why = <<"">>

Reset == /\ E.ev = "reset"
         /\ scn' = E.scn /\ role' = E.role /\ cfg' = E.cfg /\ ctrl' = <<>> /\ built' = "" /\ closed' = -1 /\ probe' = <<>> /\ drv' = <<>>
         /\ part' = (IF "setup_log" \in DOMAIN E.cfg THEN "S" ELSE "R") /\ payload' = <<>> /\ cut' = -1 /\ ok' = TRUE /\ why' = <<"">>
Keep == UNCHANGED <<scn, role, cfg, part>>

FirstUni == IF role = "server" THEN 3 ELSE 2
Wrote == /\ E.ev = "wrote" /\ E.sid = FirstUni /\ built = ""
         /\ ctrl' = ctrl \o E.bytes /\ Keep /\ UNCHANGED <<payload, cut, built, closed, probe, drv, ok, why>>
Built == /\ E.ev = "ret" /\ E.api = "build"
         /\ built' = (IF E.res.k = "ok" THEN "ok" ELSE "err") /\ Keep /\ UNCHANGED <<payload, cut, ctrl, closed, probe, drv, ok, why>>
\* part R scenarios carry their payload in the first step (the delivery on the peer's control stream)
EnvStep == /\ E.ev = "step" /\ Keep
           /\ IF E.op = "deliver" /\ E.sid \in {2, 3} /\ payload = <<>> /\ cut = -1
              THEN LET fr == SubSeq(E.bytes, 2, Len(E.bytes)) f == NextFrame(fr) IN
                   IF f.st = "frame" THEN payload' = f.payload /\ cut' = -1
                   ELSE payload' = fr /\ cut' = -2           \* incomplete frame: judged as such
              ELSE UNCHANGED <<payload, cut>>
           /\ UNCHANGED <<ctrl, built, closed, probe, drv, ok, why>>
ProbeRet == /\ E.ev = "ret" /\ E.api \in {"send_request", "send_response"} /\ Keep
            /\ probe' = <<IF E.res.k = "too_big" THEN [k |-> "too_big", max |-> E.res.max, actual |-> E.res.actual] ELSE [k |-> E.res.k]>>
            /\ UNCHANGED <<payload, cut, ctrl, built, closed, drv, ok, why>>
DriverRet == /\ E.ev = "ret" /\ E.api \in {"accept", "wait_idle"} /\ E.res.k = "conn_err" /\ Keep
             /\ drv' = Append(drv, [k |-> "conn_err", code |-> E.res.code])
             /\ UNCHANGED <<payload, cut, ctrl, built, closed, probe, ok, why>>
Close == /\ E.ev = "h3_close" /\ Keep /\ closed' = (IF closed = -1 THEN E.code ELSE closed)
         /\ UNCHANGED <<payload, cut, ctrl, built, probe, drv, ok, why>>
Bad == /\ E.ev \in {"panic", "late", "livelock", "harness_panic"} /\ Keep
       /\ ok' = FALSE /\ why' = (IF ok THEN <<"event", E.ev>> ELSE why)
       /\ UNCHANGED <<payload, cut, ctrl, built, closed, probe, drv>>
\* incomplete frames (cut = -2) are judged by CheckR through Observe of what was delivered
CheckR2 == IF cut = -2 THEN
              LET o == Observe(payload, FALSE) IN
              IF o.term = "err" THEN closed \in (o.codes \cup {H3_MISSING_SETTINGS})
              ELSE closed = -1 /\ probe # <<>> /\ probe[1].k = "ok"
           ELSE CheckR
Quiesce == /\ E.ev = "quiesce" /\ Keep
           /\ LET good == IF part = "S" THEN CheckS ELSE CheckR2
                  okk == ok /\ good
                  w == IF ok /\ ~good THEN <<"at quiescence", part>> ELSE why
              IN ok' = okk /\ why' = w /\ (IF okk THEN TRUE ELSE PrintT(<<"REJECT", scn, ToJson(w)>>))
           /\ UNCHANGED <<payload, cut, ctrl, built, closed, probe, drv>>
Other == /\ ~(E.ev \in {"reset", "step", "h3_close", "panic", "late", "livelock", "harness_panic", "quiesce"})
         /\ ~(E.ev = "wrote" /\ E.sid = FirstUni /\ built = "")
         /\ ~(E.ev = "ret" /\ (E.api \in {"build", "send_request", "send_response"} \/ (E.api \in {"accept", "wait_idle"} /\ E.res.k = "conn_err")))
         /\ UNCHANGED <<scn, role, cfg, part, payload, cut, ctrl, built, closed, probe, drv, ok, why>>

Next == l <= Len(Rec) /\ l' = l + 1 /\ (Reset \/ Wrote \/ Built \/ EnvStep \/ ProbeRet \/ DriverRet \/ Close \/ Bad \/ Quiesce \/ Other)
Spec == Init /\ [][Next]_vars
TraceAccepted == TLCGet("stats").diameter - 1 = Len(Rec)
=============================================================================
