----------------------------- MODULE C11_Trace -----------------------------
(* Binding B for C11: what h3's stateless encoder wrote (qenc: {in: fields, out: {ok, bytes, size}}) must be decoded  *)
(* by the independent RFC 9204 decoder QpackBlock!DecodeSection to exactly the input list, in order, and the size      *)
(* it reports must be the RFC 9114 4.2.2 size; random qdec records are judged by the same decoder.                     *)
EXTENDS QpackBlock, Json, IOUtils

Rec == ndJsonDeserialize(IOEnv.TRACE)
VARIABLE l

\* JSON arrays of pairs arrive as <<name, value>> tuples already
Explains(r) ==
    CASE r.fn = "qenc" ->
            LET d == DecodeSection(r.out.bytes) IN
            r.out.ok /\ d.v = "ok" /\ d.fields = r.in /\ r.out.size = SectionSize(r.in)
      [] r.fn = "qdec" ->
            LET d == DecodeSection(r.in) IN
            CASE d.v = "reject" -> ~r.out.ok
              [] d.v = "ok" -> r.out.ok /\ r.out.fields = d.fields /\ r.out.size = SectionSize(d.fields)
              [] OTHER -> ~r.out.ok \/ (r.out.fields = d.fields)
      [] OTHER -> FALSE

\* why the reference decoder refuses the input of a rejected qdec record (classification of findings only)
Why(r) == IF r.fn = "qdec" /\ DecodeSection(r.in).v = "reject" THEN DecodeSection(r.in).why ELSE ""
Init == l = 1
Next == l <= Len(Rec) /\ l' = l + 1 /\ (IF Explains(Rec[l]) THEN TRUE ELSE PrintT(<<"REJECT", l, Why(Rec[l])>>))
Spec == Init /\ [][Next]_l
TraceAccepted == TLCGet("stats").diameter - 1 = Len(Rec)
=============================================================================
