----------------------------- MODULE C05D_Trace -----------------------------
(* Trace specification for C05 on the datagram reader (family "H3DG" with `pre_error`): the driver reports the connection      *)
(* error h3 detected; DatagramReader::read_datagram, asked afterwards, reports the SAME error (origin and code) - the first       *)
(* error is the connection's single outcome, seen everywhere.  Both calls return.                                                  *)
EXTENDS Integers, Sequences, FiniteSets, Json, IOUtils, TLC

Rec == ndJsonDeserialize(IOEnv.TRACE)
VARIABLES l, scn, drv, rd, ok, why
vars == <<l, scn, drv, rd, ok, why>>
E == Rec[l]
IsErr(r) == r.k = "conn_err"
Check == /\ Len(drv) = 1 /\ Len(rd) = 1
         /\ IsErr(drv[1]) /\ drv[1].origin = "local"
         /\ IsErr(rd[1]) /\ rd[1].origin = drv[1].origin /\ rd[1].code = drv[1].code

Init == l = 1 /\ scn = "" /\ drv = <<>> /\ rd = <<>> /\ ok = TRUE /\ why = <<"">>
Reset == E.ev = "reset" /\ scn' = E.scn /\ drv' = <<>> /\ rd' = <<>> /\ ok' = TRUE /\ why' = <<"">>
Driver == E.ev = "driver" /\ drv' = Append(drv, E.res) /\ UNCHANGED <<scn, rd, ok, why>>
Read == E.ev = "dg_read" /\ rd' = Append(rd, E.res) /\ UNCHANGED <<scn, drv, ok, why>>
Bad == E.ev \in {"panic", "pending"} /\ ok' = FALSE /\ why' = (IF ok THEN <<"event", E.ev>> ELSE why) /\ UNCHANGED <<scn, drv, rd>>
Quiesce == /\ E.ev = "quiesce"
           /\ LET good == Check okk == ok /\ good
                  w == IF ok /\ ~good THEN <<"the datagram reader did not report the connection's error", ToJson(drv), ToJson(rd)>> ELSE why
              IN ok' = okk /\ why' = w /\ (IF okk THEN TRUE ELSE PrintT(<<"REJECT", scn, ToJson(w)>>))
           /\ UNCHANGED <<scn, drv, rd>>
Other == ~(E.ev \in {"reset", "driver", "dg_read", "panic", "pending", "quiesce"}) /\ UNCHANGED <<scn, drv, rd, ok, why>>
Next == l <= Len(Rec) /\ l' = l + 1 /\ (Reset \/ Driver \/ Read \/ Bad \/ Quiesce \/ Other)
Spec == Init /\ [][Next]_vars
TraceAccepted == TLCGet("stats").diameter - 1 = Len(Rec)
=============================================================================
