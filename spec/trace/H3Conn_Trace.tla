---------------------------- MODULE H3Conn_Trace ----------------------------
(* The connection-level monitor: judges ANY recorded run of the simulator (single endpoint under test) by the invariants *)
(* of H3Conn, whatever property the scenario was written for.  IOEnv.INV selects the invariant that is switched on:      *)
(*   ERR   (C05)  every connection error any API call reports is the same error; a local one is what the transport was   *)
(*                closed with (first close); a remote one never makes h3 close the connection itself                     *)
(*   GOAWAY (C08) the GOAWAY identifiers the endpoint writes on its control stream never grow                            *)
(* Needs the scenario to run with cfg.log_wrote and cfg.setup_log (the corpus runner sets both).                          *)
EXTENDS WireOut, Json, IOUtils, TLC

Rec == ndJsonDeserialize(IOEnv.TRACE)
Inv == IOEnv.INV
VARIABLES l, scn, role, errs, closes, ctl, ok, why
vars == <<l, scn, role, errs, closes, ctl, ok, why>>
E == Rec[l]

\* ctl: bytes written per unidirectional stream of the endpoint under test:  sequence of [sid, bytes]
FindU(sid) == { i \in DOMAIN ctl : ctl[i].sid = sid }
IsUni(sid) == (sid \div 2) % 2 = 1

ErrOk == /\ \A i, j \in DOMAIN errs : errs[i] = errs[j]
         /\ errs # <<>> =>
              IF errs[1].origin = "local" THEN closes # <<>> /\ closes[1] = errs[1].code
              ELSE closes = <<>>
         /\ \A i, j \in DOMAIN closes : closes[i] = closes[j]
RECURSIVE NonIncreasing(_)
NonIncreasing(s) == Len(s) < 2 \/ (Leq(s[2], s[1]) /\ NonIncreasing(Tail(s)))
GoawayOk == \A i \in DOMAIN ctl :
               LET b == ctl[i].bytes IN
               (b # <<>> /\ b[1] = 0) => NonIncreasing(Goaways(Tail(b)))
Check == CASE Inv = "ERR" -> role = "pair" \/ ErrOk
           [] Inv = "GOAWAY" -> GoawayOk
           [] OTHER -> FALSE
Reason == CASE Inv = "ERR" -> <<"connection errors reported differ, or the transport was closed with another code", ToJson(errs), ToJson(closes)>>
            [] OTHER -> <<"a GOAWAY identifier written on the control stream is larger than an earlier one">>

Init == l = 1 /\ scn = "" /\ role = "server" /\ errs = <<>> /\ closes = <<>> /\ ctl = <<>> /\ ok = TRUE /\ why = <<"">>
Reset == E.ev = "reset" /\ scn' = E.scn /\ role' = E.role /\ errs' = <<>> /\ closes' = <<>> /\ ctl' = <<>> /\ ok' = TRUE /\ why' = <<"">>
\* Application-level errors only: local errors that are not protocol errors (e.g. "connection is closing") carry code -1
Ret == /\ E.ev = "ret" /\ E.res.k = "conn_err" /\ E.res.code # -1
       /\ errs' = Append(errs, [origin |-> IF E.res.origin = "local" THEN "local" ELSE "remote", code |-> E.res.code])
       /\ UNCHANGED <<scn, role, closes, ctl, ok, why>>
Close == E.ev = "h3_close" /\ closes' = Append(closes, E.code) /\ UNCHANGED <<scn, role, errs, ctl, ok, why>>
Wrote == /\ E.ev = "wrote" /\ IsUni(E.sid)
         /\ ctl' = (IF FindU(E.sid) = {} THEN Append(ctl, [sid |-> E.sid, bytes |-> E.bytes])
                    ELSE LET i == CHOOSE i \in FindU(E.sid) : TRUE IN [ctl EXCEPT ![i].bytes = @ \o E.bytes])
         /\ UNCHANGED <<scn, role, errs, closes, ok, why>>
Quiesce == /\ E.ev = "quiesce"
           /\ LET good == Check okk == ok /\ good w == IF ok /\ ~good THEN Reason ELSE why
              IN ok' = okk /\ why' = w /\ (IF okk THEN TRUE ELSE PrintT(<<"REJECT", scn, ToJson(w)>>))
           /\ UNCHANGED <<scn, role, errs, closes, ctl>>
Other == /\ ~(E.ev \in {"reset", "h3_close", "quiesce"})
         /\ ~(E.ev = "ret" /\ E.res.k = "conn_err" /\ E.res.code # -1)
         /\ ~(E.ev = "wrote" /\ IsUni(E.sid))
         /\ UNCHANGED <<scn, role, errs, closes, ctl, ok, why>>
Next == l <= Len(Rec) /\ l' = l + 1 /\ (Reset \/ Ret \/ Close \/ Wrote \/ Quiesce \/ Other)
Spec == Init /\ [][Next]_vars
TraceAccepted == TLCGet("stats").diameter - 1 = Len(Rec)
=============================================================================
