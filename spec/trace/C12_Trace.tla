----------------------------- MODULE C12_Trace -----------------------------
(* Trace specification for C12 (binding B).                                                                          *)
(*  part G: the field section the scripted peer injected is recovered from the delivered bytes (H3Frame!Observe +      *)
(*     QpackBlock!DecodeSection), classified by H3Message!Classify, and the recorded result must match:               *)
(*       refuse        -> the call reports the stream error H3_MESSAGE_ERROR, no connection error                      *)
(*       deliver       -> the message is handed over with exactly the injected method/scheme/authority/path (status)   *)
(*                        and the regular fields, values in per-name order                                             *)
(*       unconstrained -> any terminating outcome without a connection error                                           *)
(*  part W: the HEADERS frames h3 wrote are decoded here: all pseudo fields first, each at most once, with the         *)
(*     caller's values, no uppercase names, regular fields as supplied.                                                *)
EXTENDS H3Message, H3Frame, Json, IOUtils

Rec == ndJsonDeserialize(IOEnv.TRACE)
VARIABLES l, scn, role, meta, in0, out0, rets, closed, ok, why
vars == <<l, scn, role, meta, in0, out0, rets, closed, ok, why>>
E == Rec[l]

Sections(bytes) == LET o == Observe(bytes, FALSE) hs == SelectSeq(o.items, LAMBDA it : it.c = "HEADERS") IN [i \in 1..Len(hs) |-> DecodeSection(hs[i].payload)]
Ret(api) == SelectSeq(rets, LAMBDA r : r.api = api)

(* ---- part G --------------------------------------------------------------------------------------------------------- *)
GateApi == CASE meta.kind = "request" -> "resolve_request" [] meta.kind = "response" -> "recv_response" [] OTHER -> "recv_trailers"
Injected == LET ss == Sections(in0) IN IF meta.kind = "trailers" THEN ss[2].fields ELSE ss[1].fields
PartsOk(r, fs) ==
    CASE meta.kind = "request" ->
            /\ r.k = "request" /\ r.method = Get(fs, N_METHOD) /\ r.scheme = Get(fs, N_SCHEME) /\ r.authority = Get(fs, N_AUTHORITY)
            /\ r.path = Get(fs, N_PATH) /\ r.fields = GroupByName(Regular(fs))
      [] meta.kind = "response" ->
            /\ r.k = "response" /\ r.fields = GroupByName(Regular(fs))
            /\ LET st == Get(fs, N_STATUS) IN r.status = (st[1] - 48) * 100 + (st[2] - 48) * 10 + (st[3] - 48)
      [] OTHER -> r.k = "trailers" /\ r.fields = GroupByName(Regular(fs))
CheckG ==
    LET fs == Injected cls == Classify(meta.kind, fs) rs == Ret(GateApi) IN
    /\ closed = -1
    /\ Len(rs) = 1
    /\ CASE cls = "refuse" -> rs[1].k = "stream_err" /\ rs[1].code = H3_MESSAGE_ERROR
         [] cls = "deliver" -> PartsOk(rs[1], fs)
         [] OTHER -> TRUE

(* ---- part W --------------------------------------------------------------------------------------------------------- *)
Lower(b) == IF b \in 65..90 THEN b + 32 ELSE b
LowerName(f) == <<[i \in DOMAIN f[1] |-> Lower(f[1][i])], f[2]>>
CallerFields(fl) == GroupByName([i \in DOMAIN fl |-> LowerName(fl[i])])
NoUpper(fs) == \A i \in DOMAIN fs : ~HasUpper(fs[i][1])
Shape(fs) == PseudoFirst(fs) /\ PseudoOnce(fs) /\ NoUpper(fs)
CONNECTm == <<67, 79, 78, 78, 69, 67, 84>>
PseudoNames(fs) == { fs[i][1] : i \in { j \in DOMAIN fs : IsPseudo(fs[j]) } }
ReqWireOk(fs) ==
    /\ Shape(fs) /\ GroupByName(Regular(fs)) = CallerFields(meta.fields)
    /\ Has(fs, N_METHOD) /\ Get(fs, N_METHOD) = meta.method
    /\ Has(fs, N_AUTHORITY) /\ Get(fs, N_AUTHORITY) = meta.authority
    /\ IF meta.method = CONNECTm /\ meta.protocol = <<>>
       THEN PseudoNames(fs) = {N_METHOD, N_AUTHORITY}                         \* RFC 9114 4.4: :scheme and :path omitted
       ELSE /\ Has(fs, N_SCHEME) /\ Get(fs, N_SCHEME) = meta.scheme
            /\ Has(fs, N_PATH) /\ Get(fs, N_PATH) = meta.path
            /\ IF meta.protocol = <<>> THEN PseudoNames(fs) = {N_METHOD, N_SCHEME, N_AUTHORITY, N_PATH}
               ELSE PseudoNames(fs) = {N_METHOD, N_SCHEME, N_AUTHORITY, N_PATH, N_PROTOCOL} /\ Get(fs, N_PROTOCOL) = meta.protocol
Digits(n) == <<48 + (n \div 100), 48 + ((n \div 10) % 10), 48 + (n % 10)>>
CheckW ==
    LET ss == Sections(out0) IN
    /\ closed = -1
    /\ \A i \in DOMAIN ss : ss[i].v = "ok"
    /\ IF meta.kind = "request" THEN
           /\ Len(Ret("send_request")) = 1 /\ Ret("send_request")[1].k = "ok"
           /\ Len(ss) = 1 /\ ReqWireOk(ss[1].fields)
       ELSE
           /\ Len(ss) = 2 /\ Ret("send_response")[1].k = "ok" /\ Ret("send_trailers")[1].k = "ok"
           /\ Shape(ss[1].fields) /\ PseudoNames(ss[1].fields) = {N_STATUS} /\ Get(ss[1].fields, N_STATUS) = Digits(meta.status)
           /\ GroupByName(Regular(ss[1].fields)) = CallerFields(meta.fields)
           /\ PseudoNames(ss[2].fields) = {} /\ NoUpper(ss[2].fields) /\ GroupByName(ss[2].fields) = CallerFields(meta.trailers)

Check == IF meta.part = "G" THEN CheckG ELSE CheckW

Init == l = 1 /\ scn = "" /\ role = "" /\ meta = <<>> /\ in0 = <<>> /\ out0 = <<>> /\ rets = <<>> /\ closed = -1 /\ ok = TRUE /\ why = <<"">>
Reset == /\ E.ev = "reset" /\ scn' = E.scn /\ role' = E.role /\ meta' = E.meta /\ in0' = <<>> /\ out0' = <<>> /\ rets' = <<>> /\ closed' = -1 /\ ok' = TRUE /\ why' = <<"">>
Keep == UNCHANGED <<scn, role, meta>>
EnvStep == /\ E.ev = "step" /\ Keep
           /\ in0' = (IF E.op = "deliver" /\ E.sid = 0 THEN in0 \o E.bytes ELSE in0)
           /\ UNCHANGED <<out0, rets, closed, ok, why>>
Wrote == /\ E.ev = "wrote" /\ E.sid = 0 /\ Keep /\ out0' = out0 \o E.bytes /\ UNCHANGED <<in0, rets, closed, ok, why>>
Proj(api, r) == CASE r.k = "request" -> [api |-> api, k |-> "request", method |-> r.method, scheme |-> r.scheme, authority |-> r.authority, path |-> r.path, fields |-> r.fields]
                  [] r.k = "response" -> [api |-> api, k |-> "response", status |-> r.status, fields |-> r.fields]
                  [] r.k = "trailers" -> [api |-> api, k |-> "trailers", fields |-> r.fields]
                  [] r.k = "stream_err" -> [api |-> api, k |-> "stream_err", code |-> r.code]
                  [] OTHER -> [api |-> api, k |-> r.k]
ARet == /\ E.ev = "ret" /\ E.api \in {"resolve_request", "recv_response", "recv_trailers", "send_request", "send_response", "send_trailers"} /\ Keep
        /\ rets' = Append(rets, Proj(E.api, E.res)) /\ UNCHANGED <<in0, out0, closed, ok, why>>
Close == /\ E.ev = "h3_close" /\ Keep /\ closed' = (IF closed = -1 THEN E.code ELSE closed) /\ UNCHANGED <<in0, out0, rets, ok, why>>
Bad == /\ E.ev \in {"panic", "late", "livelock", "harness_panic"} /\ Keep
       /\ ok' = FALSE /\ why' = (IF ok THEN <<"event", E.ev>> ELSE why) /\ UNCHANGED <<in0, out0, rets, closed>>
Quiesce == /\ E.ev = "quiesce" /\ Keep
           /\ LET good == Check okk == ok /\ good w == IF ok /\ ~good THEN <<"at quiescence", meta.part, meta.kind>> ELSE why
              IN ok' = okk /\ why' = w /\ (IF okk THEN TRUE ELSE PrintT(<<"REJECT", scn, ToJson(w)>>))
           /\ UNCHANGED <<in0, out0, rets, closed>>
Other == /\ ~(E.ev \in {"reset", "step", "h3_close", "panic", "late", "livelock", "harness_panic", "quiesce"})
         /\ ~(E.ev = "wrote" /\ E.sid = 0)
         /\ ~(E.ev = "ret" /\ E.api \in {"resolve_request", "recv_response", "recv_trailers", "send_request", "send_response", "send_trailers"})
         /\ UNCHANGED <<scn, role, meta, in0, out0, rets, closed, ok, why>>
Next == l <= Len(Rec) /\ l' = l + 1 /\ (Reset \/ EnvStep \/ Wrote \/ ARet \/ Close \/ Bad \/ Quiesce \/ Other)
Spec == Init /\ [][Next]_vars
TraceAccepted == TLCGet("stats").diameter - 1 = Len(Rec)
=============================================================================
