----------------------------- MODULE C07_Trace -----------------------------
(* Trace specification for C07 (binding B): faults confined to one request.                                           *)
(*  meta.kinds[i] / meta.codes[i] describe stream 4*(i-1): "healthy", or the stream-scoped fault it suffers.             *)
(*  At quiescence:  the connection was never closed and the driver reported no error;                                    *)
(*   healthy stream: request delivered, the body is exactly the peer's bytes, end-of-body, no trailers, and its         *)
(*                   response went out completely (send calls ok, FIN);                                                 *)
(*   faulty stream:  every error reported on it is stream-level and is the one the fault calls for:                     *)
(*      reset(c) -> RemoteTerminate(c), and the receive side never ends cleanly (no end-of-body / trailers result);     *)
(*      stop(c) -> RemoteTerminate(c) on send calls only;  malformed / badtrailers -> H3_MESSAGE_ERROR;                  *)
(*      oversize -> header-too-big;  finfirst -> H3_REQUEST_INCOMPLETE;  dropped handles -> no error at all.            *)
EXTENDS H3Message, H3Codes, Json, IOUtils

Rec == ndJsonDeserialize(IOEnv.TRACE)
VARIABLES l, scn, role, meta, rets, closed, drvErr, fins, stops, rsts, ok, why
vars == <<l, scn, role, meta, rets, closed, drvErr, fins, stops, rsts, ok, why>>
E == Rec[l]

Body == <<104, 101, 108, 108, 111>>
SidOfTask(t) == CASE t \in {"h0", "h0.s", "h0.r"} -> 0 [] t \in {"h4", "h4.s", "h4.r"} -> 4 [] t \in {"h8", "h8.s", "h8.r"} -> 8 [] OTHER -> -1
Of(sid) == SelectSeq(rets, LAMBDA r : r.sid = sid)
IsErr(r) == r.k \in {"stream_err", "remote_terminate", "conn_err", "too_big", "remote_closing", "undefined", "unknown_stream_error"}
RecvApis == {"resolve_request", "recv_response", "recv_data", "recv_trailers"}
SendApis == {"send_request", "send_response", "send_data", "send_trailers", "finish"}

HealthyOk(sid) ==
    LET rs == Of(sid) IN
    /\ \A i \in DOMAIN rs : ~IsErr(rs[i])
    /\ LET rv == SelectSeq(rs, LAMBDA r : r.api \in RecvApis) IN
       /\ Len(rv) >= 3 /\ rv[1].k = (IF role = "server" THEN "request" ELSE "response")
       /\ rv[Len(rv)].k = "none" /\ rv[Len(rv)].api = "recv_trailers" /\ rv[Len(rv) - 1].k = "none"
       /\ LET ds == SelectSeq(rv, LAMBDA r : r.k = "data")
              RECURSIVE Cat(_) Cat(i) == IF i > Len(ds) THEN <<>> ELSE ds[i].bytes \o Cat(i + 1)
          IN Cat(1) = Body /\ Len(ds) = Len(rv) - 3
    /\ LET sd == SelectSeq(rs, LAMBDA r : r.api \in SendApis) IN Len(sd) = (IF role = "server" THEN 3 ELSE 2) /\ \A i \in DOMAIN sd : sd[i].k = "ok"
    /\ sid \in fins

\* the peer is told with the code: a RESET_STREAM or a STOP_SENDING on that stream carries it, and none carries another error code
Signalled(sid, c) == /\ (<<sid, c>> \in rsts \/ <<sid, c>> \in stops)
                     /\ \A p \in rsts \cup stops : p[1] = sid => p[2] \in {c, 0}
\* evaluated at quiescence (E is the quiesce event): stopped, or nothing of it left unread
Relieved(sid) == (\E p \in stops : p[1] = sid) \/ ~(\E i \in DOMAIN E.unread : E.unread[i].sid = sid)
FaultyOk(sid, kind, code) ==
    LET rs == Of(sid) errs == SelectSeq(rs, LAMBDA r : IsErr(r)) IN
    /\ \A i \in DOMAIN errs : errs[i].k # "conn_err"
    /\ CASE kind = "reset" ->
              /\ \A i \in DOMAIN errs : errs[i].k = "remote_terminate" /\ errs[i].code = code
              \* the reset is reported: the receive side never looks cleanly finished
              /\ LET rv == SelectSeq(rs, LAMBDA r : r.api \in RecvApis) IN
                 rv # <<>> /\ rv[Len(rv)].k = "remote_terminate" /\ ~(\E i \in DOMAIN rv : rv[i].k = "none")
         [] kind \in {"stop", "stoptrl"} -> \A i \in DOMAIN errs : errs[i].k = "remote_terminate" /\ errs[i].code = code /\ errs[i].api \in SendApis
         [] kind = "malformed" /\ role = "server" ->
              /\ Len(rs) = 1 /\ rs[1].k = "stream_err" /\ rs[1].code = H3_MESSAGE_ERROR
              \* the peer is told: the response side is reset with the code, it does not end as a clean (and empty) response
              /\ Signalled(sid, H3_MESSAGE_ERROR) /\ sid \notin fins
         [] kind = "malformed" ->
              /\ Len(errs) = 1 /\ errs[1].api = "recv_response" /\ errs[1].k = "stream_err" /\ errs[1].code = H3_MESSAGE_ERROR
              \* the rest of the refused response does not stay charged to the connection while the application keeps the
              \* failed stream: the client stops the stream (or reads the rest away)
              /\ Relieved(sid)
         [] kind = "badtrailers" -> Len(errs) = 1 /\ errs[1].api = "recv_trailers" /\ errs[1].k = "stream_err" /\ errs[1].code = H3_MESSAGE_ERROR
         [] kind = "oversize" /\ role = "server" -> Len(rs) = 1 /\ rs[1].k = "too_big"
         [] kind = "oversize" -> Len(errs) = 1 /\ errs[1].api = "recv_response" /\ errs[1].k = "too_big" /\ Relieved(sid)
         [] kind = "finfirst" -> Len(rs) = 1 /\ rs[1].k = "stream_err" /\ rs[1].code = H3_REQUEST_INCOMPLETE
                                /\ Signalled(sid, H3_REQUEST_INCOMPLETE) /\ sid \notin fins
         [] OTHER -> errs = <<>>

Check == /\ closed = -1 /\ ~drvErr
         /\ \A i \in DOMAIN meta.kinds :
               IF meta.kinds[i] = "healthy" THEN HealthyOk(4 * (i - 1)) ELSE FaultyOk(4 * (i - 1), meta.kinds[i], meta.codes[i])

Init == l = 1 /\ scn = "" /\ role = "server" /\ meta = <<>> /\ rets = <<>> /\ closed = -1 /\ drvErr = FALSE /\ fins = {} /\ stops = {} /\ rsts = {} /\ ok = TRUE /\ why = <<"">>
Reset == E.ev = "reset" /\ scn' = E.scn /\ role' = E.role /\ meta' = E.meta /\ rets' = <<>> /\ closed' = -1 /\ drvErr' = FALSE /\ fins' = {} /\ stops' = {} /\ rsts' = {} /\ ok' = TRUE /\ why' = <<"">>
Proj(r) == CASE r.k = "data" -> [k |-> "data", bytes |-> r.bytes]
             [] r.k \in {"stream_err", "remote_terminate"} -> [k |-> r.k, code |-> r.code]
             [] OTHER -> [k |-> r.k]
ARet == /\ E.ev = "ret" /\ SidOfTask(E.task) # -1 /\ E.api \in (RecvApis \cup SendApis)
        /\ rets' = Append(rets, Proj(E.res) @@ [sid |-> SidOfTask(E.task), api |-> E.api])
        /\ UNCHANGED <<scn, role, meta, closed, drvErr, fins, stops, rsts, ok, why>>
DRet == /\ E.ev = "ret" /\ E.api \in {"accept", "wait_idle"} /\ E.res.k = "conn_err" /\ drvErr' = TRUE /\ UNCHANGED <<scn, role, meta, rets, closed, fins, stops, rsts, ok, why>>
Fin == E.ev = "h3_fin" /\ fins' = fins \cup {E.sid} /\ UNCHANGED <<scn, role, meta, rets, closed, drvErr, stops, rsts, ok, why>>
Stop == E.ev = "h3_stop" /\ stops' = stops \cup {<<E.sid, E.code>>} /\ UNCHANGED <<scn, role, meta, rets, closed, drvErr, fins, rsts, ok, why>>
Rst == E.ev = "h3_reset" /\ rsts' = rsts \cup {<<E.sid, E.code>>} /\ UNCHANGED <<scn, role, meta, rets, closed, drvErr, fins, stops, ok, why>>
Close == E.ev = "h3_close" /\ closed' = (IF closed = -1 THEN E.code ELSE closed) /\ UNCHANGED <<scn, role, meta, rets, drvErr, fins, stops, rsts, ok, why>>
Bad == /\ E.ev \in {"panic", "late", "livelock", "harness_panic"}
       /\ ok' = FALSE /\ why' = (IF ok THEN <<"event", E.ev>> ELSE why) /\ UNCHANGED <<scn, role, meta, rets, closed, drvErr, fins, stops, rsts>>
Quiesce == /\ E.ev = "quiesce"
           /\ LET good == Check okk == ok /\ good w == IF ok /\ ~good THEN <<"at quiescence">> ELSE why
              IN ok' = okk /\ why' = w /\ (IF okk THEN TRUE ELSE PrintT(<<"REJECT", scn, ToJson(w)>>))
           /\ UNCHANGED <<scn, role, meta, rets, closed, drvErr, fins, stops, rsts>>
Other == /\ ~(E.ev \in {"reset", "h3_fin", "h3_stop", "h3_reset", "h3_close", "panic", "late", "livelock", "harness_panic", "quiesce"})
         /\ ~(E.ev = "ret" /\ ((SidOfTask(E.task) # -1 /\ E.api \in (RecvApis \cup SendApis)) \/ (E.api \in {"accept", "wait_idle"} /\ E.res.k = "conn_err")))
         /\ UNCHANGED <<scn, role, meta, rets, closed, drvErr, fins, stops, rsts, ok, why>>
Next == l <= Len(Rec) /\ l' = l + 1 /\ (Reset \/ ARet \/ DRet \/ Fin \/ Stop \/ Rst \/ Close \/ Bad \/ Quiesce \/ Other)
Spec == Init /\ [][Next]_vars
TraceAccepted == TLCGet("stats").diameter - 1 = Len(Rec)
=============================================================================
