----------------------------- MODULE C14_Trace -----------------------------
(* Trace specification for C14 (binding B): the bytes every endpoint under test wrote, per stream, are collected from   *)
(* the `wrote` events and judged by WireOut (stream types, control stream contents, request-stream frame sequences,      *)
(* frame lengths, reserved identifiers, no HTTP/2-reserved types or settings).  A log that was not finished must be a    *)
(* valid prefix; one finished by FIN must be a valid stream.  Works for single-endpoint and pair traces.                  *)
EXTENDS WireOut, Json, IOUtils, TLC

Rec == ndJsonDeserialize(IOEnv.TRACE)
VARIABLES l, scn, wt, logs, closed, ok, why
vars == <<l, scn, wt, logs, closed, ok, why>>
E == Rec[l]

\* logs: sequence of [net, sid, bytes, fin, reset]
Find(net, sid) == { i \in DOMAIN logs : logs[i].net = net /\ logs[i].sid = sid }
With(net, sid) == IF Find(net, sid) = {} THEN Append(logs, [net |-> net, sid |-> sid, bytes |-> <<>>, fin |-> FALSE, reset |-> FALSE]) ELSE logs
Idx(ls, net, sid) == CHOOSE i \in DOMAIN ls : ls[i].net = net /\ ls[i].sid = sid

IsUni(sid) == (sid \div 2) % 2 = 1
\* RFC 9114 5.2 / 7.2.6: the identifier in a GOAWAY a SERVER sends is a client-initiated bidirectional stream id (a server's own
\* unidirectional streams have ids = 3 mod 4; its control stream begins with the type byte 0x00)
ServerGoawayOk(s) == (s.sid % 4 = 3 /\ s.bytes # <<>> /\ s.bytes[1] = 0) =>
                        LET g == Goaways(Tail(s.bytes)) IN \A i \in DOMAIN g : g[i][8] % 4 = 0
StreamOk(s) ==
    IF IsUni(s.sid) THEN ValidUni(s.bytes, s.fin /\ ~s.reset, TRUE) /\ ServerGoawayOk(s)
    ELSE IF s.bytes = <<>> THEN TRUE                        \* nothing written (e.g. refused before the head)
    \* a WebTransport bidirectional stream (signal value 0x41 as a two-byte varint, then the session id): its payload is the application's
    ELSE IF wt /\ Len(s.bytes) >= 2 /\ s.bytes[1] = 64 /\ s.bytes[2] = 65 THEN TRUE
    ELSE ValidRequestStream(s.bytes, s.fin /\ ~s.reset)
Check == \A i \in DOMAIN logs : StreamOk(logs[i])
FirstBad == IF Check THEN <<"">> ELSE LET i == CHOOSE j \in DOMAIN logs : ~StreamOk(logs[j]) IN <<"stream", logs[i].net, logs[i].sid>>

Init == l = 1 /\ scn = "" /\ wt = FALSE /\ logs = <<>> /\ closed = -1 /\ ok = TRUE /\ why = <<"">>
Reset == E.ev = "reset" /\ scn' = E.scn /\ wt' = E.wt /\ logs' = <<>> /\ closed' = -1 /\ ok' = TRUE /\ why' = <<"">>
Wrote == /\ E.ev = "wrote"
         /\ LET ls == With(E.net, E.sid) i == Idx(ls, E.net, E.sid) IN logs' = [ls EXCEPT ![i].bytes = @ \o E.bytes]
         /\ UNCHANGED <<scn, wt, closed, ok, why>>
\* a FIN after the connection was closed reaches nobody (an application that calls finish() after a connection error)
Fin == /\ E.ev = "h3_fin"
       /\ LET ls == With(E.net, E.sid) i == Idx(ls, E.net, E.sid) IN logs' = [ls EXCEPT ![i].fin = (@ \/ closed = -1)]
       /\ UNCHANGED <<scn, wt, closed, ok, why>>
Rst == /\ E.ev = "h3_reset"
       /\ LET ls == With(E.net, E.sid) i == Idx(ls, E.net, E.sid) IN logs' = [ls EXCEPT ![i].reset = TRUE]
       /\ UNCHANGED <<scn, wt, closed, ok, why>>
Close == E.ev = "h3_close" /\ closed' = (IF closed = -1 THEN E.code ELSE closed) /\ UNCHANGED <<scn, wt, logs, ok, why>>
Bad == /\ E.ev \in {"panic", "late", "livelock", "harness_panic"}
       /\ ok' = FALSE /\ why' = (IF ok THEN <<"event", E.ev>> ELSE why) /\ UNCHANGED <<scn, wt, logs, closed>>
Quiesce == /\ E.ev = "quiesce"
           /\ LET good == Check okk == ok /\ good w == IF ok /\ ~good THEN FirstBad ELSE why
              IN ok' = okk /\ why' = w /\ (IF okk THEN TRUE ELSE PrintT(<<"REJECT", scn, ToJson(w)>>))
           /\ UNCHANGED <<scn, wt, logs, closed>>
Other == /\ ~(E.ev \in {"reset", "wrote", "h3_fin", "h3_reset", "h3_close", "panic", "late", "livelock", "harness_panic", "quiesce"})
         /\ UNCHANGED <<scn, wt, logs, closed, ok, why>>
Next == l <= Len(Rec) /\ l' = l + 1 /\ (Reset \/ Wrote \/ Fin \/ Rst \/ Close \/ Bad \/ Quiesce \/ Other)
Spec == Init /\ [][Next]_vars
TraceAccepted == TLCGet("stats").diameter - 1 = Len(Rec)
=============================================================================
