----------------------------- MODULE C10_Trace -----------------------------
(* Trace specification for C10 (binding B): RFC 9114 4.2.2 field-section size limit.                               *)
(*  receiving: a section of size S (sum of name + value + 32, computed by QpackBlock!SectionSize) is accepted iff    *)
(*     S <= the receiver's configured maximum, otherwise the call reports header-too-big; never a connection        *)
(*     error; a server answers 431 (the HEADERS frame it writes is decoded here) unless that 42-byte section itself  *)
(*     exceeds the client's advertised limit.                                                                        *)
(*  sending: a request / response / trailer section of size S is written iff S <= the limit the peer has advertised  *)
(*     by then (unlimited until SETTINGS arrive); every HEADERS frame found on the wire is decoded in TLA+ and must   *)
(*     respect the limit.                                                                                             *)
EXTENDS H3Message, H3Frame, Json, IOUtils

Rec == ndJsonDeserialize(IOEnv.TRACE)
VARIABLES l, scn, role, meta, cfgLimit, peerLimit, out0, rets, closed, ok, why
vars == <<l, scn, role, meta, cfgLimit, peerLimit, out0, rets, closed, ok, why>>
E == Rec[l]

Huge == 1000000000
\* HEADERS sections h3 wrote on the request stream, decoded
WireSections == LET o == Observe(out0, FALSE) hs == SelectSeq(o.items, LAMBDA it : it.c = "HEADERS") IN [i \in 1..Len(hs) |-> DecodeSection(hs[i].payload)]
WireOk(lim) == \A i \in DOMAIN WireSections : WireSections[i].v = "ok" /\ SectionSize(WireSections[i].fields) <= lim
WireSizes == [i \in DOMAIN WireSections |-> SectionSize(WireSections[i].fields)]

Ret(api) == SelectSeq(rets, LAMBDA r : r.api = api)
IsTooBig(r, s, lim) == r.k = "too_big" /\ PI!FitsInt(r.actual) /\ PI!ToInt(r.actual) = s /\ (IF lim = Huge THEN TRUE ELSE PI!FitsInt(r.max) /\ PI!ToInt(r.max) = lim)
Status431 == << <<N_STATUS, <<52, 51, 49>>>> >>

RecvApi == IF meta.kind = "trailers" THEN "recv_trailers" ELSE IF role = "server" THEN "resolve_request" ELSE "recv_response"
CheckRecv ==
    LET L == cfgLimit s == meta.size rs == Ret(RecvApi) IN
    /\ closed = -1
    /\ Len(rs) = 1
    /\ IF s <= L THEN rs[1].k \in {"request", "response", "trailers"}
       \* decoding may stop as soon as the running size exceeds the limit: the reported size lies in (L, S]
       ELSE /\ (rs[1].k = "too_big" /\ PI!FitsInt(rs[1].actual) /\ PI!ToInt(rs[1].actual) > L /\ PI!ToInt(rs[1].actual) <= s) \/ (role = "server" /\ meta.kind = "request" /\ peerLimit < 42 /\ rs[1].k = "too_big")
            \* 431 unless it would itself exceed the client's limit
            /\ (role = "server" /\ meta.kind = "request") =>
                  IF peerLimit >= 42 THEN Len(WireSections) = 1 /\ WireSections[1].v = "ok" /\ WireSections[1].fields = Status431
                  ELSE WireSections = <<>>

\* the limit in force for a sending scenario
Lim == IF meta.when = "never" THEN Huge ELSE meta.limit
SendOutcome(api, s) == LET rs == Ret(api) IN
                       /\ Len(rs) = 1
                       /\ IF s <= Lim THEN rs[1].k = "ok" ELSE IsTooBig(rs[1], s, Lim)
CheckSend ==
    /\ closed = -1
    /\ WireOk(Lim)
    /\ CASE meta.kind = "request" -> SendOutcome("send_request", meta.size) /\ WireSizes = (IF meta.size <= Lim THEN <<meta.size>> ELSE <<>>)
         [] meta.kind = "response" ->
                /\ SendOutcome("send_response", meta.size) /\ SendOutcome("send_trailers", meta.tsize)
                /\ WireSizes = (IF meta.size <= Lim THEN <<meta.size>> ELSE <<>>) \o (IF meta.tsize <= Lim THEN <<meta.tsize>> ELSE <<>>)
         [] OTHER ->
                /\ SendOutcome("send_request", meta.size) /\ SendOutcome("send_trailers", meta.tsize)
                /\ WireSizes = <<meta.size>> \o (IF meta.tsize <= Lim THEN <<meta.tsize>> ELSE <<>>)

Check == IF meta.part = "R" THEN CheckRecv ELSE CheckSend

Init == /\ l = 1 /\ scn = "" /\ role = "" /\ meta = <<>> /\ cfgLimit = Huge /\ peerLimit = Huge /\ out0 = <<>> /\ rets = <<>> /\ closed = -1 /\ ok = TRUE /\ why = <<"">>
Reset == /\ E.ev = "reset"
         /\ scn' = E.scn /\ role' = E.role /\ meta' = E.meta /\ cfgLimit' = (IF "max_field" \in DOMAIN E.cfg THEN E.cfg.max_field ELSE Huge)
         /\ peerLimit' = Huge /\ out0' = <<>> /\ rets' = <<>> /\ closed' = -1 /\ ok' = TRUE /\ why' = <<"">>
Keep == UNCHANGED <<scn, role, meta, cfgLimit>>
\* SETTINGS delivered on the peer's control stream: id 6 carries the limit
EnvStep == /\ E.ev = "step" /\ Keep
           /\ IF E.op = "deliver" /\ E.sid \in {2, 3}
              THEN LET f == NextFrame(SubSeq(E.bytes, 2, Len(E.bytes))) ps == SettingsPairs(f.payload)[2]
                       six == SelectSeq(ps, LAMBDA p : p.id = FromInt(6))
                   IN peerLimit' = (IF six = <<>> THEN peerLimit ELSE IF FitsInt(six[1].val) THEN ToInt(six[1].val) ELSE Huge)
              ELSE UNCHANGED peerLimit
           /\ UNCHANGED <<out0, rets, closed, ok, why>>
Wrote == /\ E.ev = "wrote" /\ E.sid = 0 /\ Keep /\ out0' = out0 \o E.bytes /\ UNCHANGED <<peerLimit, rets, closed, ok, why>>
ARet == /\ E.ev = "ret" /\ E.api \in {"resolve_request", "recv_response", "recv_trailers", "send_request", "send_response", "send_trailers"} /\ Keep
        /\ rets' = Append(rets, IF E.res.k = "too_big" THEN [api |-> E.api, k |-> "too_big", actual |-> E.res.actual, max |-> E.res.max] ELSE [api |-> E.api, k |-> E.res.k])
        /\ UNCHANGED <<peerLimit, out0, closed, ok, why>>
Close == /\ E.ev = "h3_close" /\ Keep /\ closed' = (IF closed = -1 THEN E.code ELSE closed) /\ UNCHANGED <<peerLimit, out0, rets, ok, why>>
Bad == /\ E.ev \in {"panic", "late", "livelock", "harness_panic"} /\ Keep
       /\ ok' = FALSE /\ why' = (IF ok THEN <<"event", E.ev>> ELSE why) /\ UNCHANGED <<peerLimit, out0, rets, closed>>
Quiesce == /\ E.ev = "quiesce" /\ Keep
           /\ LET good == Check okk == ok /\ good w == IF ok /\ ~good THEN <<"at quiescence", meta.part, meta.kind>> ELSE why
              IN ok' = okk /\ why' = w /\ (IF okk THEN TRUE ELSE PrintT(<<"REJECT", scn, ToJson(w)>>))
           /\ UNCHANGED <<peerLimit, out0, rets, closed>>
Other == /\ ~(E.ev \in {"reset", "step", "h3_close", "panic", "late", "livelock", "harness_panic", "quiesce"})
         /\ ~(E.ev = "wrote" /\ E.sid = 0)
         /\ ~(E.ev = "ret" /\ E.api \in {"resolve_request", "recv_response", "recv_trailers", "send_request", "send_response", "send_trailers"})
         /\ UNCHANGED <<scn, role, meta, cfgLimit, peerLimit, out0, rets, closed, ok, why>>
Next == l <= Len(Rec) /\ l' = l + 1 /\ (Reset \/ EnvStep \/ Wrote \/ ARet \/ Close \/ Bad \/ Quiesce \/ Other)
Spec == Init /\ [][Next]_vars
TraceAccepted == TLCGet("stats").diameter - 1 = Len(Rec)
=============================================================================
