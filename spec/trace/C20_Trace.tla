----------------------------- MODULE C20_Trace -----------------------------
(* Trace specification for C20 (binding B): the real stateful QPACK encoder and decoder, driven through a workload and      *)
(* a delivery schedule by the harness, which records every byte string they exchange.  The reference model QpackDyn        *)
(* replays the encoder-stream bytes into two reference tables (everything emitted / what the decoder has consumed) and     *)
(* judges every event:                                                                                                      *)
(*  encoded        the new instructions are well formed, every insertion fits the capacity (so the table never exceeds      *)
(*                 it), no entry referenced by an unacknowledged section (earlier ones or this one) is evicted, and the     *)
(*                 emitted section decodes - against everything emitted - to exactly the input field list;                  *)
(*  enc_delivered  the decoder consumed whole instructions, in order;                                                       *)
(*  decoded        the real decoder reports "blocked" iff the section's Required Insert Count exceeds what it has            *)
(*                 consumed, and otherwise returns exactly the original field list;                                          *)
(*  ack / cancel   the section(s) stop being outstanding.                                                                    *)
EXTENDS QpackDyn, Json, IOUtils

Rec == ndJsonDeserialize(IOEnv.TRACE)
VARIABLES l, scn, encT, decT, pending, outst, ok, why
vars == <<l, scn, encT, decT, pending, outst, ok, why>>
E == Rec[l]

\* outst: sequence of [stream, fields, block, refs]
Refs == UNION { outst[i].refs : i \in DOMAIN outst }
FirstOf(stream) == LET idx == { i \in DOMAIN outst : outst[i].stream = stream } IN IF idx = {} THEN 0 ELSE CHOOSE i \in idx : \A j \in idx : i <= j
RemoveAt(s, i) == SubSeq(s, 1, i - 1) \o SubSeq(s, i + 1, Len(s))

Fail(tag) == ok' = FALSE /\ why' = (IF ok THEN tag ELSE why)
Keep == UNCHANGED <<ok, why>>

Init == l = 1 /\ scn = "" /\ encT = NewTable(0) /\ decT = NewTable(0) /\ pending = <<>> /\ outst = <<>> /\ ok = TRUE /\ why = <<"">>
Reset == /\ E.ev = "reset" /\ scn' = E.scn /\ encT' = NewTable(E.capacity) /\ decT' = NewTable(E.capacity) /\ pending' = <<>> /\ outst' = <<>>
         /\ ok' = TRUE /\ why' = <<"">>

Encoded ==
    /\ E.ev = "encoded"
    /\ LET a == ApplyAll(encT, E.enc) IN
       IF ~a.ok THEN /\ Fail(<<"malformed encoder instruction", a.why, l>>) /\ UNCHANGED <<scn, encT, decT, pending, outst>>
       ELSE LET t2 == a.t
                d == DecodeDyn(t2, E.block)
                evicted == encT.dropped..(t2.dropped - 1)
            IN /\ encT' = t2 /\ pending' = pending \o E.enc /\ UNCHANGED <<scn, decT>>
               /\ IF d.v # "ok" THEN Fail(<<"emitted section is not decodable against everything emitted", l>>) /\ UNCHANGED outst
                  ELSE /\ outst' = Append(outst, [stream |-> E.stream, fields |-> E.fields, block |-> E.block, refs |-> d.refs, ric |-> d.ric])
                       /\ IF d.fields # E.fields THEN Fail(<<"emitted section decodes to a different field list", l>>)
                          ELSE IF evicted \cap (Refs \cup d.refs) # {} THEN Fail(<<"entry referenced by an unacknowledged section evicted", l, evicted \cap (Refs \cup d.refs), [i \in DOMAIN outst |-> <<outst[i].stream, outst[i].refs>>], d.refs>>)
                          ELSE IF t2.size > t2.cap THEN Fail(<<"table exceeds its capacity", l>>)
                          ELSE Keep

EncDelivered ==
    /\ E.ev = "enc_delivered"
    /\ LET n == Len(E.bytes) a == ApplyAll(decT, E.bytes) IN
       IF n > Len(pending) \/ SubSeq(pending, 1, n) # E.bytes THEN Fail(<<"decoder consumed bytes that were not the next encoder-stream bytes", l>>) /\ UNCHANGED <<scn, encT, decT, pending, outst>>
       ELSE IF ~a.ok THEN Fail(<<"decoder consumed a partial or invalid instruction", a.why, l>>) /\ UNCHANGED <<scn, encT, decT, pending, outst>>
       ELSE decT' = a.t /\ pending' = SubSeq(pending, n + 1, Len(pending)) /\ UNCHANGED <<scn, encT, outst>> /\ Keep

\* The section's true Required Insert Count is known from the encoder side (computed when it was emitted, against everything
\* emitted).  The decoder must report "blocked" exactly while it has consumed fewer insertions than that, and the original
\* field list afterwards.  `lag`: how many insertions the decoder is behind the section's needs.
Decoded ==
    /\ E.ev = "decoded" /\ UNCHANGED <<scn, encT, decT, pending, outst>>
    /\ LET i == FirstOf(E.stream) IN
       IF i = 0 THEN Keep
       ELSE LET o == outst[i] lag == o.ric - Inserted(decT) IN
            IF lag > 0 THEN
                IF E.res.k = "blocked" THEN Keep
                ELSE Fail(<<"section not reported as blocked although instructions it depends on are missing", E.res.k, "lag", lag, "max_entries", decT.cap \div 32, l>>)
            ELSE IF E.res.k = "fields" /\ E.res.fields = o.fields THEN Keep
                 ELSE Fail(<<"decoder result differs from the original field list", E.res.k, l>>)

AckSent == /\ E.ev = "ack_sent" /\ LET i == FirstOf(E.stream) IN outst' = (IF i = 0 THEN outst ELSE RemoveAt(outst, i))
           /\ UNCHANGED <<scn, encT, decT, pending>> /\ Keep
CancelSent == /\ E.ev = "cancel_sent" /\ outst' = SelectSeq(outst, LAMBDA o : o.stream # E.stream)
              /\ UNCHANGED <<scn, encT, decT, pending>> /\ Keep
Bad == /\ E.ev \in {"panic", "enc_recv_error", "dec_recv_error", "encode_error"}
       /\ Fail(<<"event", E.ev, l>>) /\ UNCHANGED <<scn, encT, decT, pending, outst>>
Quiesce == /\ E.ev = "quiesce" /\ UNCHANGED <<scn, encT, decT, pending, outst>> /\ Keep
           /\ IF ok THEN TRUE ELSE PrintT(<<"REJECT", scn, ToJson(why)>>)
Other == /\ ~(E.ev \in {"reset", "encoded", "enc_delivered", "decoded", "ack_sent", "cancel_sent", "panic", "enc_recv_error", "dec_recv_error", "encode_error", "quiesce"})
         /\ UNCHANGED <<scn, encT, decT, pending, outst>> /\ Keep
Next == l <= Len(Rec) /\ l' = l + 1 /\ (Reset \/ Encoded \/ EncDelivered \/ Decoded \/ AckSent \/ CancelSent \/ Bad \/ Quiesce \/ Other)
Spec == Init /\ [][Next]_vars
TraceAccepted == TLCGet("stats").diameter - 1 = Len(Rec)
=============================================================================
