----------------------------- MODULE C16_Trace -----------------------------
(* Binding B for C16: records (fn, in, out) written by the harness while it     *)
(* drives the real VarInt / StreamId code with random inputs are judged, one    *)
(* per step, by the RFC 9000 definitions.  A record the definitions do not      *)
(* explain leaves the trace unconsumed (TraceAccepted fails).                  *)
EXTENDS StreamIdSpec, Json, IOUtils, TLC

Rec == ndJsonDeserialize(IOEnv.TRACE)
VARIABLE l

B8Of(x) == [i \in 1..8 |-> x[i]]   \* JSON arrays arrive as 1-based tuples already

Explains(r) ==
    CASE r.fn = "vdec" ->
            LET d == Decode(r.in)
            IN IF d.ok THEN r.out = [ok |-> TRUE, len |-> d.len, value |-> d.value, rest |-> d.rest]
                       ELSE r.out = [ok |-> FALSE]
      [] r.fn = "venc" ->
            IF Representable(r.in)
            THEN r.out = [ok |-> TRUE, bytes |-> Encode(r.in), size |-> MinLen(r.in), tf |-> TRUE, push |-> TRUE, sess |-> TRUE]
            ELSE r.out = [ok |-> FALSE, tf |-> FALSE, push |-> FALSE, sess |-> FALSE]
      [] r.fn = "sid" ->
            IF Valid(r.in)
            THEN r.out = [ok |-> TRUE, initiator |-> Initiator(r.in), dir |-> Direction(r.in), index |-> Index(r.in),
                          is_request |-> IsRequest(r.in), is_push |-> IsPush(r.in), inner |-> r.in]
            ELSE r.out = [ok |-> FALSE]
      [] r.fn = "sidadd" -> r.out = Advance(r.in, r.n)
      [] OTHER -> FALSE

Init == l = 1
\* a record the definitions do not explain is reported and skipped, so one rejection never hides the others
Next == l <= Len(Rec) /\ l' = l + 1 /\ (IF Explains(Rec[l]) THEN TRUE ELSE PrintT(<<"REJECT", l>>))
Spec == Init /\ [][Next]_l
TraceAccepted == TLCGet("stats").diameter - 1 = Len(Rec)   \* every record was examined
=============================================================================
