----------------------------- MODULE C04_Trace -----------------------------
(* Trace specification for C04 (binding B): every environment step recorded by the harness is applied to the      *)
(* PeerStreams state machine; at every quiescent point the real endpoint must show exactly the outcome the       *)
(* state machine has reached: no close and a parked driver, or the first error's code on the transport and in    *)
(* every driver result; GOAWAY acted upon (server: accept drains to None; client: new requests refused);         *)
(* unknown streams stopped.                                                                                      *)
EXTENDS PeerStreams, Json, IOUtils, TLC

Rec == ndJsonDeserialize(IOEnv.TRACE)
VARIABLES l, scn, role, st, closed, drv, probe, stops, lag, ok, why
vars == <<l, scn, role, st, closed, drv, probe, stops, lag, ok, why>>
E == Rec[l]

IsUni(sid) == (sid \div 2) % 2 = 1

ProbeOk ==
    IF probe = <<>> THEN TRUE
    ELSE LET p == probe[1] IN
         IF st.err # NoErr THEN p.k \in {"remote_closing", "conn_err"} /\ (p.k = "conn_err" => (p.origin = "local" /\ p.code = closed))
         ELSE IF st.closing THEN p.k = "remote_closing"
         ELSE p.k = "ok"

Check ==
    IF st.err = AnyErr THEN TRUE
    ELSE IF st.err # NoErr THEN
        /\ closed \in st.err
        /\ drv # <<>>
        /\ \A i \in DOMAIN drv : drv[i].k = "conn_err" /\ drv[i].origin = "local" /\ drv[i].code = closed
        /\ ProbeOk
    ELSE
        /\ closed = -1
        /\ \A i \in DOMAIN drv : drv[i].k = "none" /\ st.closing /\ role = "server"
        /\ (role = "server" /\ st.closing) => drv # <<>>       \* peer GOAWAY and nothing in flight: accept ends
        /\ ProbeOk

Judge(tag) == IF ok /\ ~Check THEN <<FALSE, tag>> ELSE <<ok, why>>

Init == l = 1 /\ scn = "" /\ role = "server" /\ st = InitState /\ closed = -1 /\ drv = <<>> /\ probe = <<>> /\ stops = {} /\ lag = FALSE /\ ok = TRUE /\ why = ""

Reset == /\ E.ev = "reset"
         /\ scn' = E.scn /\ role' = E.role /\ st' = InitState /\ closed' = -1 /\ drv' = <<>> /\ probe' = <<>> /\ stops' = {} /\ lag' = FALSE /\ ok' = TRUE /\ why' = ""

\* lag: the previous step was applied without letting the endpoint run - there is no quiescent point to judge before this step
EnvStep == /\ E.ev = "step"
           /\ LET j == IF lag THEN <<ok, why>> ELSE Judge(<<"before step", E.i>>) IN ok' = j[1] /\ why' = j[2]
           /\ lag' = (("no_run" \in DOMAIN E) /\ E.no_run = TRUE)
           \* a server application that was told "no more requests" stops driving the connection: later input is not examined
           /\ st' = CASE \E i \in DOMAIN drv : drv[i].k = "none" -> st
                      [] E.op = "deliver" /\ IsUni(E.sid) -> Deliver(st, E.sid, E.bytes, role)
                      [] E.op = "fin" /\ IsUni(E.sid) -> End(st, E.sid, "fin", role)
                      [] E.op = "reset" /\ IsUni(E.sid) -> End(st, E.sid, "reset", role)
                      [] E.op = "open_uni" -> Open(st, E.sid)
                      [] OTHER -> st
           /\ UNCHANGED <<scn, role, closed, drv, probe, stops>>

DriverRet == /\ E.ev = "ret" /\ E.api \in {"accept", "wait_idle"}
             /\ drv' = Append(drv, IF E.res.k = "conn_err" THEN [k |-> "conn_err", origin |-> E.res.origin, code |-> E.res.code] ELSE [k |-> E.res.k])
             /\ UNCHANGED <<scn, role, st, closed, probe, stops, lag, ok, why>>

ProbeRet == /\ E.ev = "ret" /\ E.api = "send_request"
            /\ probe' = <<IF E.res.k = "conn_err" THEN [k |-> "conn_err", origin |-> E.res.origin, code |-> E.res.code] ELSE [k |-> E.res.k]>>
            /\ UNCHANGED <<scn, role, st, closed, drv, stops, lag, ok, why>>

Close == /\ E.ev = "h3_close"
         /\ closed' = IF closed = -1 THEN E.code ELSE closed
         /\ UNCHANGED <<scn, role, st, drv, probe, stops, lag, ok, why>>

Stop == /\ E.ev = "h3_stop"
        /\ stops' = stops \cup {E.sid}
        /\ UNCHANGED <<scn, role, st, closed, drv, probe, lag, ok, why>>

Bad == /\ E.ev \in {"panic", "late", "livelock", "harness_panic"}
       /\ ok' = FALSE /\ why' = IF ok THEN <<"event", E.ev>> ELSE why
       /\ UNCHANGED <<scn, role, st, closed, drv, probe, stops, lag>>

\* RFC 9114 6.2: a stream of unknown type is either aborted (STOP_SENDING) or its data discarded - never left unread
UnknownStreamsOk == st.err # NoErr \/ \A sid \in st.mustStop : sid \in stops \/ ~(\E i \in DOMAIN E.unread : E.unread[i].sid = sid)
Quiesce == /\ E.ev = "quiesce"
           /\ LET j0 == Judge(<<"at quiescence">>)
                  j == IF j0[1] /\ ~UnknownStreamsOk THEN <<FALSE, <<"bytes of an unknown stream left unread and not stopped">>>> ELSE j0 IN
                 /\ ok' = j[1] /\ why' = j[2]
                 /\ IF j[1] THEN TRUE ELSE PrintT(<<"REJECT", scn, ToJson(j[2])>>)
           /\ UNCHANGED <<scn, role, st, closed, drv, probe, stops, lag>>

Other == /\ ~(E.ev \in {"reset", "step", "h3_close", "h3_stop", "panic", "late", "livelock", "harness_panic", "quiesce"})
         /\ ~(E.ev = "ret" /\ E.api \in {"accept", "wait_idle", "send_request"})
         /\ UNCHANGED <<scn, role, st, closed, drv, probe, stops, lag, ok, why>>

Next == l <= Len(Rec) /\ l' = l + 1 /\ (Reset \/ EnvStep \/ DriverRet \/ ProbeRet \/ Close \/ Stop \/ Bad \/ Quiesce \/ Other)
Spec == Init /\ [][Next]_vars
TraceAccepted == TLCGet("stats").diameter - 1 = Len(Rec)
=============================================================================
