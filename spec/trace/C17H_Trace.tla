----------------------------- MODULE C17H_Trace -----------------------------
(* Trace specification for C17's last clause as seen through h3 (family "H3CLS", harness/src/quinnh.rs mod h3cls):           *)
(* "Quinn's application close ... and timeout conditions surface as the corresponding h3 error classes with the peer's code    *)
(* preserved" - whichever h3 call meets the condition first, and also when that call is the construction of the connection.    *)
(*   idle timeout            -> ConnectionError::Timeout            (origin "timeout", class "timeout")                       *)
(*   application close(c)    -> ConnectionError::Remote(ApplicationClose{c})   (origin "remote", code c)                      *)
(* Every h3 call of the scenario returns; at least one of them reports the condition; none reports anything else.              *)
EXTENDS Integers, Sequences, FiniteSets, Json, IOUtils, TLC

Rec == ndJsonDeserialize(IOEnv.TRACE)
VARIABLES l, scn, when, cond, results, ok, why
vars == <<l, scn, when, cond, results, ok, why>>
E == Rec[l]

RightClass(r) == IF cond.k = "timeout" THEN r.origin = "timeout" /\ "class" \in DOMAIN r /\ r.class = "timeout"
                 ELSE r.origin = "remote" /\ r.code = cond.code
Errs == SelectSeq(results, LAMBDA x : x.res.k = "conn_err")
Check == /\ \A i \in DOMAIN results : results[i].res.k # "pending"
         /\ Errs # <<>>
         /\ \A i \in DOMAIN Errs : RightClass(Errs[i].res)
         /\ results[1].api = "build"
         /\ (when = "build") = (results[1].res.k = "conn_err")

Init == l = 1 /\ scn = "" /\ when = "" /\ cond = [k |-> ""] /\ results = <<>> /\ ok = TRUE /\ why = <<"">>
Reset == E.ev = "reset" /\ scn' = E.scn /\ when' = E.when /\ cond' = E.cond /\ results' = <<>> /\ ok' = TRUE /\ why' = <<"">>
Result == E.ev = "h3_result" /\ results' = Append(results, [api |-> E.api, res |-> E.res]) /\ UNCHANGED <<scn, when, cond, ok, why>>
Bad == E.ev \in {"panic", "pending"} /\ ok' = FALSE /\ why' = (IF ok THEN <<"event", E.ev>> ELSE why) /\ UNCHANGED <<scn, when, cond, results>>
Quiesce == /\ E.ev = "quiesce"
           /\ LET good == results # <<>> /\ Check okk == ok /\ good
                  w == IF ok /\ ~good THEN <<"error class", ToJson(results)>> ELSE why
              IN ok' = okk /\ why' = w /\ (IF okk THEN TRUE ELSE PrintT(<<"REJECT", scn, ToJson(w)>>))
           /\ UNCHANGED <<scn, when, cond, results>>
Other == ~(E.ev \in {"reset", "h3_result", "panic", "pending", "quiesce"}) /\ UNCHANGED <<scn, when, cond, results, ok, why>>
Next == l <= Len(Rec) /\ l' = l + 1 /\ (Reset \/ Result \/ Bad \/ Quiesce \/ Other)
Spec == Init /\ [][Next]_vars
TraceAccepted == TLCGet("stats").diameter - 1 = Len(Rec)
=============================================================================
