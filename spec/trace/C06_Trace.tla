----------------------------- MODULE C06_Trace -----------------------------
(* Trace specification for C06 (binding B).  Deliberately silent about WHICH outcome a call has, strict about            *)
(* termination: there is no action that explains a `panic` (or a lost wake-up or a livelock), and at quiescence a call    *)
(* may still be pending only if the object it waits on has not ended:                                                     *)
(*    rx:<sid>    the peer has neither finished nor reset that stream, and has not closed the connection                  *)
(*    tx:<sid>    the peer has not sent STOP_SENDING for it, has not closed the connection (only with back-pressure)      *)
(*    conn        (accept / wait_idle / build) the peer has not closed the connection                                     *)
(*    open_bidi   the peer has not closed the connection                                                                  *)
(*    script      the application itself waits (pause / hold / idle): unconstrained                                       *)
EXTENDS Integers, Sequences, FiniteSets, Json, IOUtils, TLC

Rec == ndJsonDeserialize(IOEnv.TRACE)
VARIABLES l, scn, rxEnded, txStopped, connClosed, ok, why
vars == <<l, scn, rxEnded, txStopped, connClosed, ok, why>>
E == Rec[l]

Check(pending) ==
    \A i \in DOMAIN pending :
        LET p == pending[i] IN
        IF p.waits_on = "script" THEN TRUE
        ELSE IF p.waits_on \in {"conn", "open_bidi", "tx:control"} THEN ~connClosed
        ELSE IF p.kind = "rx" THEN ~connClosed /\ p.sid \notin rxEnded
        ELSE IF p.kind = "tx" THEN ~connClosed /\ p.sid \notin txStopped
        ELSE TRUE

Init == l = 1 /\ scn = "" /\ rxEnded = {} /\ txStopped = {} /\ connClosed = FALSE /\ ok = TRUE /\ why = <<"">>
Reset == E.ev = "reset" /\ scn' = E.scn /\ rxEnded' = {} /\ txStopped' = {} /\ connClosed' = FALSE /\ ok' = TRUE /\ why' = <<"">>
EnvStep == /\ E.ev = "step"
           /\ rxEnded' = (IF E.op \in {"fin", "reset"} THEN rxEnded \cup {E.sid} ELSE rxEnded)
           /\ txStopped' = (IF E.op = "stop" THEN txStopped \cup {E.sid} ELSE txStopped)
           /\ connClosed' = (connClosed \/ E.op = "close")
           /\ UNCHANGED <<scn, ok, why>>
Bad == /\ E.ev \in {"panic", "late", "livelock", "harness_panic"}
       /\ ok' = FALSE /\ why' = (IF ok THEN (IF E.ev = "panic" THEN <<"panic", E.msg>> ELSE <<"event", E.ev>>) ELSE why) /\ UNCHANGED <<scn, rxEnded, txStopped, connClosed>>
Quiesce == /\ E.ev = "quiesce"
           /\ LET good == Check(E.pending) okk == ok /\ good w == IF ok /\ ~good THEN <<"call pending forever", ToJson(E.pending)>> ELSE why
              IN ok' = okk /\ why' = w /\ (IF okk THEN TRUE ELSE PrintT(<<"REJECT", scn, ToJson(w)>>))
           /\ UNCHANGED <<scn, rxEnded, txStopped, connClosed>>
Other == ~(E.ev \in {"reset", "step", "panic", "late", "livelock", "harness_panic", "quiesce"}) /\ UNCHANGED <<scn, rxEnded, txStopped, connClosed, ok, why>>
Next == l <= Len(Rec) /\ l' = l + 1 /\ (Reset \/ EnvStep \/ Bad \/ Quiesce \/ Other)
Spec == Init /\ [][Next]_vars
TraceAccepted == TLCGet("stats").diameter - 1 = Len(Rec)
=============================================================================
