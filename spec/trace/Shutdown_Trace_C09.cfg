SPECIFICATION Spec
CONSTANT Prop = "C09"
POSTCONDITION TraceAccepted
CHECK_DEADLOCK FALSE
