----------------------------- MODULE C18_Trace -----------------------------
(* Binding B for C18.  Records written by the harness:                                              *)
(*   dgcons : {sid, payload, steps: [ {rem, chunk, adv} ... ], final_rem}  one Buf consumption run   *)
(*   dgenc / dgdec with `out` (random inputs)                                                        *)
(* Each record is one step of this trace spec; the consumption run inside a dgcons record is         *)
(* checked by folding the Buf model (Datagram!Remaining / ChunkOk) over its steps.                   *)
EXTENDS Datagram, Json, IOUtils, TLC

Rec == ndJsonDeserialize(IOEnv.TRACE)
VARIABLE l

RECURSIVE ConsOk(_,_,_,_)
ConsOk(enc, pos, steps, i) ==
    IF i > Len(steps) THEN pos = Len(enc)
    ELSE LET s == steps[i]
         IN /\ s.rem = Remaining(enc, pos)
            /\ ChunkOk(enc, pos, s.chunk)
            /\ s.adv <= Remaining(enc, pos)
            /\ ConsOk(enc, pos + s.adv, steps, i + 1)

Explains(r) ==
    CASE r.fn = "dgcons" -> /\ ConsOk(Enc(r.sid, r.payload), 0, r.out.steps, 1)
                            /\ r.out.final_rem = 0 /\ r.out.final_chunk = <<>>
      [] r.fn = "dgenc" -> r.out = [bytes |-> Enc(r.sid, r.payload)]
      [] r.fn = "dgdec" -> LET d == Dec(r.in)
                           IN IF d.ok THEN r.out = [ok |-> TRUE, sid |-> d.sid, payload |-> d.payload]
                                      ELSE r.out = [ok |-> FALSE, code |-> "H3_DATAGRAM_ERROR"]
      [] OTHER -> FALSE

Init == l = 1
\* a record the definitions do not explain is reported and skipped, so one rejection never hides the others
Next == l <= Len(Rec) /\ l' = l + 1 /\ (IF Explains(Rec[l]) THEN TRUE ELSE PrintT(<<"REJECT", l>>))
Spec == Init /\ [][Next]_l
TraceAccepted == TLCGet("stats").diameter - 1 = Len(Rec)   \* every record was examined
=============================================================================
