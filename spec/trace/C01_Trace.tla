----------------------------- MODULE C01_Trace -----------------------------
(* Trace specification for C01 (binding B): end-to-end message fidelity between a real client and a real server.      *)
(* The submitted messages travel in the `reset` event; everything the two applications were told is recorded.          *)
(* For each direction: the head arrives with the same method / scheme / authority / path (status) and the same field     *)
(* values in the same per-name order; the body pieces received are contiguous from offset 0, carry the sender's bytes     *)
(* (position-coded pattern) and add up to exactly what was handed over; then exactly one end-of-body; the trailers        *)
(* are the sender's (or none); nothing follows; no connection error on either side.                                      *)
EXTENDS H3Message, Json, IOUtils

Rec == ndJsonDeserialize(IOEnv.TRACE)
VARIABLES l, scn, meta, srv, cli, closed, sends, ok, why
vars == <<l, scn, meta, srv, cli, closed, sends, ok, why>>
E == Rec[l]

Pat(x) == (x * 31 + (x \div 256) * 17 + 7) % 256
RECURSIVE Sum(_)
Sum(s) == IF s = <<>> THEN 0 ELSE s[1] + Sum(Tail(s))
Lower(b) == IF b \in 65..90 THEN b + 32 ELSE b
LowerName(f) == <<[i \in DOMAIN f[1] |-> Lower(f[1][i])], f[2]>>
Caller(fl) == GroupByName([i \in DOMAIN fl |-> LowerName(fl[i])])

\* rets: the receive-side results of one direction, in order:  head, data*, none, trailers|none
RECURSIVE BodyOk(_,_,_)
BodyOk(rs, i, off) ==     \* returns the index after the data run, or 0 on failure
    IF i > Len(rs) \/ rs[i].k # "data" THEN <<i, off>>
    ELSE IF rs[i].off # off \/ rs[i].len < 1 THEN <<0, 0>>
    ELSE IF ("bytes" \in DOMAIN rs[i]) /\ ~(\A j \in 1..rs[i].len : rs[i].bytes[j] = Pat(off + j - 1)) THEN <<0, 0>>
    ELSE IF ("pat_ok" \in DOMAIN rs[i]) /\ ~rs[i].pat_ok THEN <<0, 0>>
    ELSE BodyOk(rs, i + 1, off + rs[i].len)

DirOk(rs, m, isReq) ==
    /\ Len(rs) >= 3
    /\ IF isReq THEN /\ rs[1].k = "request" /\ rs[1].method = m.method /\ rs[1].authority = m.authority
                     /\ rs[1].scheme = m.scheme /\ rs[1].path = m.path /\ rs[1].protocol = m.protocol
                ELSE rs[1].k = "response" /\ rs[1].status = m.status
    /\ rs[1].fields = Caller(m.fields)
    /\ LET b == BodyOk(rs, 2, 0) IN
       /\ b[1] # 0 /\ b[2] = Sum(m.body)
       /\ b[1] + 1 = Len(rs)                                   \* exactly: end-of-body, then the trailers answer, nothing more
       /\ rs[b[1]].k = "none"
       /\ IF m.has_trailers THEN rs[Len(rs)].k = "trailers" /\ rs[Len(rs)].fields = Caller(m.trailers)
          ELSE rs[Len(rs)].k = "none"

Check == /\ closed = -1
         /\ DirOk(srv, meta.req, TRUE)
         /\ DirOk(cli, meta.resp, FALSE)
         /\ \A i \in DOMAIN sends : sends[i] = "ok"           \* every send call of both applications succeeded

Init == l = 1 /\ scn = "" /\ meta = <<>> /\ srv = <<>> /\ cli = <<>> /\ closed = -1 /\ sends = <<>> /\ ok = TRUE /\ why = <<"">>
Reset == E.ev = "reset" /\ scn' = E.scn /\ meta' = E.meta /\ srv' = <<>> /\ cli' = <<>> /\ closed' = -1 /\ sends' = <<>> /\ ok' = TRUE /\ why' = <<"">>
RecvApis == {"resolve_request", "recv_response", "recv_data", "recv_trailers"}
SendApis == {"send_request", "send_response", "send_data", "send_trailers", "finish"}
IsSrvTask(t) == t \in {"h0", "h0.r", "h0.s"}
RRet == /\ E.ev = "ret" /\ E.api \in RecvApis
        /\ IF IsSrvTask(E.task) THEN srv' = Append(srv, E.res) /\ UNCHANGED cli ELSE cli' = Append(cli, E.res) /\ UNCHANGED srv
        /\ UNCHANGED <<scn, meta, closed, sends, ok, why>>
SRet == /\ E.ev = "ret" /\ E.api \in SendApis /\ sends' = Append(sends, E.res.k) /\ UNCHANGED <<scn, meta, srv, cli, closed, ok, why>>
Close == E.ev = "h3_close" /\ closed' = (IF closed = -1 THEN E.code ELSE closed) /\ UNCHANGED <<scn, meta, srv, cli, sends, ok, why>>
Bad == /\ E.ev \in {"panic", "late", "livelock", "harness_panic"}
       /\ ok' = FALSE /\ why' = (IF ok THEN <<"event", E.ev>> ELSE why) /\ UNCHANGED <<scn, meta, srv, cli, closed, sends>>
Quiesce == /\ E.ev = "quiesce"
           /\ LET good == Check okk == ok /\ good w == IF ok /\ ~good THEN <<"at quiescence">> ELSE why
              IN ok' = okk /\ why' = w /\ (IF okk THEN TRUE ELSE PrintT(<<"REJECT", scn, ToJson(w)>>))
           /\ UNCHANGED <<scn, meta, srv, cli, closed, sends>>
Other == /\ ~(E.ev \in {"reset", "h3_close", "panic", "late", "livelock", "harness_panic", "quiesce"})
         /\ ~(E.ev = "ret" /\ E.api \in (RecvApis \cup SendApis))
         /\ UNCHANGED <<scn, meta, srv, cli, closed, sends, ok, why>>
Next == l <= Len(Rec) /\ l' = l + 1 /\ (Reset \/ RRet \/ SRet \/ Close \/ Bad \/ Quiesce \/ Other)
Spec == Init /\ [][Next]_vars
TraceAccepted == TLCGet("stats").diameter - 1 = Len(Rec)
=============================================================================
