----------------------------- MODULE C15_Trace -----------------------------
(* Binding B for C15: records of the real string / integer codecs judged by the RFC 7541 definitions.             *)
(*  senc {size, flags, in, out}: the produced literal must decode (by the oracle) to `in`, consume everything,      *)
(*       and carry the caller's flag bits above the H bit - whether it is Huffman-coded or raw is the encoder's     *)
(*       choice.  sdec / idec / ienc with `out`: randomly driven inputs.                                            *)
EXTENDS QpackBlock, Json, IOUtils

Rec == ndJsonDeserialize(IOEnv.TRACE)
VARIABLE l

Agree(v, exp, got) ==   \* verdict semantics
    CASE v = "reject" -> ~got.ok
      [] v = "ok" -> got.ok /\ exp
      [] OTHER -> ~got.ok \/ exp

Explains(r) ==
    CASE r.fn = "senc" ->
            LET d == DecString(r.size - 1, r.out.bytes) pd == PI!Decode(r.size - 1, r.out.bytes)
            IN r.out.ok /\ d.ok /\ d.bytes = r.in /\ d.rest = <<>> /\ pd.flags \div 2 = r.flags
      [] r.fn = "sdec" ->
            LET d == DecString(r.size - 1, r.in) IN
            IF ~d.ok THEN ~r.out.ok
            ELSE Agree(IF d.either THEN "either" ELSE "ok", r.out.ok /\ r.out.bytes = d.bytes /\ r.out.consumed = Len(r.in) - Len(d.rest), r.out)
      [] r.fn = "idec" ->
            LET d == PI!Decode(r.size, r.in) vd == PI!Verdict(d) IN
            IF vd = "reject" THEN ~r.out.ok
            ELSE Agree(IF vd = "either" THEN "either" ELSE "ok", r.out.ok /\ r.out.value = d.value /\ r.out.flags = d.flags /\ r.out.consumed = d.len, r.out)
      [] r.fn = "ienc" -> r.out.ok /\ r.out.bytes = PI!Encode(r.size, r.flags, r.in)
      [] OTHER -> FALSE

Init == l = 1
Next == l <= Len(Rec) /\ l' = l + 1 /\ (IF Explains(Rec[l]) THEN TRUE ELSE PrintT(<<"REJECT", l>>))
Spec == Init /\ [][Next]_l
TraceAccepted == TLCGet("stats").diameter - 1 = Len(Rec)
=============================================================================
