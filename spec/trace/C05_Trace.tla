----------------------------- MODULE C05_Trace -----------------------------
(* Trace specification for C05 (binding B): one thread-stepped execution of the real driver and request tasks.            *)
(* Events: the scheduled `yield`s (thread, pre-emption point), every result, the state of the driver when nothing can     *)
(* run any more (`final`), the later calls on every handle, the close calls.                                              *)
(* Judged here, from what the real run showed:                                                                            *)
(*   SingleOutcome  every connection error reported by the driver (on this and every later poll) and by every request     *)
(*                  handle (now and on two later calls) is the same error; when it is a locally detected one the           *)
(*                  transport was closed exactly with its code, when it is remote h3 did not close;                        *)
(*   NoLostWakeup   if any task raised or saw a connection error, the driver has reported it by the time nothing is        *)
(*                  runnable: it is not left parked without having been woken.                                              *)
(* The yields of the driver's first poll give the shape of the real code (Rounds, Order) which tools/props/C05.py uses     *)
(* to model-check spec/sys/ConnError.tla for exactly that shape.                                                           *)
EXTENDS Integers, Sequences, FiniteSets, Json, IOUtils, TLC

Rec == ndJsonDeserialize(IOEnv.TRACE)
VARIABLES l, scn, errs, closes, fin, pendingLater, ok, why
vars == <<l, scn, errs, closes, fin, pendingLater, ok, why>>
E == Rec[l]

ErrOf(r) == <<r.origin, r.code>>
Check ==
    /\ \A a, b \in errs : a = b                                            \* one outcome, everywhere, forever
    /\ errs # {} =>
         LET e == CHOOSE x \in errs : TRUE IN
         \* a locally detected error closes the transport with exactly its code; an internal error of the QUIC layer may make h3
         \* close with H3_INTERNAL_ERROR; a remote close or a timeout is not answered with a close
         /\ CASE e[1] = "local" -> closes # <<>> /\ closes[1] = e[2]
              [] e[1] = "transport_internal" -> closes = <<>> \/ closes[1] = 258
              [] OTHER -> closes = <<>>
         /\ ~fin.driver_parked                                            \* the driver has been reached
         /\ ~pendingLater                                                 \* and reports it on every later call
    /\ errs = {} => closes = <<>>

Init == l = 1 /\ scn = "" /\ errs = {} /\ closes = <<>> /\ fin = [driver_parked |-> FALSE, woken |-> FALSE] /\ pendingLater = FALSE /\ ok = TRUE /\ why = <<"">>
Reset == E.ev = "reset" /\ scn' = E.scn /\ errs' = {} /\ closes' = <<>> /\ fin' = [driver_parked |-> FALSE, woken |-> FALSE] /\ pendingLater' = FALSE /\ ok' = TRUE /\ why' = <<"">>
Result == /\ E.ev \in {"result", "driver_poll", "later"}
          /\ errs' = (IF E.res.k = "conn_err" THEN errs \cup {ErrOf(E.res)} ELSE errs)
          \* a later call that does not report the error although one exists
          \* (the DRIVER reports it on every later call; a request handle never reports a DIFFERENT connection error - a later
          \*  call on a handle whose stream had already reached its end may still say so, that is no connection error at all)
          /\ pendingLater' = (pendingLater \/ (E.ev = "later" /\ E.who = "driver" /\ E.res.k # "conn_err"))
          /\ UNCHANGED <<scn, closes, fin, ok, why>>
Final == E.ev = "final" /\ fin' = [driver_parked |-> E.driver_parked, woken |-> E.woken] /\ UNCHANGED <<scn, errs, closes, pendingLater, ok, why>>
Close == E.ev = "h3_close" /\ closes' = Append(closes, E.code) /\ UNCHANGED <<scn, errs, fin, pendingLater, ok, why>>
Bad == E.ev \in {"panic", "harness_panic"} /\ ok' = FALSE /\ why' = (IF ok THEN <<"event", E.ev>> ELSE why) /\ UNCHANGED <<scn, errs, closes, fin, pendingLater>>
Quiesce == /\ E.ev = "quiesce"
           /\ LET good == Check okk == ok /\ good
                  w == IF ok /\ ~good THEN (IF fin.driver_parked /\ errs # {} THEN <<"lost wake-up: driver parked with the error stored">>
                                            ELSE IF \E a, b \in errs : a # b THEN <<"different connection errors reported", ToJson(errs)>>
                                            ELSE <<"close / later-call outcome", ToJson(closes)>>) ELSE why
              IN ok' = okk /\ why' = w /\ (IF okk THEN TRUE ELSE PrintT(<<"REJECT", scn, ToJson(w)>>))
           /\ UNCHANGED <<scn, errs, closes, fin, pendingLater>>
Other == E.ev = "yield" /\ UNCHANGED <<scn, errs, closes, fin, pendingLater, ok, why>>
Next == l <= Len(Rec) /\ l' = l + 1 /\ (Reset \/ Result \/ Final \/ Close \/ Bad \/ Quiesce \/ Other)
Spec == Init /\ [][Next]_vars
TraceAccepted == TLCGet("stats").diameter - 1 = Len(Rec)
=============================================================================
