----------------------------- MODULE C17_Trace -----------------------------
(* Trace specification for C17 (binding B): recorded runs of the real h3-quinn adapter ("a_*" events, driven through  *)
(* the h3::quic traits) against a raw Quinn peer ("p_*" events) over loopback, judged step by step.                   *)
(*                                                                                                                    *)
(* Per stream the spec keeps the send half of QuinnAdapterModel (slot, accepted bytes, bytes the peer has read) and    *)
(* the receive half (bytes the peer wrote, bytes the adapter delivered), plus the faults the peer injected.  What       *)
(* Quinn does inside (how it splits writes, when credit or a STOP_SENDING arrives) is not logged: the spec accepts      *)
(* every outcome the design model allows and nothing else.                                                             *)
(*   a_send   ok       only with an empty slot; the unit's wire image (type, varint length, payload) is appended        *)
(*            refused  only while an accepted unit is unfinished - never after a write that was reported failed         *)
(*   a_ready  ready    empties the slot; impossible unless the peer's credit (read + window) covers everything accepted  *)
(*            pending  only with a unit in the slot                                                                     *)
(*            error    must be the class the injected fault calls for, code preserved; gives the unit up                  *)
(*   p_read   bytes    must be exactly the next bytes of what was accepted (FIFO, exactly once)                          *)
(*            fin      only after a_finish and only when everything accepted has been read (complete)                    *)
(*   a_data   chunk    exactly the next bytes the peer wrote;  none only at the peer's FIN with everything delivered     *)
(*            error    RESET_STREAM(c) -> StreamTerminated(c); CONNECTION_CLOSE(app, c) -> ApplicationClose(c); idle -> Timeout *)
(*   a_id     always the identifier fixed by opener, direction and ordinal; a panic is never acceptable                  *)
EXTENDS QuinnAdapter, Datagram, Json, IOUtils, TLC

Rec == ndJsonDeserialize(IOEnv.TRACE)
VARIABLES l, scn, cfg, st, nopen, closed, aclosed, dgs, dgp, ok, why
vars == <<l, scn, cfg, st, nopen, closed, aclosed, dgs, dgp, ok, why>>
E == Rec[l]
EmptyFn == [x \in {} |-> x]

NewStream(opener, kind, ord) ==
    [opener |-> opener, kind |-> kind, ord |-> ord,
     slot |-> "none", acc |-> <<>>, pread |-> 0, afin |-> FALSE, pfin |-> FALSE, areset |-> NoCode, pstop |-> NoCode, werr |-> FALSE,
     pw |-> <<>>, aread |-> 0, pfinned |-> FALSE, preset |-> NoCode, rstate |-> "open", astop |-> NoCode]

Key(opener, kind) == opener \o "_" \o kind
Known == E.s \in DOMAIN st
S == st[E.s]
W == cfg.win.stream

\* first failing condition of a list of <<condition, message>> pairs ("" if all hold)
FirstFail(cs) == LET bad == SelectSeq(cs, LAMBDA c : ~c[1]) IN IF bad = <<>> THEN "" ELSE bad[1][2]
\* judge the current event and move on
Judge(cs) == LET f == FirstFail(cs) IN
             /\ ok' = (ok /\ f = "")
             /\ why' = (IF ok /\ f # "" THEN <<f, E.ev, l>> ELSE why)
Set(rec) == st' = [st EXCEPT ![E.s] = rec]

\* the error a write-side call may report, given the faults injected so far
WriteErrOk(res) == \/ S.pstop # NoCode /\ IsTerminated(res, S.pstop)
                   \/ closed # NoCode /\ IsAppClose(res, closed)
                   \/ cfg.idle_ms > 0 /\ IsTimeout(res)
                   \* Quinn reports a stop once; a later attempt on the same stream finds it closed (stream-level, not connection-level)
                   \/ S.werr /\ S.pstop # NoCode /\ res.k = "unknown"
ReadErrOk(res) == \/ S.preset # NoCode /\ IsTerminated(res, S.preset)
                  \/ closed # NoCode /\ IsAppClose(res, closed)
                  \/ cfg.idle_ms > 0 /\ IsTimeout(res)
ConnErrOk(res) == \/ closed # NoCode /\ IsAppClose(res, closed)
                  \/ cfg.idle_ms > 0 /\ IsTimeout(res)

Init == /\ l = 1 /\ scn = "" /\ cfg = [a_role |-> "client", win |-> [stream |-> 0, conn |-> 0, send |-> 0], idle_ms |-> 0]
        /\ st = EmptyFn /\ nopen = [a_bidi |-> 0, a_uni |-> 0, p_bidi |-> 0, p_uni |-> 0]
        /\ closed = NoCode /\ aclosed = NoCode /\ dgs = <<>> /\ dgp = <<>> /\ ok = TRUE /\ why = <<"">>

Reset == /\ E.ev = "reset"
         /\ scn' = E.scn /\ cfg' = [a_role |-> E.a_role, win |-> E.win, idle_ms |-> E.idle_ms]
         /\ st' = EmptyFn /\ nopen' = [a_bidi |-> 0, a_uni |-> 0, p_bidi |-> 0, p_uni |-> 0]
         /\ closed' = NoCode /\ aclosed' = NoCode /\ dgs' = <<>> /\ dgp' = <<>> /\ ok' = TRUE /\ why' = <<"">>

Open(opener) ==
    LET key == Key(opener, E.kind) ord == nopen[key] IN
    /\ st' = (E.s :> NewStream(opener, E.kind, ord)) @@ st
    /\ nopen' = [nopen EXCEPT ![key] = @ + 1]
    /\ UNCHANGED <<scn, cfg, closed, aclosed, dgs, dgp>>

\* the adapter opened a stream (poll_open_bidi / poll_open_send), or failed to
AOpened == /\ E.ev = "a_opened"
           /\ IF E.res.k = "ok" THEN Open("a") /\ Judge(<<>>)
              ELSE Judge(<< <<ConnErrOk(E.res), "opening a stream failed with an error no injected fault explains">> >>)
                   /\ UNCHANGED <<scn, cfg, st, nopen, closed, aclosed, dgs, dgp>>
\* the raw peer opened a stream; the adapter will accept it later
POpened == /\ E.ev = "p_opened" /\ Open("p")
           /\ Judge(<< <<E.id = ExpectedId(cfg.a_role, "p", E.kind, nopen[Key("p", E.kind)]), "spec/harness disagreement on a peer stream id">> >>)
AAccepted == /\ E.ev = "a_accepted"
             /\ Judge(<< <<E.res.k \in {"ok", "pending"} \/ ConnErrOk(E.res), "accept failed with an error no injected fault explains">>,
                         <<E.res.k # "ok" \/ Known, "accepted a stream the peer never opened">> >>)
             /\ UNCHANGED <<scn, cfg, st, nopen, closed, aclosed, dgs, dgp>>
PAccepted == /\ E.ev = "p_accepted"
             /\ Judge(<< <<Known, "unknown stream">>,
                         <<~Known \/ E.id = ExpectedId(cfg.a_role, "a", S.kind, S.ord), "the peer sees a different stream id than the model">> >>)
             /\ UNCHANGED <<scn, cfg, st, nopen, closed, aclosed, dgs, dgp>>

(* ---------------------------------------------------------------- send half *)
ASend == /\ E.ev = "a_send" /\ Known
         /\ CASE E.res.k = "ok" ->
                   /\ Judge(<< <<S.slot = "none", "send_data accepted a unit while an earlier one is unfinished (it would be overwritten or interleaved)">> >>)
                   /\ Set([S EXCEPT !.slot = "busy", !.acc = @ \o Wire(E.kind, E.len, E.tag)])
              [] IsRefusal(E.res) ->
                   /\ Judge(<< <<S.slot = "busy", IF S.werr THEN "send_data refused although the earlier write had already been reported as failed"
                                                          ELSE "send_data refused although no write is in progress">> >>)
                   /\ UNCHANGED st
              [] OTHER -> Judge(<< <<FALSE, "send_data returned something that is neither ok nor the refusal">> >>) /\ UNCHANGED st
         /\ UNCHANGED <<scn, cfg, nopen, closed, aclosed, dgs, dgp>>
AReady == /\ E.ev = "a_ready" /\ Known
          /\ CASE E.res.k = "ready" ->
                    /\ Judge(<< <<W = 0 \/ Len(S.acc) <= S.pread + W, "poll_ready reported ready although the peer's flow-control credit cannot cover what was accepted">> >>)
                    /\ Set([S EXCEPT !.slot = "none"])
               [] E.res.k = "pending" ->
                    /\ Judge(<< <<S.slot = "busy", "poll_ready pending with nothing to write">> >>) /\ UNCHANGED st
               [] OTHER ->
                    /\ Judge(<< <<WriteErrOk(E.res), "poll_ready failed with an error that is not the class/code of the injected fault">>,
                                <<S.slot = "busy" \/ closed # NoCode \/ cfg.idle_ms > 0, "poll_ready failed with nothing to write">> >>)
                    \* the unit is given up: the slot is free again
                    /\ Set([S EXCEPT !.slot = "none", !.werr = TRUE])
          /\ UNCHANGED <<scn, cfg, nopen, closed, aclosed, dgs, dgp>>
\* SendStreamUnframed::poll_send: takes a prefix of the caller's buffer
APollSend == /\ E.ev = "a_poll_send" /\ Known
             /\ CASE E.res.k = "ok" ->
                       /\ Judge(<< <<S.slot = "none", "poll_send wrote while a unit is unfinished (interleaving)">>,
                                   <<E.n >= 1 /\ E.n <= E.len /\ E.left = E.len - E.n, "poll_send advanced the buffer by something else than what it reports">>,
                                   <<W = 0 \/ Len(S.acc) + E.n <= S.pread + W, "poll_send took more than the peer's credit">> >>)
                       /\ Set([S EXCEPT !.acc = @ \o Slice(Payload(E.tag, E.len), 0, E.n)])
                  [] E.res.k = "pending" -> Judge(<< <<E.left = E.len, "poll_send consumed bytes but reported pending">> >>) /\ UNCHANGED st
                  [] E.res.k = "panic" -> Judge(<< <<S.slot = "busy", "poll_send panicked with no write in progress">> >>) /\ UNCHANGED st
                  [] OTHER -> Judge(<< <<WriteErrOk(E.res), "poll_send failed with an error that is not the class/code of the injected fault">> >>) /\ UNCHANGED st
             /\ UNCHANGED <<scn, cfg, nopen, closed, aclosed, dgs, dgp>>
AFinish == /\ E.ev = "a_finish" /\ Known
           /\ Judge(<< <<E.res.k = "ready" \/ S.pstop # NoCode \/ S.areset # NoCode \/ S.afin \/ closed # NoCode \/ cfg.idle_ms > 0, "poll_finish failed on a healthy stream">> >>)
           /\ Set([S EXCEPT !.afin = (@ \/ E.res.k = "ready")])
           /\ UNCHANGED <<scn, cfg, nopen, closed, aclosed, dgs, dgp>>
AReset == /\ E.ev = "a_reset" /\ Known
          /\ Judge(<< <<~E.panic, "reset panicked">> >>)
          /\ Set([S EXCEPT !.areset = (IF @ = NoCode /\ ~S.afin THEN E.code ELSE @), !.slot = "none"])
          /\ UNCHANGED <<scn, cfg, nopen, closed, aclosed, dgs, dgp>>
PRead == /\ E.ev = "p_read" /\ Known
         /\ CASE E.res = "bytes" ->
                   /\ Judge(<< <<E.bytes # <<>> /\ E.bytes = Slice(S.acc, S.pread, Len(E.bytes)),
                                 "the peer read bytes that are not the next bytes of the accepted units (lost, duplicated, reordered or foreign bytes)">> >>)
                   /\ Set([S EXCEPT !.pread = @ + Len(E.bytes)])
              [] E.res = "fin" ->
                   /\ Judge(<< <<S.afin, "the peer saw FIN although the adapter never finished the stream">>,
                               <<S.pread = Len(S.acc), "the peer saw FIN before everything accepted had arrived (incomplete)">> >>)
                   /\ Set([S EXCEPT !.pfin = TRUE])
              [] E.res = "reset" ->
                   /\ Judge(<< <<S.areset # NoCode /\ E.code = S.areset, "the peer saw a reset the adapter never sent, or with another code">> >>) /\ UNCHANGED st
              [] OTHER -> Judge(<< <<closed # NoCode \/ aclosed # NoCode \/ cfg.idle_ms > 0, "the peer's read failed on a healthy connection">> >>) /\ UNCHANGED st
         /\ UNCHANGED <<scn, cfg, nopen, closed, aclosed, dgs, dgp>>
PStop == /\ E.ev = "p_stop" /\ Known /\ Judge(<<>>)
         /\ Set([S EXCEPT !.pstop = (IF @ = NoCode /\ E.ok THEN E.code ELSE @)])
         /\ UNCHANGED <<scn, cfg, nopen, closed, aclosed, dgs, dgp>>
UntilErrDone == /\ E.ev = "a_write_until_err_done" /\ Known
                /\ Judge(<< <<E.surfaced, "the peer's STOP_SENDING / close never surfaced on the write side">> >>)
                /\ UNCHANGED <<scn, cfg, st, nopen, closed, aclosed, dgs, dgp>>

(* ---------------------------------------------------------------- receive half *)
PWrite == /\ E.ev = "p_write" /\ Known
          /\ Judge(<< <<E.res = "ok" \/ (E.res = "stopped" /\ S.astop # NoCode /\ E.code = S.astop) \/ closed # NoCode \/ aclosed # NoCode \/ cfg.idle_ms > 0,
                        "the peer's write failed although the adapter did nothing that explains it (or the stop code differs)">> >>)
          /\ Set([S EXCEPT !.pw = (IF E.res = "ok" THEN @ \o Payload(E.tag, E.len) ELSE @)])
          /\ UNCHANGED <<scn, cfg, nopen, closed, aclosed, dgs, dgp>>
PFin == /\ E.ev = "p_fin" /\ Known /\ Judge(<<>>) /\ Set([S EXCEPT !.pfinned = (@ \/ E.ok)])
        /\ UNCHANGED <<scn, cfg, nopen, closed, aclosed, dgs, dgp>>
PReset == /\ E.ev = "p_reset" /\ Known /\ Judge(<<>>)
          /\ Set([S EXCEPT !.preset = (IF @ = NoCode /\ E.ok /\ ~S.pfinned THEN E.code ELSE @)])
          /\ UNCHANGED <<scn, cfg, nopen, closed, aclosed, dgs, dgp>>
AData == /\ E.ev = "a_data" /\ Known
         /\ CASE E.res.k = "chunk" ->
                   /\ Judge(<< <<S.rstate = "open", "data delivered after the stream had ended">>,
                               <<E.bytes # <<>> /\ E.bytes = Slice(S.pw, S.aread, Len(E.bytes)), "the adapter delivered bytes that are not the next bytes the peer wrote">> >>)
                   /\ Set([S EXCEPT !.aread = @ + Len(E.bytes)])
              [] E.res.k = "none" ->
                   \* Quinn reports a reset once; afterwards the stream reads as ended
                   /\ Judge(<< <<(S.pfinned /\ S.aread = Len(S.pw)) \/ S.rstate = "reset", "end of stream reported although the peer has not finished, or before everything was delivered">> >>)
                   /\ Set([S EXCEPT !.rstate = (IF @ = "open" THEN "ended" ELSE @)])
              [] E.res.k = "pending" -> Judge(<<>>) /\ UNCHANGED st
              [] OTHER ->
                   /\ Judge(<< <<ReadErrOk(E.res) \/ (S.astop # NoCode /\ E.res.k = "unknown"), "poll_data failed with an error that is not the class/code of the injected fault">> >>)
                   /\ Set([S EXCEPT !.rstate = (IF E.res.k = "terminated" THEN "reset" ELSE @)])
         /\ UNCHANGED <<scn, cfg, nopen, closed, aclosed, dgs, dgp>>
AStop == /\ E.ev = "a_stop" /\ Known
         /\ Judge(<< <<~E.panic, "stop_sending panicked">> >>)
         /\ Set([S EXCEPT !.astop = (IF @ = NoCode THEN E.code ELSE @)])
         /\ UNCHANGED <<scn, cfg, nopen, closed, aclosed, dgs, dgp>>
PStopped == /\ E.ev = "p_stopped" /\ Known
            /\ Judge(<< <<E.res = "stopped" /\ E.code = S.astop, "the adapter's stop_sending did not reach the peer with its code">> >>)
            /\ UNCHANGED <<scn, cfg, st, nopen, closed, aclosed, dgs, dgp>>

(* ---------------------------------------------------------------- identifiers *)
AId == /\ E.ev = "a_id" /\ Known
       /\ Judge(<< <<E.res # "panic", IF E.which = "recv_id" THEN "recv_id panicked" ELSE "send_id panicked">>,
                   <<E.res = "panic" \/ E.id = FromInt(ExpectedId(cfg.a_role, S.opener, S.kind, S.ord)), "the adapter reported a different stream id than the one the stream was created with">> >>)
       /\ UNCHANGED <<scn, cfg, st, nopen, closed, aclosed, dgs, dgp>>

(* ---------------------------------------------------------------- connection level *)
PClose == /\ E.ev = "p_close" /\ closed' = (IF closed = NoCode THEN E.code ELSE closed) /\ Judge(<<>>)
          /\ UNCHANGED <<scn, cfg, st, nopen, aclosed, dgs, dgp>>
PSawClose == /\ E.ev = "p_saw_close" /\ aclosed' = E.sent
             /\ Judge(<< <<E.k = "app_close" /\ E.code = E.sent, "the peer saw the adapter's close with another class or code">> >>)
             /\ UNCHANGED <<scn, cfg, st, nopen, closed, dgs, dgp>>
\* datagrams: what the peer receives is, byte for byte, what Datagram!Enc says for one the adapter sent - each at most once
ASendDg == /\ E.ev = "a_send_datagram"
           /\ Judge(<< <<E.res = "ok" \/ closed # NoCode \/ cfg.idle_ms > 0, "send_datagram failed on a healthy connection">> >>)
           /\ dgs' = (IF E.res = "ok" THEN Append(dgs, Enc(FromInt(E.sid), Payload(E.tag, E.len))) ELSE dgs)
           /\ UNCHANGED <<scn, cfg, st, nopen, closed, aclosed, dgp>>
PDg == /\ E.ev = "p_datagram"
       /\ LET idx == {i \in DOMAIN dgs : dgs[i] = E.bytes} IN
          /\ Judge(<< <<E.res # "bytes" \/ idx # {}, "the peer received a datagram the adapter never sent (altered bytes, or a duplicate)">>,
                      <<E.res = "bytes" \/ closed # NoCode \/ aclosed # NoCode \/ cfg.idle_ms > 0, "the peer's datagram read failed on a healthy connection">> >>)
          /\ dgs' = (IF E.res = "bytes" /\ idx # {} THEN LET i == CHOOSE i \in idx : TRUE IN SubSeq(dgs, 1, i - 1) \o SubSeq(dgs, i + 1, Len(dgs)) ELSE dgs)
       /\ UNCHANGED <<scn, cfg, st, nopen, closed, aclosed, dgp>>
PSendDg == /\ E.ev = "p_send_datagram" /\ Judge(<<>>)
           /\ dgp' = (IF E.ok THEN Append(dgp, Payload(E.tag, E.len)) ELSE dgp)
           /\ UNCHANGED <<scn, cfg, st, nopen, closed, aclosed, dgs>>
ADg == /\ E.ev = "a_datagram"
       /\ LET idx == {i \in DOMAIN dgp : dgp[i] = E.bytes} IN
          /\ Judge(<< <<E.res.k # "bytes" \/ idx # {}, "the adapter delivered a datagram the peer never sent (altered bytes, or a duplicate)">>,
                      <<E.res.k \in {"bytes", "pending"} \/ ConnErrOk(E.res), "reading a datagram failed with an error no injected fault explains">> >>)
          /\ dgp' = (IF E.res.k = "bytes" /\ idx # {} THEN LET i == CHOOSE i \in idx : TRUE IN SubSeq(dgp, 1, i - 1) \o SubSeq(dgp, i + 1, Len(dgp)) ELSE dgp)
       /\ UNCHANGED <<scn, cfg, st, nopen, closed, aclosed, dgs>>

\* a wait that never ended: bytes, FIN or an error that never arrived (datagrams may legitimately be lost)
Timeout == /\ E.ev = "timeout"
           /\ Judge(<< <<E.op \in {"p_read_datagram", "a_read_datagram"}, "a wait never ended: bytes, end of stream or an error never arrived">> >>)
           /\ UNCHANGED <<scn, cfg, st, nopen, closed, aclosed, dgs, dgp>>
Panic == /\ E.ev = "panic"
         /\ Judge(<< <<FALSE, "the adapter panicked">> >>)
         /\ UNCHANGED <<scn, cfg, st, nopen, closed, aclosed, dgs, dgp>>
Unknown == /\ E.ev \in {"a_send", "a_ready", "a_poll_send", "a_finish", "a_reset", "p_read", "p_stop", "a_write_until_err_done", "p_write", "p_fin",
                        "p_reset", "a_data", "a_stop", "p_stopped", "a_id"} /\ ~Known
           /\ Judge(<< <<FALSE, "event on a stream the model does not know">> >>)
           /\ UNCHANGED <<scn, cfg, st, nopen, closed, aclosed, dgs, dgp>>
Quiesce == /\ E.ev = "quiesce"
           /\ (IF ok THEN TRUE ELSE PrintT(<<"REJECT", scn, ToJson(why)>>))
           /\ UNCHANGED <<scn, cfg, st, nopen, closed, aclosed, dgs, dgp, ok, why>>
Handled == {"reset", "a_opened", "p_opened", "a_accepted", "p_accepted", "a_send", "a_ready", "a_poll_send", "a_finish", "a_reset", "p_read", "p_stop",
            "a_write_until_err_done", "p_write", "p_fin", "p_reset", "a_data", "a_stop", "p_stopped", "a_id", "p_close", "p_saw_close",
            "a_send_datagram", "p_datagram", "p_send_datagram", "a_datagram", "timeout", "panic", "quiesce"}
Skip == ~(E.ev \in Handled) /\ UNCHANGED <<scn, cfg, st, nopen, closed, aclosed, dgs, dgp, ok, why>>

Next == /\ l <= Len(Rec) /\ l' = l + 1
        /\ \/ Reset \/ AOpened \/ POpened \/ AAccepted \/ PAccepted
           \/ ASend \/ AReady \/ APollSend \/ AFinish \/ AReset \/ PRead \/ PStop \/ UntilErrDone
           \/ PWrite \/ PFin \/ PReset \/ AData \/ AStop \/ PStopped \/ AId
           \/ PClose \/ PSawClose \/ ASendDg \/ PDg \/ PSendDg \/ ADg \/ Timeout \/ Panic \/ Unknown \/ Quiesce \/ Skip
Spec == Init /\ [][Next]_vars
TraceAccepted == TLCGet("stats").diameter - 1 = Len(Rec)
=============================================================================
