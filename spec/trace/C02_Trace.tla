----------------------------- MODULE C02_Trace -----------------------------
(* Binding B for C02: the harness drives FrameStream with random grammar-directed wires in random chunkings  *)
(* and records the cumulative observation after every chunk and at the end; each record must be explained by *)
(* H3Frame!Observe.  Only what the property states is compared: the completed frames, the DATA payload       *)
(* bytes (a prefix while the stream is still open, all of them at a clean end) and the terminal/error code. *)
EXTENDS H3Frame, Json, IOUtils, TLC

Rec == ndJsonDeserialize(IOEnv.TRACE)
VARIABLE l

IsPrefixOf(a, b) == Len(a) <= Len(b) /\ a = SubSeq(b, 1, Len(a))

ItemOk(e, g, exact) ==
    IF e.c = "DATA" THEN g.c = "DATA" /\ g.len = e.len /\ (IF exact THEN g.got = e.got ELSE IsPrefixOf(g.got, e.got))
    ELSE g = e

Matches(e, g, exact) ==
    /\ Len(e.items) = Len(g.items)
    /\ \A i \in 1..Len(e.items) : ItemOk(e.items[i], g.items[i], exact)
    /\ CASE e.term = "err" -> g.t.term = "err" /\ g.t.code \in e.codes
         [] e.term = "more" -> g.t.term = "more" \/ (g.t.term = "err" /\ g.t.code \in e.codes)
         [] OTHER -> g.t.term = e.term

RECURSIVE Sum(_,_)
Sum(s, k) == IF k = 0 THEN 0 ELSE s[k] + Sum(s, k - 1)

Explains(r) ==
    /\ r.fn = "frames"
    /\ Len(r.out.inter) = Len(r.cuts)
    /\ \A k \in 1..Len(r.cuts) : Matches(Observe(SubSeq(r.wire, 1, Sum(r.cuts, k)), FALSE), r.out.inter[k], FALSE)
    /\ Matches(Observe(r.wire, r.fin), r.out.final, r.fin)

Init == l = 1
Next == l <= Len(Rec) /\ l' = l + 1 /\ (IF Explains(Rec[l]) THEN TRUE ELSE PrintT(<<"REJECT", l>>))
Spec == Init /\ [][Next]_l
TraceAccepted == TLCGet("stats").diameter - 1 = Len(Rec)
=============================================================================
