--------------------------- MODULE ClientLifeInd ---------------------------
(* Unbounded safety of ClientLife with Apalache: IndInv is inductive (no bound on the number of handles).          *)
(*   apalache-mc check --init=Init    --inv=IndInv --length=0 ClientLifeInd.tla      (initiation)                    *)
(*   apalache-mc check --init=IndInit --inv=IndInv --length=1 ClientLifeInd.tla      (consecution)                   *)
(* IndInv implies ClosedOnlyWithoutHandles and OutcomeIffNone of ClientLife.tla.                                     *)
EXTENDS Integers

VARIABLES
    \* @type: Int;
    handles,
    \* @type: Str;
    outcome,
    \* @type: Bool;
    closed

Init == handles = 1 /\ outcome = "none" /\ closed = FALSE
Clone == handles > 0 /\ handles' = handles + 1 /\ UNCHANGED <<outcome, closed>>
Drop == /\ handles > 0 /\ handles' = handles - 1
        /\ outcome' = (IF handles = 1 THEN "no_error" ELSE outcome)
        /\ UNCHANGED closed
Driver == outcome = "no_error" /\ ~closed /\ closed' = TRUE /\ UNCHANGED <<handles, outcome>>
Stutter == UNCHANGED <<handles, outcome, closed>>
Next == Clone \/ Drop \/ Driver \/ Stutter

IndInv == /\ handles >= 0
          /\ outcome \in {"none", "no_error"}
          /\ (outcome = "no_error") <=> (handles = 0)
          /\ closed => handles = 0
IndInit == handles \in Nat /\ outcome \in {"none", "no_error"} /\ closed \in BOOLEAN /\ IndInv
=============================================================================
