----------------------------- MODULE H3ConnInd -----------------------------
(* Unbounded safety of sys/H3Conn.tla with Apalache: for ANY application error codes (all naturals, not the three of the TLC      *)
(* model) and any GOAWAY identifiers, IndInv is inductive and implies OneError, CloseIsTheError and NoCloseOnRemote; the action   *)
(* properties CellStable and GoawayMonotone hold from every IndInv state.  The GOAWAY sequences are abstracted to their last      *)
(* element; `reported` keeps at most 4 elements in IndInit (the invariant says it has at most one).                               *)
(*   apalache-mc check --init=Init    --inv=IndInv     --length=0 H3ConnInd.tla                                                   *)
(*   apalache-mc check --init=IndInit --inv=IndInv     --length=1 H3ConnInd.tla                                                   *)
(*   apalache-mc check --init=IndInit --inv=Safety     --length=0 H3ConnInd.tla                                                   *)
(*   apalache-mc check --init=IndInit --inv=StepProps  --length=1 H3ConnInd.tla                                                   *)
EXTENDS Integers, FiniteSets, Apalache

VARIABLES
    \* @type: Str;
    origin,
    \* @type: Int;
    code,
    \* @type: Set(<<Str, Int>>);
    reported,
    \* @type: Int;
    closedWith,
    \* @type: Bool;
    hasSent,
    \* @type: Int;
    lastSent,
    \* @type: Bool;
    hasRecv,
    \* @type: Int;
    lastRecv,
    \* @type: Bool;
    peerGone

Init == origin = "none" /\ code = -1 /\ reported = {} /\ closedWith = -1 /\ hasSent = FALSE /\ lastSent = 0 /\ hasRecv = FALSE /\ lastRecv = 0 /\ peerGone = FALSE

Detect == \E c \in Nat : /\ (IF origin = "none" THEN origin' = "local" /\ code' = c ELSE UNCHANGED <<origin, code>>)
                         /\ UNCHANGED <<reported, closedWith, hasSent, lastSent, hasRecv, lastRecv, peerGone>>
PeerClose == \E c \in Nat : /\ ~peerGone /\ peerGone' = TRUE
                            /\ (IF origin = "none" THEN origin' = "remote" /\ code' = c ELSE UNCHANGED <<origin, code>>)
                            /\ UNCHANGED <<reported, closedWith, hasSent, lastSent, hasRecv, lastRecv>>
Handle == /\ origin # "none" /\ closedWith = -1
          /\ closedWith' = (IF origin = "local" THEN code ELSE closedWith)
          /\ UNCHANGED <<origin, code, reported, hasSent, lastSent, hasRecv, lastRecv, peerGone>>
Report == /\ origin # "none" /\ reported' = reported \cup {<<origin, code>>}
          /\ UNCHANGED <<origin, code, closedWith, hasSent, lastSent, hasRecv, lastRecv, peerGone>>
SendGoaway == \E i \in Nat : /\ origin = "none" /\ (~hasSent \/ i <= lastSent)
                             /\ hasSent' = TRUE /\ lastSent' = i
                             /\ UNCHANGED <<origin, code, reported, closedWith, hasRecv, lastRecv, peerGone>>
RecvGoaway == \E i \in Nat : /\ origin = "none" /\ ~peerGone
                             /\ IF ~hasRecv \/ i <= lastRecv
                                THEN hasRecv' = TRUE /\ lastRecv' = i /\ UNCHANGED <<origin, code>>
                                ELSE origin' = "local" /\ code' = 264 /\ UNCHANGED <<hasRecv, lastRecv>>
                             /\ UNCHANGED <<reported, closedWith, hasSent, lastSent, peerGone>>
Stutter == UNCHANGED <<origin, code, reported, closedWith, hasSent, lastSent, hasRecv, lastRecv, peerGone>>
Next == Detect \/ PeerClose \/ Handle \/ Report \/ SendGoaway \/ RecvGoaway \/ Stutter

IndInv == /\ origin \in {"none", "local", "remote"}
          /\ (origin = "none") => (reported = {} /\ closedWith = -1 /\ code = -1)
          /\ (origin # "none") => code >= 0
          /\ \A r \in reported : r = <<origin, code>>
          /\ closedWith # -1 => (origin = "local" /\ closedWith = code)
          /\ origin = "remote" => (closedWith = -1 /\ peerGone)
\* OneError, CloseIsTheError, NoCloseOnRemote of H3Conn.tla
Safety == /\ Cardinality(reported) <= 1
          /\ closedWith # -1 => (origin = "local" /\ closedWith = code)
          /\ origin = "remote" => closedWith = -1
\* CellStable and GoawayMonotone of H3Conn.tla as properties of one step
StepProps == /\ origin # "none" => (origin' = origin /\ code' = code)
             /\ hasSent => (hasSent' /\ lastSent' <= lastSent)
             /\ hasRecv => (hasRecv' /\ lastRecv' <= lastRecv)

IndInit == /\ origin \in {"none", "local", "remote"} /\ code \in Int /\ reported = Gen(4) /\ closedWith \in Int
           /\ hasSent \in BOOLEAN /\ lastSent \in Int /\ hasRecv \in BOOLEAN /\ lastRecv \in Int /\ peerGone \in BOOLEAN
           /\ IndInv
=============================================================================
