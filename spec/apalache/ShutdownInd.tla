---------------------------- MODULE ShutdownInd ----------------------------
(* Unbounded safety of the C08 part of sys/Shutdown.tla with Apalache: IndInv is inductive for ANY stream ids (all           *)
(* integers, not the three ids of the TLC model) and any n in shutdown(n); only the NUMBER of streams alive in one state is     *)
(* bounded by the generators in IndInit (6 per set).  The sequence `sent` of Shutdown.tla is abstracted to its last element      *)
(* (`limit`, valid when `announced`): NonIncreasing becomes the action property LimitNeverGrows.                                *)
(*   apalache-mc check --init=Init    --inv=IndInv          --length=0 ShutdownInd.tla      (initiation)                          *)
(*   apalache-mc check --init=IndInit --inv=IndInv          --length=1 ShutdownInd.tla      (consecution)                         *)
(*   apalache-mc check --init=IndInit --inv=LimitNeverGrows --length=1 ShutdownInd.tla      (action property, from any IndInv state) *)
(* IndInv implies RequestIds and Line of Shutdown.tla (Safety below).                                                             *)
EXTENDS Integers, Apalache

VARIABLES
    \* @type: Set(Int);
    arrivals,
    \* @type: Bool;
    announced,
    \* @type: Int;
    limit,
    \* @type: Int;
    last,
    \* @type: Set(Int);
    shown,
    \* @type: Set(Int);
    rejected,
    \* @type: Bool;
    done

IsReq(id) == id >= 0 /\ id % 4 = 0
Below(id) == ~announced \/ id < limit

Init == arrivals = {} /\ announced = FALSE /\ limit = 0 /\ last = -4 /\ shown = {} /\ rejected = {} /\ done = FALSE

PeerOpen == \E id \in Int : /\ IsReq(id) /\ id \notin arrivals \cup shown \cup rejected
                            /\ arrivals' = arrivals \cup {id}
                            /\ UNCHANGED <<announced, limit, last, shown, rejected, done>>
Announce(id) == IF Below(id) THEN announced' = TRUE /\ limit' = id ELSE UNCHANGED <<announced, limit>>
AppShutdown == \E n \in Nat : /\ ~done /\ Announce(last + 4 * (n + 1))
                              /\ UNCHANGED <<arrivals, last, shown, rejected, done>>
Accept == \E id \in arrivals :
              /\ ~done
              /\ arrivals' = arrivals \ {id}
              /\ IF Below(id)
                 THEN shown' = shown \cup {id} /\ last' = (IF id > last THEN id ELSE last) /\ UNCHANGED rejected
                 ELSE rejected' = rejected \cup {id} /\ UNCHANGED <<shown, last>>
              /\ UNCHANGED <<announced, limit, done>>
AcceptNone == /\ ~done /\ arrivals = {} /\ done' = TRUE /\ Announce(last + 4)
              /\ UNCHANGED <<arrivals, last, shown, rejected>>
Stutter == UNCHANGED <<arrivals, announced, limit, last, shown, rejected, done>>
Next == PeerOpen \/ AppShutdown \/ Accept \/ AcceptNone \/ Stutter

IndInv == /\ last >= -4 /\ last % 4 = 0
          /\ announced => (IsReq(limit) /\ last < limit)
          /\ \A a \in arrivals : IsReq(a)
          /\ \A s \in shown : IsReq(s) /\ s <= last /\ Below(s)
          /\ \A r \in rejected : IsReq(r) /\ announced /\ r >= limit
          /\ shown \cap rejected = {} /\ arrivals \cap (shown \cup rejected) = {}
\* RequestIds and Line of Shutdown.tla, on the abstraction
Safety == /\ announced => IsReq(limit)
          /\ \A s \in shown : Below(s)
          /\ \A r \in rejected : announced /\ r >= limit
          /\ shown \cap rejected = {}
\* NonIncreasing of Shutdown.tla: once announced, the identifier never grows and is never withdrawn
LimitNeverGrows == announced => (announced' /\ limit' <= limit)

IndInit == /\ arrivals = Gen(6) /\ shown = Gen(6) /\ rejected = Gen(6)
           /\ announced \in BOOLEAN /\ done \in BOOLEAN /\ limit \in Int /\ last \in Int
           /\ IndInv
=============================================================================
