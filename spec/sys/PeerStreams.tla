---------------------------- MODULE PeerStreams ----------------------------
(* RFC 9114 section 6.2: unidirectional streams carry a stream type (varint) first.                              *)
(*  6.2.1 control stream (0x00): "Only one control stream per peer is permitted; receipt of a second stream       *)
(*        claiming to be a control stream MUST be treated as a connection error of type                          *)
(*        H3_STREAM_CREATION_ERROR."  "If the first frame of the control stream is any other frame type, this     *)
(*        MUST be treated as a connection error of type H3_MISSING_SETTINGS."  "If either control stream is       *)
(*        closed at any point, this MUST be treated as a connection error of type H3_CLOSED_CRITICAL_STREAM."     *)
(*  6.2 "A receiver MUST tolerate unidirectional streams being closed or reset prior to the reception of the      *)
(*        unidirectional stream header." "The recipient MUST NOT consider unknown stream types to be a           *)
(*        connection error of any kind."  RFC 9204 4.2: a second encoder/decoder stream is                       *)
(*        H3_STREAM_CREATION_ERROR.  7.2.4: a second SETTINGS frame is H3_FRAME_UNEXPECTED; 7.2.1/7.2.2/7.2.5:    *)
(*        DATA, HEADERS, PUSH_PROMISE on the control stream are H3_FRAME_UNEXPECTED; 7.2.7: a client receiving    *)
(*        MAX_PUSH_ID: H3_FRAME_UNEXPECTED.                                                                      *)
(* The endpoint is specified as a deterministic state machine over the peer's transport events in the order      *)
(* they become visible; `err` is the set of acceptable codes of the first connection error ({} = none,           *)
(* {-2} = the property does not constrain the outcome from here on).                                             *)
EXTENDS H3Frame, StreamIdSpec

NoErr == {}
AnyErr == {-2}

\* ---- per-stream typing -------------------------------------------------------------------------------------
\* kind of a uni stream from the bytes seen so far:  [k |-> "untyped"] | [k |-> "control"|"push"|"encoder"|"decoder"|"wt"|"unknown", body]
StreamKind(bs) ==
    LET t == Decode(bs) IN
    IF ~t.ok THEN [k |-> "untyped"]
    ELSE LET n == IF FitsInt(t.value) THEN ToInt(t.value) ELSE -1 IN
         CASE n = 0 -> [k |-> "control", body |-> t.rest]
           [] n = 2 -> [k |-> "encoder", body |-> t.rest]
           [] n = 3 -> [k |-> "decoder", body |-> t.rest]
           [] n = 1 -> IF Decode(t.rest).ok THEN [k |-> "push", body |-> Decode(t.rest).rest] ELSE [k |-> "untyped"]
           [] n = 84 -> IF Decode(t.rest).ok THEN [k |-> "wt", body |-> Decode(t.rest).rest] ELSE [k |-> "untyped"]
           [] OTHER -> [k |-> "unknown", body |-> t.rest]

\* ---- the control stream's frame sequence -------------------------------------------------------------------
\* verdict after the frames seen so far: [err |-> codes, closing |-> BOOLEAN, settings |-> BOOLEAN]
RECURSIVE CtrlWalk(_,_,_,_,_)
\* i: next item; last: last GOAWAY id seen (U64) or <<>>
CtrlWalk(items, i, role, last, closing) ==
    IF i > Len(items) THEN [err |-> NoErr, closing |-> closing, last |-> last]
    ELSE LET it == items[i] IN
    IF i = 1 THEN
        IF it.c = "SETTINGS" THEN CtrlWalk(items, 2, role, last, closing)
        ELSE [err |-> {H3_MISSING_SETTINGS}, closing |-> closing, last |-> last]
    ELSE
    CASE it.c = "SETTINGS" -> [err |-> {H3_FRAME_UNEXPECTED}, closing |-> closing, last |-> last]
      [] it.c \in {"DATA", "HEADERS", "PUSH_PROMISE", "WT"} -> [err |-> {H3_FRAME_UNEXPECTED}, closing |-> closing, last |-> last]
      [] it.c = "MAX_PUSH_ID" -> IF role = "client" THEN [err |-> {H3_FRAME_UNEXPECTED}, closing |-> closing, last |-> last]
                                 ELSE CtrlWalk(items, i + 1, role, last, closing)
      [] it.c = "CANCEL_PUSH" -> IF role = "client" THEN [err |-> AnyErr, closing |-> closing, last |-> last]   \* push is not implemented: unconstrained
                                 ELSE CtrlWalk(items, i + 1, role, last, closing)
      [] it.c = "GOAWAY" ->
            \* RFC 9114 5.2: a client-initiated bidirectional stream id (to a client); never larger than an earlier one
            IF role = "client" /\ ~IsRequest(it.v) THEN [err |-> {H3_ID_ERROR}, closing |-> closing, last |-> last]
            ELSE IF last # <<>> /\ Less(last, it.v) THEN [err |-> {H3_ID_ERROR}, closing |-> closing, last |-> last]
            ELSE CtrlWalk(items, i + 1, role, it.v, TRUE)
      [] OTHER -> CtrlWalk(items, i + 1, role, last, closing)

\* body: control stream bytes after the type; end \in {"open","fin","reset"}
CtrlVerdict(body, end, role) ==
    LET o == Observe(body, end = "fin")
        w == CtrlWalk(o.items, 1, role, <<>>, FALSE)
    IN IF w.err # NoErr THEN w
       ELSE IF o.term = "err" THEN
            \* an erroneous first frame is also "not SETTINGS"; a truncated frame at a clean end is also a closed critical stream
            [err |-> o.codes \cup (IF o.items = <<>> THEN {H3_MISSING_SETTINGS} ELSE {}) \cup (IF end = "fin" THEN {H3_CLOSED_CRITICAL_STREAM} ELSE {}),
             closing |-> w.closing, last |-> w.last]
       ELSE IF end = "reset" \/ o.term = "end" THEN
            [err |-> {H3_CLOSED_CRITICAL_STREAM} \cup (IF o.items = <<>> /\ end = "fin" THEN {H3_MISSING_SETTINGS} ELSE {}), closing |-> w.closing, last |-> w.last]
       ELSE w

(* ---- endpoint state ---------------------------------------------------------------------------------------- *)
\* streams: function from sid to [bytes, end, claimed]; ctrl/enc/dec: sid or -1
InitState == [streams |-> <<>>, sids |-> <<>>, ctrl |-> -1, enc |-> -1, dec |-> -1, err |-> NoErr, closing |-> FALSE,
              mustStop |-> {}, dead |-> {}]

Idx(st, sid) == CHOOSE i \in 1..Len(st.sids) : st.sids[i] = sid
Has(st, sid) == \E i \in 1..Len(st.sids) : st.sids[i] = sid

Open(st, sid) == IF Has(st, sid) THEN st
                 ELSE [st EXCEPT !.sids = Append(@, sid), !.streams = Append(@, [bytes |-> <<>>, end |-> "open", kind |-> "untyped"])]

\* re-evaluate stream sid after its bytes / end changed
Reeval(st, sid, role) ==
    IF st.err # NoErr \/ sid \in st.dead THEN st
    ELSE
    LET i == Idx(st, sid)
        s == st.streams[i]
        was == s.kind
        k == StreamKind(s.bytes)
    IN
    IF was = "untyped" /\ k.k = "untyped" THEN
        \* still no type: an early end is tolerated silently
        IF s.end # "open" THEN [st EXCEPT !.dead = @ \cup {sid}] ELSE st
    ELSE
    LET kind == IF was = "untyped" THEN k.k ELSE was
        st1 == [st EXCEPT !.streams[i].kind = kind]
        fresh == was = "untyped"
    IN
    CASE kind = "control" ->
            IF fresh /\ st.ctrl # -1 THEN [st1 EXCEPT !.err = {H3_STREAM_CREATION_ERROR}]
            ELSE LET v == CtrlVerdict(k.body, s.end, role)
                 IN [st1 EXCEPT !.ctrl = sid, !.err = v.err, !.closing = v.closing]
      [] kind = "encoder" -> IF fresh /\ st.enc # -1 THEN [st1 EXCEPT !.err = {H3_STREAM_CREATION_ERROR}]
                             ELSE [st1 EXCEPT !.enc = sid]      \* what the QPACK streams carry is not interpreted (static-only codec)
      [] kind = "decoder" -> IF fresh /\ st.dec # -1 THEN [st1 EXCEPT !.err = {H3_STREAM_CREATION_ERROR}]
                             ELSE [st1 EXCEPT !.dec = sid]
      [] kind = "push" -> [st1 EXCEPT !.err = AnyErr]          \* push streams: outside the property
      [] kind = "wt" -> st1                                    \* routed or dropped depending on configuration (C19)
      [] OTHER -> IF fresh THEN [st1 EXCEPT !.mustStop = @ \cup {sid}] ELSE st1

Deliver(st, sid, bytes, role) ==
    LET a == Open(st, sid) i == Idx(a, sid) IN
    IF a.streams[i].end # "open" THEN a
    ELSE Reeval([a EXCEPT !.streams[i].bytes = @ \o bytes], sid, role)
End(st, sid, how, role) ==
    LET a == Open(st, sid) i == Idx(a, sid) IN
    IF a.streams[i].end # "open" THEN a
    ELSE Reeval([a EXCEPT !.streams[i].end = how], sid, role)
\* the peer closes the connection: nothing more is required of the endpoint
=============================================================================
