----------------------------- MODULE ConnError -----------------------------
(* The connection-error machinery of h3 at the grain of its shared-state operations (C05).                              *)
(*   cell     write-once error cell (SharedState.connection_error, OnceLock): first store wins                           *)
(*   slot     the driver's waker slot (SharedState.waker, AtomicWaker): empty / holds the driver's waker                 *)
(*   woken    the driver task has been notified                                                                          *)
(*   handled  the error the driver has already converted and acted upon (ConnectionInner.handled_connection_error)       *)
(*   closed   the code of the first OpenStreams::close()                                                                 *)
(* Driver: one poll = `Rounds` invocations of poll_connection_error (check handled; check the cell; register the waker;  *)
(* the order of the last two is the constant `Order`), then its own work, in which it may detect an error of its own     *)
(* (store-if-empty, close, remember).  Request task s: StreamStore(s) (get_or_init, sees the winner), then               *)
(* StreamWake(s) (takes the waker out of the slot).  TLC explores every interleaving of these steps.                     *)
(* Checked: SingleOutcome (one error everywhere, the transport closed with it), NoLostWakeup (once every task is done     *)
(* and an error is stored, the driver is not left parked un-notified without having reported it) and, under weak         *)
(* fairness, Eventually (an error that is stored is eventually reported by the driver).                                  *)
(* Result of model checking: with Order = CheckThenRegister the properties hold iff Rounds >= 2; the real code has       *)
(* Rounds = 3 (poll_control, poll_accept_recv, poll_accept_bi each call poll_connection_error).                           *)
EXTENDS Naturals, FiniteSets, Sequences, TLC
CONSTANTS Streams,        \* set of request-task ids
          Rounds,         \* poll_connection_error invocations per driver poll
          Order,          \* "CheckThenRegister" | "RegisterThenCheck"
          DriverErr       \* TRUE: the driver may detect an error of its own in its work phase
None == "none"
ErrOf(s) == s
DrvE == "drv"
VARIABLES cell, slot, woken, dpc, round, handled, closed, spc, seen, dres, polls
vars == <<cell, slot, woken, dpc, round, handled, closed, spc, seen, dres, polls>>

Init == /\ cell = None /\ slot = "empty" /\ woken = TRUE   \* first poll is spontaneous
        /\ dpc = "idle" /\ round = 0 /\ handled = None /\ closed = None
        /\ spc = [s \in Streams |-> "start"] /\ seen = [s \in Streams |-> None]
        /\ dres = None /\ polls = 0

First(a, b) == IF Order = "CheckThenRegister" THEN a ELSE b
Second(a, b) == IF Order = "CheckThenRegister" THEN b ELSE a

DriverBegin == /\ dpc = "idle" /\ woken /\ dres = None
               /\ woken' = FALSE /\ dpc' = "chkHandled" /\ round' = 1 /\ polls' = polls + 1
               /\ UNCHANGED <<cell, slot, handled, closed, spc, seen, dres>>
ReturnErr(e) == /\ dres' = e /\ dpc' = "idle"
DriverChkHandled == /\ dpc = "chkHandled"
                    /\ IF handled # None THEN ReturnErr(handled) /\ UNCHANGED <<cell,slot,woken,round,handled,closed,spc,seen,polls>>
                       ELSE dpc' = First("chkCell","register") /\ UNCHANGED <<cell,slot,woken,round,handled,closed,spc,seen,dres,polls>>
AfterPair == IF round < Rounds THEN dpc' = "chkHandled" /\ round' = round + 1 ELSE dpc' = "work" /\ round' = round
DriverChkCell == /\ dpc = "chkCell"
                 /\ IF cell # None
                    THEN /\ handled' = cell /\ closed' = (IF closed = None THEN cell ELSE closed)
                         /\ ReturnErr(cell) /\ UNCHANGED <<cell,slot,woken,round,spc,seen,polls>>
                    ELSE /\ (IF Order = "CheckThenRegister" THEN dpc' = "register" /\ round' = round ELSE AfterPair)
                         /\ UNCHANGED <<cell,slot,woken,handled,closed,spc,seen,dres,polls>>
DriverRegister == /\ dpc = "register" /\ slot' = "driver"
                  /\ (IF Order = "CheckThenRegister" THEN AfterPair ELSE dpc' = "chkCell" /\ round' = round)
                  /\ UNCHANGED <<cell,woken,handled,closed,spc,seen,dres,polls>>
DriverWork == /\ dpc = "work"
              /\ \/ /\ dpc' = "idle" /\ UNCHANGED <<cell,handled,closed,dres>>      \* nothing to do: Pending
                 \/ /\ DriverErr /\ polls = 1
                    /\ cell' = (IF cell = None THEN DrvE ELSE cell)
                    /\ handled' = cell' /\ closed' = (IF closed = None THEN cell' ELSE closed)
                    /\ dres' = cell' /\ dpc' = "idle"
              /\ UNCHANGED <<slot,woken,round,spc,seen,polls>>
StreamStore(s) == /\ spc[s] = "start"
                  /\ cell' = (IF cell = None THEN ErrOf(s) ELSE cell)
                  /\ seen' = [seen EXCEPT ![s] = cell'] /\ spc' = [spc EXCEPT ![s] = "stored"]
                  /\ UNCHANGED <<slot,woken,dpc,round,handled,closed,dres,polls>>
StreamWake(s) == /\ spc[s] = "stored" /\ spc' = [spc EXCEPT ![s] = "done"]
                 /\ IF slot = "driver" THEN slot' = "empty" /\ woken' = TRUE ELSE UNCHANGED <<slot, woken>>
                 /\ UNCHANGED <<cell,dpc,round,handled,closed,seen,dres,polls>>
Next == DriverBegin \/ DriverChkHandled \/ DriverChkCell \/ DriverRegister \/ DriverWork
        \/ \E s \in Streams : StreamStore(s) \/ StreamWake(s)
Spec == Init /\ [][Next]_vars /\ WF_vars(DriverBegin \/ DriverChkHandled \/ DriverChkCell \/ DriverRegister \/ DriverWork)
             /\ \A s \in Streams : WF_vars(StreamStore(s) \/ StreamWake(s))
SingleOutcome == /\ (closed # None => closed = cell)
                 /\ (handled # None => handled = cell)
                 /\ (dres # None => dres = cell)
                 /\ \A s \in Streams : seen[s] # None => seen[s] = cell
NoLostWakeup == ((\A s \in Streams : spc[s] = "done") /\ dpc = "idle" /\ ~woken /\ cell # None) => dres # None
Eventually == (cell # None) ~> (dres # None)
====
