SPECIFICATION Spec
CONSTANT MaxHandles = 4
INVARIANT ClosedOnlyWithoutHandles
INVARIANT OutcomeIffNone
PROPERTY NoResurrection
PROPERTY EventuallyClosed
CHECK_DEADLOCK FALSE
