---------------------------- MODULE RequestRecv ----------------------------
(* RFC 9114 section 4.1: "An HTTP message (request or response) consists of: 1. the header section, sent as    *)
(* a single HEADERS frame, 2. optionally, the content, if present, sent as a series of DATA frames, and        *)
(* 3. optionally, the trailer section, if present, sent as a single HEADERS frame.  ... Receipt of an invalid  *)
(* sequence of frames MUST be treated as a connection error of type H3_FRAME_UNEXPECTED. In particular, a DATA *)
(* frame before any HEADERS frame, or a HEADERS or DATA frame after the trailing HEADERS frame, is considered  *)
(* invalid. Other frame types, especially unknown frame types, might be permitted subject to their own rules." *)
(* Section 4.1.2: a request that ends without HEADERS is malformed/incomplete (H3_REQUEST_INCOMPLETE).         *)
(*                                                                                                              *)
(* The receive side of one request stream under the documented call pattern                                    *)
(*    server:  resolve_request ; recv_data* (until end of body or error) ; recv_trailers                       *)
(*    client:  recv_response   ; recv_data* ; recv_trailers                                                     *)
(* `Expect` maps what has arrived on the stream (as segmented by H3Frame!Observe) to what the application must *)
(* have been told once it has consumed everything available: a sequence of call results plus whether a call    *)
(* is still pending.                                                                                            *)
EXTENDS H3Frame

\* abstract call results
RHead == [k |-> "head"]                          \* request / response delivered
RNone == [k |-> "none"]                          \* end of body / no trailers
RTrailers == [k |-> "trailers"]
RBody(b) == [k |-> "body", bytes |-> b]          \* body bytes delivered so far (pieces merged)
RStreamErr(c) == [k |-> "stream_err", code |-> c]
RConnErr(cs) == [k |-> "conn_err", codes |-> cs] \* local connection error with a code from cs
RAny == [k |-> "any"]                            \* the property does not constrain the outcome (must terminate, not panic)

KnownNonMessage == {"CANCEL_PUSH", "SETTINGS", "GOAWAY", "MAX_PUSH_ID", "PUSH_PROMISE"}
FU == {H3_FRAME_UNEXPECTED}

RECURSIVE BodyRun(_,_)
\* <<bytes, next index>> : the maximal run of DATA items starting at j
BodyRun(items, j) ==
    IF j > Len(items) \/ items[j].c # "DATA" THEN <<(<<>>), j>>
    ELSE LET r == BodyRun(items, j + 1) IN <<items[j].got \o r[1], r[2]>>

\* after the trailing HEADERS at index j-1: what recv_trailers reports
AfterTrailers(items, j, term, codes) ==
    IF j <= Len(items) THEN [rets |-> <<RConnErr(FU)>>, pending |-> FALSE, mayTrailers |-> FALSE]      \* any known frame after trailers
    ELSE CASE term = "end" -> [rets |-> <<RTrailers>>, pending |-> FALSE, mayTrailers |-> FALSE]
           [] term = "err" -> [rets |-> <<RConnErr(codes)>>, pending |-> FALSE, mayTrailers |-> FALSE]
           \* stream still open: h3 waits to see what follows; handing the trailers out at once is equally valid
           [] OTHER -> [rets |-> <<>>, pending |-> TRUE, mayTrailers |-> TRUE]

\* obs: items/term/codes of H3Frame!Observe ; role \in {"server", "client"}
Expect(o, role) ==
    LET items == o.items IN
    IF items = <<>> THEN
        CASE o.term = "more" -> [rets |-> <<>>, pending |-> TRUE, mayTrailers |-> FALSE]
          [] o.term = "end" -> IF role = "server" THEN [rets |-> <<RStreamErr(H3_REQUEST_INCOMPLETE)>>, pending |-> FALSE, mayTrailers |-> FALSE]
                               ELSE [rets |-> <<RAny>>, pending |-> FALSE, mayTrailers |-> FALSE]
          [] OTHER -> [rets |-> <<RConnErr(o.codes)>>, pending |-> FALSE, mayTrailers |-> FALSE]
    ELSE IF items[1].c = "PUSH_PROMISE" /\ role = "client" THEN [rets |-> <<RAny>>, pending |-> FALSE, mayTrailers |-> FALSE]
    ELSE IF items[1].c # "HEADERS" THEN [rets |-> <<RConnErr(FU)>>, pending |-> FALSE, mayTrailers |-> FALSE]
    ELSE
        LET run == BodyRun(items, 2)
            body == run[1]
            j == run[2]
            pre == <<RHead, RBody(body)>>
        IN IF j > Len(items) THEN
               CASE o.term = "end" -> [rets |-> pre \o <<RNone, RNone>>, pending |-> FALSE, mayTrailers |-> FALSE]
                 [] o.term = "err" -> [rets |-> pre \o <<RConnErr(o.codes)>>, pending |-> FALSE, mayTrailers |-> FALSE]
                 [] OTHER -> [rets |-> pre, pending |-> TRUE, mayTrailers |-> FALSE]
           ELSE IF items[j].c = "HEADERS" THEN
               LET t == AfterTrailers(items, j + 1, o.term, o.codes)
               IN [rets |-> pre \o <<RNone>> \o t.rets, pending |-> t.pending, mayTrailers |-> t.mayTrailers]
           ELSE IF items[j].c = "PUSH_PROMISE" /\ role = "client" THEN [rets |-> pre \o <<RAny>>, pending |-> FALSE, mayTrailers |-> FALSE]
           ELSE [rets |-> pre \o <<RConnErr(FU)>>, pending |-> FALSE, mayTrailers |-> FALSE]

(* ---- normalising what the harness recorded ------------------------------------------------------------------ *)
\* harness results: k \in {"request","response","data","none","trailers","stream_err","remote_terminate","conn_err","too_big",...}
IsData(r) == r.k = "data"
RECURSIVE MergeFrom(_,_,_)
\* merge the data pieces that follow the head into one body record (always present after a head, possibly empty)
MergeFrom(obs, i, acc) ==
    IF i <= Len(obs) /\ IsData(obs[i]) THEN MergeFrom(obs, i + 1, acc \o obs[i].bytes)
    ELSE <<RBody(acc)>> \o [x \in 1..(Len(obs) - i + 1) |-> obs[i + x - 1]]
Normalise(obs) ==
    IF obs = <<>> THEN <<>>
    ELSE IF obs[1].k \in {"request", "response"} THEN <<obs[1]>> \o MergeFrom(obs, 2, <<>>)
    ELSE obs

\* does the recorded result g realise the abstract result e ?   (exactBody: the body must be complete)
RetOk(e, g, exactBody) ==
    CASE e.k = "head" -> g.k \in {"request", "response"}
      [] e.k = "body" -> g.k = "body" /\ (IF exactBody THEN g.bytes = e.bytes
                                          ELSE Len(g.bytes) <= Len(e.bytes) /\ g.bytes = SubSeq(e.bytes, 1, Len(g.bytes)))
      [] e.k = "none" -> g.k = "none"
      [] e.k = "trailers" -> g.k = "trailers"
      [] e.k = "stream_err" -> g.k = "stream_err" /\ g.code = e.code
      [] e.k = "conn_err" -> g.k = "conn_err" /\ g.origin = "local" /\ g.code \in e.codes
      [] OTHER -> FALSE

\* n: normalised observation; ex: Expect(...)
RECURSIVE PrefixOk(_,_,_)
PrefixOk(n, rets, i) ==
    IF i > Len(rets) THEN TRUE
    ELSE IF rets[i].k = "any" THEN TRUE           \* everything from here on is unconstrained
    ELSE /\ i <= Len(n)
         /\ RetOk(rets[i], n[i], i < Len(rets))   \* a body that is followed by another expected result must be complete
         /\ PrefixOk(n, rets, i + 1)

HasAny(rets) == \E i \in DOMAIN rets : rets[i].k = "any"

ObsOk(obs, ex) ==
    LET n == Normalise(obs) IN
    /\ PrefixOk(n, ex.rets, 1)
    /\ HasAny(ex.rets) \/ Len(n) = Len(ex.rets)
                       \/ (ex.mayTrailers /\ Len(n) = Len(ex.rets) + 1 /\ n[Len(n)].k = "trailers")

\* the connection-level outcome the transport must have seen: the set of acceptable first close codes, {} = no close, {-2} = unconstrained
ExpectedClose(ex) ==
    IF HasAny(ex.rets) THEN {-2}
    ELSE IF ex.rets # <<>> /\ ex.rets[Len(ex.rets)].k = "conn_err" THEN ex.rets[Len(ex.rets)].codes
    ELSE {}
=============================================================================
