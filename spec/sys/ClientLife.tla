----------------------------- MODULE ClientLife -----------------------------
(* Life cycle of an h3 client connection as seen through its request handles (beyond the listed properties; planned      *)
(* growth item 1 of DESIGN.md section 5).  h3::client::SendRequest is a counted handle: cloning adds one, dropping        *)
(* removes one; when the LAST handle goes the client records H3_NO_ERROR as the connection's outcome and wakes the        *)
(* driver, which closes the QUIC connection with that code.  Requests still in flight then end with that error.           *)
EXTENDS Naturals

CONSTANT MaxHandles
VARIABLES handles,   \* live SendRequest handles
          outcome,   \* "none" | "no_error": what the last drop recorded
          closed     \* the driver has closed the transport (with H3_NO_ERROR)
vars == <<handles, outcome, closed>>

Init == handles = 1 /\ outcome = "none" /\ closed = FALSE
\* only a live handle can be cloned: once the count is zero it stays zero
Clone == handles > 0 /\ handles < MaxHandles /\ handles' = handles + 1 /\ UNCHANGED <<outcome, closed>>
Drop == /\ handles > 0 /\ handles' = handles - 1
        /\ outcome' = (IF handles = 1 THEN "no_error" ELSE outcome)
        /\ UNCHANGED closed
Driver == outcome = "no_error" /\ ~closed /\ closed' = TRUE /\ UNCHANGED <<handles, outcome>>
Next == Clone \/ Drop \/ Driver
Spec == Init /\ [][Next]_vars /\ WF_vars(Driver)

ClosedOnlyWithoutHandles == closed => handles = 0
OutcomeIffNone == (outcome = "no_error") <=> (handles = 0)
NoResurrection == [][handles = 0 => handles' = 0]_vars
EventuallyClosed == (handles = 0) ~> closed
=============================================================================
