------------------------------ MODULE Shutdown ------------------------------
(* RFC 9114 section 5.2 (connection shutdown), server side.                                                      *)
(*  "The GOAWAY frame contains an identifier that indicates to the receiver the range of requests ... that were   *)
(*   or might be processed in this connection. The server sends a client-initiated bidirectional stream ID."      *)
(*  "Requests ... with the indicated identifier or greater are rejected (Section 4.1.1) by the sender of the     *)
(*   GOAWAY."  "An endpoint MAY send multiple GOAWAY frames indicating different identifiers, but the identifier  *)
(*   in each frame MUST NOT be greater than the identifier in any previous frame."                               *)
(* and the drain rule of h3's accept(): after the peer's GOAWAY, `accept` reports "no more requests" exactly      *)
(* when every request it handed out has ended.                                                                    *)
(*                                                                                                                 *)
(* The design as a transition system (checked by TLC in spec/mc/Shutdown_MC): the environment opens request       *)
(* streams in any order, the application calls shutdown(n) at any moment, requests end in any order.             *)
EXTENDS Integers, Sequences, FiniteSets

CONSTANTS Ids,        \* request stream ids the peer may open (multiples of 4)
          MaxN        \* shutdown(n) with n \in 0..MaxN

VARIABLES arrivals,   \* streams opened by the peer, not yet seen by accept
          sent,       \* sequence of GOAWAY identifiers written so far
          last,       \* highest accepted stream id (streams may become visible out of id order), -4 = none
          shown,      \* ids handed to the application
          rejected,   \* ids refused with H3_REQUEST_REJECTED
          live,       \* shown requests still in progress
          peerGoaway, \* the peer's GOAWAY has been processed
          done        \* accept has reported "no more requests"
vars == <<arrivals, sent, last, shown, rejected, live, peerGoaway, done>>

Last(s) == s[Len(s)]
Limit == IF sent = <<>> THEN 1000000 ELSE Last(sent)      \* exclusive: ids >= Limit are rejected

Init == arrivals = {} /\ sent = <<>> /\ last = -4 /\ shown = {} /\ rejected = {} /\ live = {} /\ peerGoaway = FALSE /\ done = FALSE

PeerOpen(id) == /\ id \notin arrivals \cup shown \cup rejected
                /\ arrivals' = arrivals \cup {id}
                /\ UNCHANGED <<sent, last, shown, rejected, live, peerGoaway, done>>

\* shutdown(n): announce that n more requests after the last accepted one will still be served
AppShutdown(n) == /\ ~done
                  /\ LET id == last + 4 * (n + 1) IN
                     sent' = IF id < Limit THEN Append(sent, id) ELSE sent
                  /\ UNCHANGED <<arrivals, last, shown, rejected, live, peerGoaway, done>>

\* accept looks at one arrived stream
Accept(id) == /\ ~done /\ id \in arrivals
              /\ arrivals' = arrivals \ {id}
              /\ IF id >= Limit
                 THEN rejected' = rejected \cup {id} /\ UNCHANGED <<shown, live, last>>
                 ELSE shown' = shown \cup {id} /\ live' = live \cup {id} /\ last' = (IF id > last THEN id ELSE last) /\ UNCHANGED rejected
              /\ UNCHANGED <<sent, peerGoaway, done>>

ReqEnd(id) == /\ id \in live /\ live' = live \ {id}
              /\ UNCHANGED <<arrivals, sent, last, shown, rejected, peerGoaway, done>>

PeerGoaway == /\ ~peerGoaway /\ peerGoaway' = TRUE
              /\ UNCHANGED <<arrivals, sent, last, shown, rejected, live, done>>

\* "no more requests": only when draining (peer GOAWAY processed, or shutting down) and nothing is in progress
AcceptNone == /\ ~done /\ (peerGoaway \/ sent # <<>>) /\ live = {} /\ arrivals = {}
              /\ done' = TRUE
              /\ LET id == last + 4 IN sent' = IF id < Limit THEN Append(sent, id) ELSE sent   \* the final GOAWAY
              /\ UNCHANGED <<arrivals, last, shown, rejected, live, peerGoaway>>

Next == \/ \E id \in Ids : PeerOpen(id) \/ Accept(id) \/ ReqEnd(id)
        \/ \E n \in 0..MaxN : AppShutdown(n)
        \/ PeerGoaway \/ AcceptNone
Spec == Init /\ [][Next]_vars /\ WF_vars(AcceptNone) /\ \A id \in Ids : WF_vars(Accept(id)) /\ WF_vars(ReqEnd(id))

(* ---- C08 ---------------------------------------------------------------------------------------------------- *)
NonIncreasing == \A i \in 1..(Len(sent) - 1) : sent[i + 1] <= sent[i]
RequestIds == \A i \in 1..Len(sent) : sent[i] % 4 = 0 /\ sent[i] >= 0
\* nothing at or above an announced identifier is ever shown; nothing below the current one is refused
Line == /\ \A s \in shown, i \in 1..Len(sent) : s < sent[i]
        /\ \A r \in rejected : sent # <<>> /\ r >= Last(sent)
        /\ shown \cap rejected = {}
(* ---- C09 ---------------------------------------------------------------------------------------------------- *)
NoEarlyNone == done => live = {}
Drains == (peerGoaway /\ live = {} /\ arrivals = {}) ~> done
=============================================================================
