---------------------------- MODULE QuinnAdapter ----------------------------
(* What the Quinn adapter (h3-quinn) owes to h3 and to the peer - the definitions shared by the design model          *)
(* (QuinnAdapterModel) and by the trace specification that judges recorded runs over real Quinn (C17_Trace).           *)
(*                                                                                                                    *)
(*  - a unit handed to send_data is a frame: type, varint length, payload; on the wire it is exactly those bytes      *)
(*  - stream identifiers are fixed by who opened the stream, its direction and its ordinal (RFC 9000 section 2.1)     *)
(*  - Quinn conditions and the h3 error class each must surface as                                                   *)
EXTENDS Varint

\* payload byte i (0-based) of the unit with tag t, as produced by the harness
Pat(t, i) == (t * 37 + i * 7 + (i \div 256) * 13 + 1) % 256
Payload(t, len) == [i \in 1..len |-> Pat(t, i - 1)]
FrameType(kind) == IF kind = "headers" THEN 1 ELSE 0
\* RFC 9114 section 7.1: Type (i), Length (i), Frame Payload (..)
Wire(kind, len, t) == <<FrameType(kind)>> \o EncodeInt(len) \o Payload(t, len)

\* RFC 9000 section 2.1: the two least significant bits identify initiator (0 client, 1 server) and direction (0 bidi, 2 uni)
Other(role) == IF role = "client" THEN "server" ELSE "client"
ExpectedId(aRole, opener, kind, ord) ==
    LET initiator == IF opener = "a" THEN aRole ELSE Other(aRole)
    IN 4 * ord + (IF initiator = "server" THEN 1 ELSE 0) + (IF kind = "uni" THEN 2 ELSE 0)

\* up to n elements of seq after the first `from` ones (total, unlike SubSeq)
Slice(seq, from, n) == LET m == IF from >= Len(seq) THEN 0 ELSE IF n < Len(seq) - from THEN n ELSE Len(seq) - from
                       IN [i \in 1..m |-> seq[from + i]]

NoCode == <<>>
\* the error classes (harness projection of h3::quic::StreamErrorIncoming / ConnectionErrorIncoming)
IsTerminated(res, code) == res.k = "terminated" /\ res.code = code
IsAppClose(res, code)   == res.k = "conn" /\ res.c = "app_close" /\ res.code = code
IsTimeout(res)          == res.k = "conn" /\ res.c = "timeout"
IsRefusal(res)          == res.k = "conn" /\ res.c = "internal"
=============================================================================
