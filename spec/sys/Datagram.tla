------------------------------ MODULE Datagram ------------------------------
(* RFC 9297 section 2.1: HTTP/3 Datagram = Quarter Stream ID (varint) ++ HTTP Datagram Payload.        *)
(*   "The largest legal QUIC stream ID value is 2^62-1, so the largest legal value of the Quarter      *)
(*    Stream ID field is 2^60-1. Receipt of an HTTP/3 Datagram that includes a larger value MUST be    *)
(*    treated as an HTTP/3 connection error of type H3_DATAGRAM_ERROR (0x33)."                         *)
(* Plus the view of an encoded datagram as a consumable buffer (bytes::Buf): remaining / chunk / advance. *)
EXTENDS Varint, H3Codes

\* S is a client-initiated bidirectional stream id (U64, divisible by 4)
Enc(S, P) == Encode(DivSmall(S, 4)) \o P

Dec(bs) == LET d == Decode(bs)
           IN IF ~d.ok THEN [ok |-> FALSE, code |-> H3_DATAGRAM_ERROR]
              ELSE IF Less(Max60, d.value) THEN [ok |-> FALSE, code |-> H3_DATAGRAM_ERROR]
              ELSE [ok |-> TRUE, sid |-> MulSmall(d.value, 4), payload |-> d.rest]

(* ---- the buffer view: state = number of bytes consumed so far --------------------------------- *)
\* what `remaining()` must return
Remaining(enc, pos) == Len(enc) - pos
\* what `chunk()` may return: any non-empty prefix of the unread bytes (empty only when nothing remains)
ChunkOk(enc, pos, c) == IF Len(enc) = pos THEN c = <<>>
                        ELSE Len(c) >= 1 /\ Len(c) <= Len(enc) - pos /\ c = SubSeq(enc, pos + 1, pos + Len(c))
=============================================================================
