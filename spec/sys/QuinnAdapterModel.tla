------------------------- MODULE QuinnAdapterModel -------------------------
(* Design model of the send half of the Quinn adapter (h3-quinn SendStream): one slot for the unit in progress,       *)
(* a write loop that hands Quinn whatever is left and advances by what Quinn took, refusal of overlapping writes.      *)
(* Quinn takes an arbitrary non-empty part of what it is offered, bounded by the peer's flow-control credit            *)
(* (bytes the peer has read + its window W).  The peer may stop the stream at any time.                               *)
(*   Fixed = TRUE  : a failed write gives up the unit (the repaired adapter)                                            *)
(*   Fixed = FALSE : the unit stays in the slot after a failed write (the adapter as found, D18)                        *)
EXTENDS Integers, Sequences, FiniteSets

CONSTANTS Lens, MaxUnits, W, Fixed
VARIABLES slot,     \* Empty or [u |-> unit index, rem |-> bytes not yet taken by Quinn]
          handed,   \* [len, ok, stale]: every send_data call, whether it was accepted, and (if refused) whether the slot held a failed unit
          wire,     \* <<u, off>> for every byte Quinn took, in order
          pread,    \* bytes the peer has read
          stopped,  \* the peer's STOP_SENDING has arrived
          inPoll, lastRet,
          failed    \* the unit in the slot is one whose write has already been reported as failed
vars == <<slot, handed, wire, pread, stopped, inPoll, lastRet, failed>>

Empty == [u |-> 0, rem |-> 0]
Credit == pread + W - Len(wire)
Min(a, b) == IF a < b THEN a ELSE b

Init == slot = Empty /\ handed = <<>> /\ wire = <<>> /\ pread = 0 /\ stopped = FALSE /\ inPoll = FALSE /\ lastRet = "none" /\ failed = FALSE

SendData(len) ==
    /\ ~inPoll /\ Len(handed) < MaxUnits
    /\ IF slot = Empty
       THEN /\ slot' = [u |-> Len(handed) + 1, rem |-> len]
            /\ handed' = Append(handed, [len |-> len, ok |-> TRUE, stale |-> FALSE])
       ELSE /\ handed' = Append(handed, [len |-> len, ok |-> FALSE, stale |-> failed])    \* refused, nothing stored
            /\ UNCHANGED slot
    /\ UNCHANGED <<wire, pread, stopped, inPoll, lastRet, failed>>

PollBegin == ~inPoll /\ inPoll' = TRUE /\ UNCHANGED <<slot, handed, wire, pread, stopped, lastRet, failed>>
\* one poll_write inside the loop: Quinn takes k bytes
PollWrite(k) ==
    /\ inPoll /\ slot # Empty /\ slot.rem > 0 /\ ~stopped /\ k \in 1..Min(slot.rem, Credit)
    /\ LET done == handed[slot.u].len - slot.rem
       IN wire' = wire \o [i \in 1..k |-> <<slot.u, done + i>>]
    /\ slot' = [slot EXCEPT !.rem = @ - k]
    /\ UNCHANGED <<handed, pread, stopped, inPoll, lastRet, failed>>
PollBlocked == /\ inPoll /\ slot # Empty /\ slot.rem > 0 /\ ~stopped /\ Credit = 0
               /\ inPoll' = FALSE /\ lastRet' = "pending" /\ UNCHANGED <<slot, handed, wire, pread, stopped, failed>>
PollDone == /\ inPoll /\ (slot.rem = 0)
            /\ slot' = Empty /\ failed' = FALSE /\ inPoll' = FALSE /\ lastRet' = "ready" /\ UNCHANGED <<handed, wire, pread, stopped>>
PollErr == /\ inPoll /\ slot # Empty /\ slot.rem > 0 /\ stopped
           /\ slot' = (IF Fixed THEN Empty ELSE slot) /\ failed' = ~Fixed
           /\ inPoll' = FALSE /\ lastRet' = "err" /\ UNCHANGED <<handed, wire, pread, stopped>>
PeerRead(n) == n \in 1..(Len(wire) - pread) /\ pread' = pread + n /\ UNCHANGED <<slot, handed, wire, stopped, inPoll, lastRet, failed>>
PeerStop == ~stopped /\ stopped' = TRUE /\ UNCHANGED <<slot, handed, wire, pread, inPoll, lastRet, failed>>

Next == \/ \E len \in Lens : SendData(len)
        \/ PollBegin \/ PollBlocked \/ PollDone \/ PollErr
        \/ \E k \in 1..(W + 1) : PollWrite(k)
        \/ \E n \in 1..(W + 1) : PeerRead(n)
        \/ PeerStop
Polling == PollBegin \/ PollBlocked \/ PollDone \/ PollErr \/ (\E k \in 1..(W + 1) : PollWrite(k))
Reading == \E n \in 1..(W + 1) : PeerRead(n)
Spec == Init /\ [][Next]_vars /\ WF_vars(Polling) /\ WF_vars(Reading)

\* everything the accepted units consist of, in the order they were handed over
RECURSIVE AllBytes(_)
AllBytes(i) == IF i > Len(handed) THEN <<>>
               ELSE (IF handed[i].ok THEN [j \in 1..handed[i].len |-> <<i, j>>] ELSE <<>>) \o AllBytes(i + 1)
\* exactly once, complete so far, in order - however Quinn split the writes
Fifo == Len(wire) <= Len(AllBytes(1)) /\ wire = SubSeq(AllBytes(1), 1, Len(wire))
\* a refused unit never reaches the peer, not even partly
RefusedNeverSent == \A i \in DOMAIN wire : handed[wire[i][1]].ok
\* a write is refused only because an earlier one is unfinished - never because an earlier one failed
RefusedOnlyWhileUnfinished == \A i \in DOMAIN handed : ~handed[i].ok => ~handed[i].stale
FlowControl == Len(wire) <= pread + W
\* if nothing fails, whatever was accepted is eventually read completely
Complete == <>[](stopped \/ (pread = Len(AllBytes(1)) /\ slot = Empty))
=============================================================================
