------------------------------ MODULE QpackDyn ------------------------------
(* RFC 9204 with a dynamic table: the reference model against which the real stateful Encoder / Decoder are judged.     *)
(*  3.2   dynamic table: FIFO of entries, size = sum of (name length + value length + 32) <= capacity; "Before a new     *)
(*        entry is added to the dynamic table, entries are evicted from the end of the dynamic table until the size      *)
(*        ... is less than or equal to (table capacity - size of new entry)"; 2.1.1: an entry referenced by an           *)
(*        unacknowledged field section must not be evicted.                                                             *)
(*  3.2.4-3.2.6 absolute / relative / post-base indexing.                                                               *)
(*  4.3   encoder instructions: Set Dynamic Table Capacity 001 cap(5+); Insert with Name Reference 1 T idx(6+) value;     *)
(*        Insert with Literal Name 01 H namelen(5+) name value; Duplicate 000 idx(5+).                                   *)
(*  4.5.1 field section prefix: Required Insert Count (8+, encoded modulo 2*MaxEntries), S + Delta Base (7+).             *)
(*  4.5.2-4.5.6 field line representations incl. dynamic (T=0) and post-base forms.                                      *)
(* The table state is [ins: every entry ever inserted (absolute index a is ins[a+1]), dropped: number evicted,           *)
(* size, cap]; both endpoints' tables are a function of the encoder-stream prefix they have processed.                   *)
EXTENDS QpackBlock

EntrySize(e) == Len(e[1]) + Len(e[2]) + 32
NewTable(cap) == [ins |-> <<>>, dropped |-> 0, size |-> 0, cap |-> cap]
Inserted(t) == Len(t.ins)
IsLive(t, a) == a >= t.dropped /\ a < Len(t.ins)
Entry(t, a) == t.ins[a + 1]

RECURSIVE EvictTo(_,_)
\* evict oldest entries until size <= limit
EvictTo(t, limit) == IF t.size <= limit \/ t.dropped = Len(t.ins) THEN t
                     ELSE EvictTo([t EXCEPT !.dropped = @ + 1, !.size = @ - EntrySize(t.ins[t.dropped + 1])], limit)
\* [ok, t]
InsertEntry(t, e) == IF EntrySize(e) > t.cap THEN [ok |-> FALSE, t |-> t]
                     ELSE LET t1 == EvictTo(t, t.cap - EntrySize(e))
                          IN [ok |-> TRUE, t |-> [t1 EXCEPT !.ins = Append(@, e), !.size = @ + EntrySize(e)]]
SetCap(t, c) == EvictTo([t EXCEPT !.cap = c], c)

(* ---- one encoder-stream instruction at the front of bs: [st |-> "ok", t, rest] | [st |-> "partial"] | [st |-> "bad", why] *)
IntOf(d) == IF PI!FitsInt(d.value) THEN PI!ToInt(d.value) ELSE 2000000000
Instr(t, bs) ==
    LET b == bs[1] IN
    IF b >= 128 THEN                                           \* Insert With Name Reference: 1 T idx(6+)
        LET i == PI!Decode(6, bs) IN
        IF ~i.ok THEN [st |-> "partial"]
        ELSE LET rest1 == SubSeq(bs, i.len + 1, Len(bs)) IN
        IF rest1 = <<>> THEN [st |-> "partial"]
        ELSE LET v == DecString(7, rest1) IN
        IF ~v.ok THEN (IF v.why \in {"truncated-integer", "truncated-string"} THEN [st |-> "partial"] ELSE [st |-> "bad", why |-> v.why])
        ELSE LET static == (b \div 64) % 2 = 1
                 idx == IntOf(i)
             IN IF static THEN
                    IF idx >= StaticSize THEN [st |-> "bad", why |-> "static index"]
                    ELSE LET r == InsertEntry(t, <<StaticEntry(idx)[1], v.bytes>>) IN
                         IF r.ok THEN [st |-> "ok", t |-> r.t, rest |-> v.rest] ELSE [st |-> "bad", why |-> "entry larger than capacity"]
                ELSE LET a == Len(t.ins) - 1 - idx IN              \* relative to the most recent insertion
                     IF ~IsLive(t, a) THEN [st |-> "bad", why |-> "name reference to an evicted or future entry"]
                     ELSE LET r == InsertEntry(t, <<Entry(t, a)[1], v.bytes>>) IN
                          IF r.ok THEN [st |-> "ok", t |-> r.t, rest |-> v.rest] ELSE [st |-> "bad", why |-> "entry larger than capacity"]
    ELSE IF b >= 64 THEN                                       \* Insert With Literal Name: 01 H namelen(5+)
        LET n == DecString(5, bs) IN
        IF ~n.ok THEN (IF n.why \in {"truncated-integer", "truncated-string"} THEN [st |-> "partial"] ELSE [st |-> "bad", why |-> n.why])
        ELSE IF n.rest = <<>> THEN [st |-> "partial"]
        ELSE LET v == DecString(7, n.rest) IN
        IF ~v.ok THEN (IF v.why \in {"truncated-integer", "truncated-string"} THEN [st |-> "partial"] ELSE [st |-> "bad", why |-> v.why])
        ELSE LET r == InsertEntry(t, <<n.bytes, v.bytes>>) IN
             IF r.ok THEN [st |-> "ok", t |-> r.t, rest |-> v.rest] ELSE [st |-> "bad", why |-> "entry larger than capacity"]
    ELSE IF b >= 32 THEN                                       \* Set Dynamic Table Capacity: 001 cap(5+)
        LET c == PI!Decode(5, bs) IN
        IF ~c.ok THEN [st |-> "partial"] ELSE [st |-> "ok", t |-> SetCap(t, IntOf(c)), rest |-> SubSeq(bs, c.len + 1, Len(bs))]
    ELSE                                                        \* Duplicate: 000 idx(5+)
        LET i == PI!Decode(5, bs) IN
        IF ~i.ok THEN [st |-> "partial"]
        ELSE LET a == Len(t.ins) - 1 - IntOf(i) IN
             IF ~IsLive(t, a) THEN [st |-> "bad", why |-> "duplicate of an evicted or future entry"]
             ELSE LET r == InsertEntry(t, Entry(t, a)) IN
                  IF r.ok THEN [st |-> "ok", t |-> r.t, rest |-> SubSeq(bs, i.len + 1, Len(bs))] ELSE [st |-> "bad", why |-> "entry larger than capacity"]

RECURSIVE ApplyAll(_,_)
\* apply every instruction in bs (must be whole instructions): [ok, t, why]
ApplyAll(t, bs) == IF bs = <<>> THEN [ok |-> TRUE, t |-> t, why |-> ""]
                   ELSE LET r == Instr(t, bs) IN
                        IF r.st = "ok" THEN ApplyAll(r.t, r.rest)
                        ELSE [ok |-> FALSE, t |-> t, why |-> IF r.st = "partial" THEN "incomplete instruction" ELSE r.why]

(* ---- field sections with dynamic references -------------------------------------------------------------------------- *)
\* 4.5.1.1 reconstruction of the Required Insert Count by a decoder that has processed `total` insertions
\* returns -1 when the encoded value cannot have been produced by a conformant encoder
RicOf(eric, total, cap) ==
    LET maxEntries == cap \div 32 IN
    IF eric = 0 THEN 0
    ELSE IF maxEntries = 0 \/ eric > 2 * maxEntries THEN -1
    ELSE LET fullRange == 2 * maxEntries
             maxValue == total + maxEntries
             maxWrapped == (maxValue \div fullRange) * fullRange
             r1 == maxWrapped + eric - 1
             r2 == IF r1 > maxValue THEN (IF r1 <= fullRange THEN -1 ELSE r1 - fullRange) ELSE r1
         IN IF r2 = 0 THEN -1 ELSE r2

\* one field line against table t with the given base: [ok, name, value, rest, refs]
LineDyn(t, base, bs) ==
    LET b == bs[1] IN
    IF b >= 128 THEN
        LET i == PI!Decode(6, bs) IN
        IF ~i.ok THEN [ok |-> FALSE, why |-> "truncated"]
        ELSE LET idx == IntOf(i) rest == SubSeq(bs, i.len + 1, Len(bs)) IN
             IF (b \div 64) % 2 = 1 THEN
                 IF idx >= StaticSize THEN [ok |-> FALSE, why |-> "static index"]
                 ELSE [ok |-> TRUE, name |-> StaticEntry(idx)[1], value |-> StaticEntry(idx)[2], rest |-> rest, refs |-> {}]
             ELSE LET a == base - 1 - idx IN
                  IF ~IsLive(t, a) THEN [ok |-> FALSE, why |-> "reference to an evicted or missing entry"]
                  ELSE [ok |-> TRUE, name |-> Entry(t, a)[1], value |-> Entry(t, a)[2], rest |-> rest, refs |-> {a}]
    ELSE IF b >= 64 THEN
        LET i == PI!Decode(4, bs) IN
        IF ~i.ok THEN [ok |-> FALSE, why |-> "truncated"]
        ELSE LET idx == IntOf(i) rest == SubSeq(bs, i.len + 1, Len(bs)) IN
             IF rest = <<>> THEN [ok |-> FALSE, why |-> "truncated"]
             ELSE LET v == DecString(7, rest) IN
             IF ~v.ok THEN [ok |-> FALSE, why |-> v.why]
             ELSE IF (b \div 16) % 2 = 1 THEN
                      IF idx >= StaticSize THEN [ok |-> FALSE, why |-> "static index"]
                      ELSE [ok |-> TRUE, name |-> StaticEntry(idx)[1], value |-> v.bytes, rest |-> v.rest, refs |-> {}]
                  ELSE LET a == base - 1 - idx IN
                       IF ~IsLive(t, a) THEN [ok |-> FALSE, why |-> "reference to an evicted or missing entry"]
                       ELSE [ok |-> TRUE, name |-> Entry(t, a)[1], value |-> v.bytes, rest |-> v.rest, refs |-> {a}]
    ELSE IF b >= 32 THEN
        LET n == DecString(3, bs) IN
        IF ~n.ok THEN [ok |-> FALSE, why |-> n.why]
        ELSE IF n.rest = <<>> THEN [ok |-> FALSE, why |-> "truncated"]
        ELSE LET v == DecString(7, n.rest) IN
             IF ~v.ok THEN [ok |-> FALSE, why |-> v.why]
             ELSE [ok |-> TRUE, name |-> n.bytes, value |-> v.bytes, rest |-> v.rest, refs |-> {}]
    ELSE IF b >= 16 THEN                                        \* 0001 idx(4+): post-base index
        LET i == PI!Decode(4, bs) IN
        IF ~i.ok THEN [ok |-> FALSE, why |-> "truncated"]
        ELSE LET a == base + IntOf(i) IN
             IF ~IsLive(t, a) THEN [ok |-> FALSE, why |-> "reference to an evicted or missing entry"]
             ELSE [ok |-> TRUE, name |-> Entry(t, a)[1], value |-> Entry(t, a)[2], rest |-> SubSeq(bs, i.len + 1, Len(bs)), refs |-> {a}]
    ELSE                                                        \* 0000 N idx(3+): literal with post-base name reference
        LET i == PI!Decode(3, bs) IN
        IF ~i.ok THEN [ok |-> FALSE, why |-> "truncated"]
        ELSE LET a == base + IntOf(i) rest == SubSeq(bs, i.len + 1, Len(bs)) IN
             IF rest = <<>> THEN [ok |-> FALSE, why |-> "truncated"]
             ELSE LET v == DecString(7, rest) IN
                  IF ~v.ok THEN [ok |-> FALSE, why |-> v.why]
                  ELSE IF ~IsLive(t, a) THEN [ok |-> FALSE, why |-> "reference to an evicted or missing entry"]
                  ELSE [ok |-> TRUE, name |-> Entry(t, a)[1], value |-> v.bytes, rest |-> v.rest, refs |-> {a}]

RECURSIVE LinesDyn(_,_,_,_,_)
LinesDyn(t, base, bs, acc, refs) ==
    IF bs = <<>> THEN [v |-> "ok", fields |-> acc, refs |-> refs]
    ELSE LET f == LineDyn(t, base, bs) IN
         IF ~f.ok THEN [v |-> "error", why |-> f.why]
         ELSE LinesDyn(t, base, f.rest, Append(acc, <<f.name, f.value>>), refs \cup f.refs)

\* what a decoder whose table is t must do with the encoded field section bs:
\*   [v |-> "blocked", ric] | [v |-> "ok", fields, refs, ric] | [v |-> "error", why]
DecodeDyn(t, bs) ==
    LET e == PI!Decode(8, bs) IN
    IF ~e.ok THEN [v |-> "error", why |-> "truncated prefix"]
    ELSE LET r1 == SubSeq(bs, e.len + 1, Len(bs)) d == PI!Decode(7, r1) IN
    IF ~d.ok THEN [v |-> "error", why |-> "truncated prefix"]
    ELSE LET ric == RicOf(IntOf(e), Inserted(t), t.cap)
             s == d.flags % 2
             base == IF s = 0 THEN ric + IntOf(d) ELSE ric - IntOf(d) - 1
         IN IF ric < 0 THEN [v |-> "error", why |-> "invalid required insert count"]
            ELSE IF base < 0 THEN [v |-> "error", why |-> "negative base"]
            ELSE IF ric > Inserted(t) THEN [v |-> "blocked", ric |-> ric]
            ELSE LET r == LinesDyn(t, base, SubSeq(r1, d.len + 1, Len(r1)), <<>>, {}) IN
                 IF r.v = "ok" THEN
                     \* 4.5.1.1: the Required Insert Count is one more than the largest absolute index referenced (0 if none)
                     [v |-> "ok", fields |-> r.fields, refs |-> r.refs, ric |-> ric]
                 ELSE r
=============================================================================
