------------------------------- MODULE H3Conn -------------------------------
(* The connection-level life cycle of one h3 endpoint, composed from what the per-mechanism specifications say about     *)
(* the whole connection (PeerStreams: which input is a connection error; ConnError: one error cell; Shutdown /            *)
(* GoawayRecv: identifiers only go down; WireOut: what may be written).  It is the specification behind H3Conn_Trace,     *)
(* the monitor that judges ANY recorded run of the simulator, whatever property the scenario was designed for.            *)
(*                                                                                                                        *)
(*   cell        the first connection error (origin, code), never replaced                                                *)
(*   reported    every connection error any API call has returned                                                         *)
(*   closedWith  the code given to the transport's close (at most one effective close)                                    *)
(*   sent/recv   GOAWAY identifiers sent / received, in order                                                             *)
EXTENDS Integers, Sequences, FiniteSets

CONSTANTS Codes,      \* application error codes an endpoint may detect itself / the peer may close with
          Ids         \* GOAWAY identifiers
None == [origin |-> "none", code |-> -1]
Local(c) == [origin |-> "local", code |-> c]
Remote(c) == [origin |-> "remote", code |-> c]

Fits(s, i) == IF s = <<>> THEN TRUE ELSE i <= s[Len(s)]
VARIABLES cell, reported, closedWith, sent, recv, peerGone
vars == <<cell, reported, closedWith, sent, recv, peerGone>>

Init == cell = None /\ reported = {} /\ closedWith = -1 /\ sent = <<>> /\ recv = <<>> /\ peerGone = FALSE

\* a task (driver or request) detects a violation by the peer: first error wins
Detect(c) == /\ cell' = (IF cell = None THEN Local(c) ELSE cell)
             /\ UNCHANGED <<reported, closedWith, sent, recv, peerGone>>
\* the peer closes the connection; the transport reports it to whoever asks next
PeerClose(c) == /\ ~peerGone /\ peerGone' = TRUE
                /\ cell' = (IF cell = None THEN Remote(c) ELSE cell)
                /\ UNCHANGED <<reported, closedWith, sent, recv>>
\* the driver handles the error: a local one closes the transport with exactly its code, a remote one does not close
Handle == /\ cell # None /\ closedWith = -1
          /\ closedWith' = (IF cell.origin = "local" THEN cell.code ELSE closedWith)
          /\ UNCHANGED <<cell, reported, sent, recv, peerGone>>
\* any API call that fails because of the connection reports the cell
Report == /\ cell # None /\ reported' = reported \cup {cell}
          /\ UNCHANGED <<cell, closedWith, sent, recv, peerGone>>
\* GOAWAY: identifiers never grow, in either direction (a growing received one is a connection error)
SendGoaway(i) == /\ cell = None /\ Fits(sent, i) /\ sent' = Append(sent, i)
                 /\ UNCHANGED <<cell, reported, closedWith, recv, peerGone>>
RecvGoaway(i) == /\ cell = None /\ ~peerGone
                 /\ IF Fits(recv, i) THEN recv' = Append(recv, i) /\ UNCHANGED cell
                    ELSE cell' = Local(264) /\ UNCHANGED recv                  \* H3_ID_ERROR
                 /\ UNCHANGED <<reported, closedWith, sent, peerGone>>

Next == \/ \E c \in Codes : Detect(c) \/ PeerClose(c)
        \/ Handle \/ Report
        \/ \E i \in Ids : SendGoaway(i) \/ RecvGoaway(i)
Spec == Init /\ [][Next]_vars /\ WF_vars(Handle)

Bound == Len(sent) <= 3 /\ Len(recv) <= 3
OneError == Cardinality(reported) <= 1
CloseIsTheError == closedWith # -1 => (cell.origin = "local" /\ closedWith = cell.code)
NoCloseOnRemote == cell.origin = "remote" => closedWith = -1
Monotone(s) == \A i \in 1..(Len(s) - 1) : s[i + 1] <= s[i]
GoawayMonotone == Monotone(sent) /\ Monotone(recv)
CellStable == [][cell # None => cell' = cell]_vars
EventuallyClosed == [](cell.origin = "local" => <>(closedWith = cell.code))
=============================================================================
