SPECIFICATION Spec
CONSTANTS Codes = {257, 261, 264}
 Ids = {0, 4, 8}
INVARIANT OneError
INVARIANT CloseIsTheError
INVARIANT NoCloseOnRemote
INVARIANT GoawayMonotone
PROPERTY CellStable
PROPERTY EventuallyClosed
CONSTRAINT Bound
CHECK_DEADLOCK FALSE
