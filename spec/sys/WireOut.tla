------------------------------ MODULE WireOut ------------------------------
(* What an HTTP/3 endpoint may write (RFC 9114), judged on complete per-stream byte logs.                            *)
(*  6.2    every unidirectional stream begins with a stream type: 0x00 control, 0x02 / 0x03 QPACK encoder / decoder,   *)
(*         0x54 WebTransport (+ session id), or a reserved type 0x1f*N+0x21 (6.2.3); a server may also push (0x01).    *)
(*  6.2.1  control stream: SETTINGS first (7.2.4: "MUST NOT be sent subsequently"), afterwards only GOAWAY,            *)
(*         MAX_PUSH_ID, CANCEL_PUSH and reserved-type frames; never closed by the sender.                             *)
(*  4.1    request streams: HEADERS, DATA*, optional trailing HEADERS; reserved-type frames anywhere; each frame's     *)
(*         length field equals the bytes that follow; at the end of the stream no partial frame.                      *)
(*  7.2.8  frame types 0x02 0x06 0x08 0x09 and (7.2.4.1) setting identifiers 0x00 0x02..0x05 MUST NOT be sent.         *)
(* A log without FIN must be a prefix of a valid stream.                                                               *)
EXTENDS H3Frame

ReservedOk(items) == \A i \in DOMAIN items : items[i].c = "UNKNOWN" => IsReservedForm(items[i].type)
Known(items) == SelectSeq(items, LAMBDA it : it.c # "UNKNOWN")

\* the 4.1 language over known frames:  H D* H?   (prefix-closed when the stream is still open)
RECURSIVE Msg(_,_,_)
\* ph: 0 = expect first HEADERS, 1 = body, 2 = after trailers
Msg(k, i, ph) ==
    IF i > Len(k) THEN TRUE
    ELSE CASE ph = 0 -> k[i].c = "HEADERS" /\ Msg(k, i + 1, 1)
           [] ph = 1 -> (k[i].c = "DATA" /\ Msg(k, i + 1, 1)) \/ (k[i].c = "HEADERS" /\ Msg(k, i + 1, 2))
           [] OTHER -> FALSE

\* a request stream written by a client, or the response side written by a server
ValidRequestStream(bytes, fin) ==
    LET o == ObserveAll(bytes, fin) IN
    /\ o.term \in (IF fin THEN {"end"} ELSE {"more"})                     \* no error, no partial frame at FIN
    /\ ReservedOk(o.items)
    /\ Msg(Known(o.items), 1, 0)
    /\ \A i \in DOMAIN o.items : o.items[i].c = "DATA" => (i = Len(o.items) \/ Len(o.items[i].got) = o.items[i].len)
    /\ fin => (\A i \in DOMAIN o.items : o.items[i].c = "DATA" => Len(o.items[i].got) = o.items[i].len)
    /\ fin => Known(o.items) # <<>>                                         \* a finished stream carries at least the head

ValidControl(body, fin) ==
    LET o == ObserveAll(body, fin) k == Known(o.items) IN
    /\ ~fin /\ o.term = "more"
    /\ ReservedOk(o.items)
    /\ k # <<>> => k[1].c = "SETTINGS"
    /\ \A i \in 2..Len(k) : k[i].c \in {"GOAWAY", "MAX_PUSH_ID", "CANCEL_PUSH"}
    \* nothing, not even a reserved frame, precedes SETTINGS
    /\ o.items # <<>> => o.items[1].c = "SETTINGS"

\* GOAWAY identifiers on a control stream body, in order (U64)
Goaways(body) == LET k == SelectSeq(ObserveAll(body, FALSE).items, LAMBDA it : it.c = "GOAWAY") IN [i \in DOMAIN k |-> k[i].v]

ValidUni(bytes, fin, wtAllowed) ==
    IF bytes = <<>> THEN ~fin                                               \* nothing written yet
    ELSE LET t == Decode(bytes) IN
         IF ~t.ok THEN ~fin                                                 \* type varint partly written
         ELSE LET n == IF FitsInt(t.value) THEN ToInt(t.value) ELSE -1 IN
              CASE n = 0 -> ValidControl(t.rest, fin)
                [] n \in {2, 3} -> t.rest = <<>> /\ ~fin                    \* static-only QPACK: nothing to say, never closed
                [] n = 84 -> wtAllowed
                [] OTHER -> IsReservedForm(t.value)
=============================================================================
