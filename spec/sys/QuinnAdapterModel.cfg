SPECIFICATION Spec
CONSTANTS Lens = {1, 2, 3}
 MaxUnits = 3
 W = 2
 Fixed = TRUE
INVARIANT Fifo
INVARIANT RefusedNeverSent
INVARIANT RefusedOnlyWhileUnfinished
INVARIANT FlowControl
PROPERTY Complete
CHECK_DEADLOCK FALSE
