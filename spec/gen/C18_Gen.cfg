SPECIFICATION Spec
CONSTANT MaxK = 65536
INVARIANT Emit
CHECK_DEADLOCK FALSE
