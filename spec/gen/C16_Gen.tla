------------------------------ MODULE C16_Gen ------------------------------
(* Vector generator for C16: TLC enumerates the inputs the property quantifies  *)
(* over and evaluates the RFC 9000 definitions (Varint, StreamIdSpec) on each;  *)
(* one JSON line per vector, expected value included (binding A).              *)
EXTENDS StreamIdSpec, Json, TLC

CONSTANT Tier        \* "quick" | "thorough"

\* ---- interesting values -------------------------------------------------
Around(k) == { Sub(Pow2(k), FromInt(2)), Sub(Pow2(k), FromInt(1)), Pow2(k),
               Add(Pow2(k), FromInt(1)), Add(Pow2(k), FromInt(2)) }
Special == {Zero, FromInt(1), FromInt(2), FromInt(3), FromInt(4), FromInt(5), FromInt(7), FromInt(37)}
           \cup Around(6) \cup Around(14) \cup Around(30) \cup Around(62) \cup Around(60)
           \cup Around(8) \cup Around(16) \cup Around(32) \cup Around(31) \cup Around(63)
           \cup {MaxU64, Sub(MaxU64, FromInt(1)), Max62, Max60}
Small == { FromInt(n) : n \in 0..65536 }

\* ---- decode vectors -----------------------------------------------------
DecExp(bs) == LET d == Decode(bs)
              IN IF d.ok THEN [ok |-> TRUE, len |-> d.len, value |-> d.value, rest |-> d.rest]
                         ELSE [ok |-> FALSE]
DecVec(bs) == [fn |-> "vdec", in |-> bs, exp |-> DecExp(bs)]

Forms(v) == { n \in {1,2,4,8} : FitsN(v, n) }
Tails == { <<>>, <<0>>, <<255, 1>> }
\* every form (minimal or not) of every special value, every truncation, some tails
FormBytes == UNION { { EncodeN(v, n) : n \in Forms(v) } : v \in { s \in Special : Representable(s) } }
Prefixes(bs) == { SubSeq(bs, 1, k) : k \in 0..Len(bs) }
DecInputs == { <<a>> : a \in Byte } \cup { <<a, b>> : a \in Byte, b \in Byte }
             \cup UNION { Prefixes(f) : f \in FormBytes }
             \cup { f \o t : f \in FormBytes, t \in Tails }
             \cup { <<a, 0, 0, 0, 0, 0, 0, 0, 9>> : a \in {0, 63, 64, 127, 128, 191, 192, 255} }
             \cup { <<a, 255, 255, 255, 255, 255, 255, 255>> : a \in {0, 63, 64, 127, 128, 191, 192, 255} }

\* ---- encode vectors -----------------------------------------------------
EncVec(v) == [fn |-> "venc", in |-> v,
              exp |-> IF Representable(v)
                      THEN [ok |-> TRUE, bytes |-> Encode(v), size |-> MinLen(v), tf |-> TRUE, push |-> TRUE, sess |-> TRUE]
                      ELSE [ok |-> FALSE, tf |-> FALSE, push |-> FALSE, sess |-> FALSE]]
EncInputs == Small \cup Special

\* ---- stream id vectors --------------------------------------------------
SidVec(v) == [fn |-> "sid", in |-> v,
              exp |-> IF Valid(v)
                      THEN [ok |-> TRUE, initiator |-> Initiator(v), dir |-> Direction(v), index |-> Index(v),
                            is_request |-> IsRequest(v), is_push |-> IsPush(v), inner |-> v]
                      ELSE [ok |-> FALSE]]
Indices == {Zero, FromInt(1), FromInt(2), FromInt(63), FromInt(64), FromInt(16383), FromInt(16384),
            Sub(Max60, FromInt(2)), Sub(Max60, FromInt(1)), Max60}
Ids == { Make(i, k) : i \in Indices, k \in 0..3 }
SidInputs == Ids \cup Special \cup { FromInt(n) : n \in 0..64 }
Incs == {Zero, FromInt(1), FromInt(2), FromInt(3), Sub(Max60, FromInt(1)), Max60, Pow2(60), Add(Pow2(60), FromInt(1)),
         Pow2(62), Sub(MaxU64, FromInt(1)), MaxU64}
AddVec(id, n) == [fn |-> "sidadd", in |-> id, n |-> n, exp |-> Advance(id, n)]

\* ---- driver ---------------------------------------------------------------
VARIABLE vec
Init == vec = [fn |-> "start"]
Next == /\ vec.fn = "start"
        /\ \/ \E bs \in DecInputs : vec' = DecVec(bs)
           \/ \E v \in EncInputs : vec' = EncVec(v)
           \/ \E v \in SidInputs : vec' = SidVec(v)
           \/ \E id \in Ids, n \in Incs : vec' = AddVec(id, n)
           \/ \E b \in Byte : vec' = [fn |-> "esize", in |-> b, exp |-> LenOfFirst(b)]
Spec == Init /\ [][Next]_vec

Emit == vec.fn = "start" \/ PrintT(<<"SCN", ToJson(vec)>>)

\* ---- theorems of the definitions, checked on the enumerated sets ---------
RoundTrip == \A v \in Special \cup {FromInt(n) : n \in 0..300} :
                Representable(v) =>
                   /\ Decode(Encode(v)).ok /\ Decode(Encode(v)).value = v /\ Decode(Encode(v)).rest = <<>>
                   /\ Len(Encode(v)) = MinLen(v)
                   /\ \A n \in Forms(v) : Decode(EncodeN(v, n)).value = v /\ Decode(EncodeN(v, n)).len = n /\ n >= MinLen(v)
ASSUME RoundTrip
ASSUME \A id \in Ids : Valid(id) /\ Make(Index(id), id[8] % 4) = id
ASSUME \A id \in Ids, n \in Incs : Valid(Advance(id, n)) /\ Advance(id, n)[8] % 4 = id[8] % 4
                                    /\ Leq(Index(id), Index(Advance(id, n)))
=============================================================================
