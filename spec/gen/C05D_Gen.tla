------------------------------ MODULE C05D_Gen ------------------------------
(* Scenario generator for C05 on the datagram reader (family "H3DG" with `pre_error`): the raw Quinn peer makes the driver     *)
(* detect a connection error (its control stream, written here byte for byte, breaks a rule); once the driver has reported it,     *)
(* the application asks DatagramReader::read_datagram, whose transport call now fails with the transport's own "connection is      *)
(* gone" error: the reader has to report the connection's single outcome, not that one.                                            *)
EXTENDS H3Frame, Json, TLC

Ctls == { <<0>> \o Frame(4, <<>>) \o Frame(0, <<97>>),          \* DATA on the control stream: H3_FRAME_UNEXPECTED
          <<0>> \o Frame(4, <<>>) \o Frame(4, <<>>),            \* a second SETTINGS: H3_FRAME_UNEXPECTED
          <<0>> \o Frame(7, <<0>>),                             \* GOAWAY before SETTINGS: H3_MISSING_SETTINGS
          <<0>> \o Frame(4, <<2, 0>>) }                         \* HTTP/2-reserved setting: H3_SETTINGS_ERROR
VARIABLE out
Init == out = <<>>
Next == out = <<>> /\ \E role \in {"client", "server"}, c \in Ctls :
           out' = [fam |-> "H3DG", role |-> role, sends |-> <<>>, raws |-> <<>>, expect_close |-> FALSE, pre_error |-> TRUE, ctl |-> c]
Spec == Init /\ [][Next]_out
Emit == out = <<>> \/ PrintT(<<"SCN", ToJson(out)>>)
=============================================================================
