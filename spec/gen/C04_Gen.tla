------------------------------ MODULE C04_Gen ------------------------------
(* Scenario generator for C04: peer behaviours on unidirectional streams.                                        *)
(*  part A: one control stream carrying every frame sequence up to length M over the control alphabet, ended by   *)
(*          nothing / FIN / RESET, for both roles, under credit / back-pressure configurations of the endpoint's  *)
(*          own outgoing streams;                                                                                 *)
(*  part B: every ordered pair (triple in the thorough tier) of stream scripts (control, second control, QPACK     *)
(*          encoder/decoder, unknown/grease types in 1- and 2-byte forms, WebTransport, push, streams closed or    *)
(*          reset before their type is complete), in every interleaving of their events.                           *)
EXTENDS H3Frame, Json, TLC, SequencesExt, FiniteSetsExt

CONSTANTS M, K,    \* M: control frames per sequence (part A); K: streams per scenario (part B)
          MC, Pairs \* part C: frames per sequence after SETTINGS; whether every pair of cut points is used in addition to every single one

Letters == {"SET", "SETV", "GA4", "GA0", "GA1", "CP", "MP", "D", "H", "PP", "H2", "H2P", "U", "BADCP", "LONGGA"}
Bytes(x) ==
    CASE x = "SET" -> <<4, 0>>            [] x = "SETV" -> <<4, 2, 8, 1>>
      [] x = "GA4" -> <<7, 1, 4>>         [] x = "GA0" -> <<7, 1, 0>>       [] x = "GA1" -> <<7, 1, 1>>
      [] x = "CP" -> <<3, 1, 0>>          [] x = "MP" -> <<13, 1, 4>>
      [] x = "D" -> <<0, 1, 97>>          [] x = "H" -> <<1, 0>>            [] x = "PP" -> <<5, 1, 0>>
      [] x = "H2" -> <<6, 0>>             [] x = "U" -> <<33, 1, 7>>
      [] x = "H2P" -> <<8, 2, 1, 2>>      \* an HTTP/2-reserved type (WINDOW_UPDATE) with a payload
      [] x = "BADCP" -> <<3, 0>>          [] x = "LONGGA" -> <<7, 2, 4, 8>>

D(bs) == [op |-> "deliver", bytes |-> bs]
FIN == [op |-> "fin"]
RST == [op |-> "reset", code |-> 268]

\* ---- configurations of the endpoint's own sending side ----------------------------------------------------
Cfgs == { [grease |-> FALSE, uni_credit |-> 100, write |-> "all"],
          [grease |-> TRUE, uni_credit |-> 100, write |-> "all"],
          [grease |-> TRUE, uni_credit |-> 3, write |-> "all"],          \* no credit for the optional fourth stream
          [grease |-> TRUE, uni_credit |-> 100, write |-> "1"] }           \* one byte per write

GET == <<71, 69, 84>>
Uri == <<104, 116, 116, 112, 115, 58, 47, 47, 97, 47>>
Probe(role) == IF role = "client"
               THEN <<[op |-> "request", task |-> "probe", prog |-> <<[op |-> "send_request", method |-> GET, uri |-> Uri, fields |-> <<>>], [op |-> "hold"]>>]>>
               ELSE <<>>

Sid(role, k) == IF role = "server" THEN 2 + 4 * (k - 1) ELSE 3 + 4 * (k - 1)
WithSid(ev, sid) == IF ev.op = "deliver" THEN [op |-> "deliver", sid |-> sid, bytes |-> ev.bytes]
                    ELSE IF ev.op = "fin" THEN [op |-> "fin", sid |-> sid]
                    ELSE [op |-> "reset", sid |-> sid, code |-> ev.code]

\* ---- part A ------------------------------------------------------------------------------------------------
ScnA(seq, ending, role, cfg, late) ==
    LET evs == <<D(<<0>>)>> \o [i \in 1..Len(seq) |-> D(Bytes(seq[i]))]
               \o (CASE ending = "fin" -> <<FIN>> [] ending = "reset" -> <<RST>> [] OTHER -> <<>>)
        steps == [i \in 1..Len(evs) |-> WithSid(evs[i], Sid(role, 1))]
    IN [part |-> "A", role |-> role, cfg |-> cfg, letters |-> seq, ending |-> ending,
        steps |-> steps \o (IF late THEN <<[op |-> "grant", uni |-> 2, bidi |-> 0]>> ELSE <<>>) \o Probe(role)]

\* ---- part C: one control stream, the same bytes under every chunking ------------------------------------------------
\* frames that matter for chunking: unknown frames with a payload, in short and long type form, between short frames
LettersC == {"U", "UL", "U2", "GA4", "GA0", "MP", "SETV2"}
BytesC(x) == CASE x = "UL" -> <<33, 20>> \o [i \in 1..20 |-> 170]      \* reserved type, 20-byte payload
               [] x = "U2" -> <<65, 75, 3, 1, 2, 3>>                    \* reserved type 0x14b = 0x1f * 10 + 0x21 in 2-byte form
               [] x = "SETV2" -> <<4, 2, 8, 1>>                         \* a second SETTINGS frame: H3_FRAME_UNEXPECTED
               [] OTHER -> Bytes(x)
RECURSIVE CatC(_)
CatC(q) == IF q = <<>> THEN <<>> ELSE BytesC(q[1]) \o CatC(Tail(q))
\* cut `bs` after the positions in `cuts` (a set of 1..Len-1)
Pieces(bs, cuts) ==
    LET cs == SetToSortSeq(cuts \cup {0, Len(bs)}, <)
    IN [i \in 1..(Len(cs) - 1) |-> D(SubSeq(bs, cs[i] + 1, cs[i + 1]))]
ScnC(q, cuts, ending, role) ==
    LET wire == <<0, 4, 0>> \o CatC(q)
        evs == Pieces(wire, cuts) \o (IF ending = "fin" THEN <<FIN>> ELSE <<>>)
    IN [part |-> "C", role |-> role, cfg |-> [grease |-> FALSE, uni_credit |-> 100, write |-> "all"], letters |-> q, ending |-> ending, cuts |-> SetToSortSeq(cuts, <),
        steps |-> [i \in 1..Len(evs) |-> WithSid(evs[i], Sid(role, 1))] \o Probe(role)]

\* ---- part B ------------------------------------------------------------------------------------------------
Scripts == <<
    <<D(<<0, 4, 0>>)>>,                                  \* 1 control, type + SETTINGS in one chunk
    <<D(<<0>>), D(<<4, 0>>), D(<<7, 1, 4>>)>>,           \* 2 control, frame by frame, then GOAWAY
    <<D(<<64>>), D(<<0, 4, 0>>)>>,                       \* 3 control, 2-byte type varint split across chunks
    <<D(<<0, 4, 0>>), FIN>>,                             \* 4 control closed
    <<D(<<2>>)>>,                                        \* 5 encoder
    <<D(<<2, 63>>)>>,                                    \* 6 encoder with an instruction byte
    <<D(<<3>>)>>,                                        \* 7 decoder
    <<D(<<33>>)>>,                                       \* 8 reserved (grease) type
    <<D(<<64, 127, 1, 2>>)>>,                            \* 9 unknown type, 2-byte form, with payload
    <<D(<<33>>), RST>>,                                  \* 10 unknown type then reset
    <<D(<<64, 84, 0, 120>>)>>,                           \* 11 WebTransport uni, session 0, payload in the same chunk
    <<D(<<1, 0>>)>>,                                     \* 12 push stream
    <<FIN>>,                                             \* 13 closed before any byte
    <<D(<<64>>), FIN>>,                                  \* 14 closed inside the type varint
    <<RST>>,                                             \* 15 reset before any byte
    <<D(<<192, 0>>), RST>> >>                            \* 16 reset inside an 8-byte type varint

\* all interleavings of a sequence of event sequences (each event tagged with its stream's sid)
RECURSIVE Interleavings(_)
Interleavings(ss) ==
    IF \A i \in 1..Len(ss) : ss[i] = <<>> THEN { <<>> }
    ELSE UNION { { <<ss[i][1]>> \o rest : rest \in Interleavings([ss EXCEPT ![i] = Tail(ss[i])]) } : i \in { j \in 1..Len(ss) : ss[j] # <<>> } }

\* batch: everything the peer does arrives before the endpoint runs once (several streams pending in the same pass)
NoRun(st) == [x \in DOMAIN st \cup {"no_run"} |-> IF x = "no_run" THEN TRUE ELSE st[x]]
ScnB(picks, inter, role, cfg, batch) ==
    [part |-> "B", role |-> role, cfg |-> cfg, scripts |-> picks, batch |-> batch,
     steps |-> (IF batch /\ Len(inter) > 1 THEN [i \in 1..Len(inter) |-> IF i < Len(inter) THEN NoRun(inter[i]) ELSE inter[i]] ELSE inter) \o Probe(role)]

VARIABLES seq, out
Init == seq = <<>> /\ out = <<>>
Extend == out = <<>> /\ Len(seq) < M /\ \E x \in Letters : seq' = Append(seq, x) /\ UNCHANGED out
FinishA == /\ out = <<>>
           /\ \E ending \in {"open", "fin", "reset"}, role \in {"server", "client"}, cfg \in Cfgs :
                 \E late \in (IF cfg.uni_credit = 3 THEN BOOLEAN ELSE {FALSE}) : out' = ScnA(seq, ending, role, cfg, late)
           /\ UNCHANGED seq
FinishB == /\ out = <<>> /\ seq = <<>>
           /\ \E picks \in [1..K -> 1..Len(Scripts)], role \in {"server", "client"},
                 cfg \in { c \in Cfgs : c.write = "all" /\ c.uni_credit = 100 } :
                 LET tagged == [k \in 1..K |-> [i \in 1..Len(Scripts[picks[k]]) |-> WithSid(Scripts[picks[k]][i], Sid(role, k))]]
                 \* batched arrival only where the outcome cannot depend on the order in which simultaneously pending streams are
                 \* examined: all streams but one are closed or reset before their type is known (scripts 13..16, never an error themselves)
                 IN \E inter \in Interleavings(tagged), batch \in BOOLEAN :
                       /\ (batch => Cardinality({k \in 1..K : picks[k] \notin 13..16}) <= 1)
                       /\ out' = ScnB(picks, inter, role, cfg, batch)
           /\ UNCHANGED seq
SeqsC == UNION {[1..n -> LettersC] : n \in 1..MC}
FinishC == /\ out = <<>> /\ seq = <<>>
           /\ \E q \in SeqsC, role \in {"server", "client"}, ending \in {"open", "fin"} :
                 LET n == 3 + Len(CatC(q)) IN
                 \E cuts \in ({ {c} : c \in 1..(n - 1) } \cup { 1..(n - 1) } \cup (IF Pairs THEN { {a, b} : a \in 1..(n - 1), b \in 1..(n - 1) } ELSE {})) :
                    out' = ScnC(q, cuts, ending, role)
           /\ UNCHANGED seq
Next == Extend \/ FinishA \/ FinishB \/ FinishC
Spec == Init /\ [][Next]_<<seq, out>>
Emit == out = <<>> \/ PrintT(<<"SCN", ToJson(out)>>)
=============================================================================
