------------------------------ MODULE C14_Gen ------------------------------
(* API programs for C14 against a scripted peer (the pair scenarios of C01_Gen are judged by the same trace spec).   *)
(* Both roles; up to 5 calls from send_request / send_response, send_data(0, 1, 5, 70 bytes), send_trailers, finish,    *)
(* shutdown(n), dropping a handle between calls, a second request; grease on/off; write schedules: everything at       *)
(* once, 1 byte or 3 bytes per write, and credit for outgoing unidirectional streams withheld then granted.             *)
EXTENDS H3Frame, Json, TLC

CONSTANT MaxCalls

GETm == <<71, 69, 84>>
Uri == <<104, 116, 116, 112, 115, 58, 47, 47, 97, 47>>
ReqSection == <<0, 0, 209, 215, 80, 1, 97, 193>>
X == <<120>>
Calls == { [op |-> "send_data", len |-> 0], [op |-> "send_data", len |-> 1], [op |-> "send_data", len |-> 5], [op |-> "send_data", len |-> 70],
           [op |-> "send_trailers", fields |-> << <<X, <<49>>>> >>], [op |-> "finish"], [op |-> "drop"] }
HeadOp(role) == IF role = "client" THEN [op |-> "send_request", method |-> GETm, uri |-> Uri, fields |-> << <<X, <<121>>>> >>]
              ELSE [op |-> "send_response", status |-> 200, fields |-> << <<X, <<121>>>> >>]
\* sensible programs: data only before trailers, nothing after finish/drop
RECURSIVE Progs(_,_)
\* ph: 1 body, 2 after trailers
Progs(n, ph) ==
    { <<>> } \cup
    (IF n = 0 THEN {} ELSE
       { <<c>> \o rest : c \in { x \in Calls : x.op = "send_data" /\ ph = 1 }, rest \in Progs(n - 1, 1) }
       \cup { <<c>> \o rest : c \in { x \in Calls : x.op = "send_trailers" /\ ph = 1 }, rest \in Progs(n - 1, 2) }
       \cup { <<c>> : c \in { x \in Calls : x.op \in {"finish", "drop"} } })

Cfgs == { [grease |-> FALSE, write |-> "all", uni_credit |-> 100], [grease |-> TRUE, write |-> "all", uni_credit |-> 100],
          [grease |-> TRUE, write |-> "1", uni_credit |-> 100], [grease |-> FALSE, write |-> "3", uni_credit |-> 100],
          [grease |-> TRUE, write |-> "3", uni_credit |-> 3] }
Hold == <<[op |-> "hold"]>>
Ends(p) == p # <<>> /\ p[Len(p)].op \in {"finish", "drop"}

\* shutdown(n): sh >= 0 is n itself; -2 stands for usize::MAX, -3 for 2^60 (the addition to the last stream id must saturate at the
\* largest REQUEST stream id, not at the largest integer)
ShOp(sh, net) == IF sh >= 0 THEN [op |-> "shutdown", net |-> net, n |-> sh] ELSE IF sh = -2 THEN [op |-> "shutdown", net |-> net, n |-> 0, n_max |-> TRUE]
                 ELSE [op |-> "shutdown", net |-> net, n |-> 0, n_pow |-> 60]
ScnC(p, cfg, sh, second) ==
    LET r1 == [op |-> "request", task |-> "r1", prog |-> <<HeadOp("client")>> \o p \o (IF Ends(p) THEN <<>> ELSE Hold)]
        r2 == [op |-> "request", task |-> "r2", prog |-> <<HeadOp("client"), [op |-> "finish"]>>]
    IN [part |-> "P", role |-> "client", cfg |-> cfg, prog |-> p,
        steps |-> <<r1>> \o (IF sh # -1 THEN <<ShOp(sh, "c")>> ELSE <<>>) \o (IF second THEN <<r2>> ELSE <<>>)
                  \o (IF cfg.uni_credit = 3 THEN <<[op |-> "grant", uni |-> 2, bidi |-> 0]>> ELSE <<>>)]
ScnS(p, cfg, sh, second) ==
    LET req(id) == <<[op |-> "deliver", sid |-> id, bytes |-> Frame(1, ReqSection)], [op |-> "fin", sid |-> id]>>
        h == <<[op |-> "resolve"], HeadOp("server")>> \o p \o (IF Ends(p) THEN <<>> ELSE Hold)
    IN [part |-> "P", role |-> "server", cfg |-> cfg, prog |-> p, handlers |-> <<h, <<[op |-> "resolve"], HeadOp("server"), [op |-> "finish"]>>>>,
        steps |-> req(0) \o (IF sh # -1 THEN <<ShOp(sh, "s")>> ELSE <<>>) \o (IF second THEN req(4) ELSE <<>>)
                  \o (IF sh # -1 THEN <<[op |-> "shutdown", net |-> "s", n |-> 0]>> ELSE <<>>)
                  \o (IF cfg.uni_credit = 3 THEN <<[op |-> "grant", uni |-> 2, bidi |-> 0]>> ELSE <<>>)]

\* part G: the peer's control stream delivers SETTINGS and then further frames one by one while the endpoint's own unidirectional
\* streams (control, QPACK, grease) are still being written a few bytes at a time or wait for stream credit
Ctl(role) == IF role = "server" THEN 2 ELSE 3
PeerFrames == { <<33, 0>>, <<33, 2, 1, 2>>, <<7, 1, 16>> }     \* reserved-type frames, GOAWAY with an id nobody has used
ScnG(role, cfg, f1, f2) ==
    [part |-> "G", role |-> role, cfg |-> cfg, prog |-> <<>>,
     steps |-> <<[op |-> "deliver", sid |-> Ctl(role), bytes |-> <<0, 4, 0>>], [op |-> "deliver", sid |-> Ctl(role), bytes |-> f1], [op |-> "deliver", sid |-> Ctl(role), bytes |-> f2]>>
               \o (IF cfg.uni_credit = 3 THEN <<[op |-> "grant", uni |-> 2, bidi |-> 0]>> ELSE <<>>)]
CfgsG == { [grease |-> TRUE, write |-> w, uni_credit |-> c] : w \in {"all", "1", "3", "7"}, c \in {100, 3} }

VARIABLE out
Init == out = <<>>
Next == /\ out = <<>>
        /\ \E p \in Progs(MaxCalls, 1), cfg \in Cfgs, sh \in {-1, 0, 1, 15, 4095, -2, -3}, second \in BOOLEAN, role \in {"client", "server"} :
              /\ (sh # -1 \/ second) => (Len(p) <= 2)                 \* keep the product bounded
              /\ (sh < -1) => (Len(p) <= 1 /\ cfg.write = "all")
              /\ out' = (IF role = "client" THEN ScnC(p, cfg, sh, second) ELSE ScnS(p, cfg, sh, second))
NextG == /\ out = <<>>
         /\ \E role \in {"client", "server"}, cfg \in CfgsG, f1 \in PeerFrames, f2 \in PeerFrames : out' = ScnG(role, cfg, f1, f2)
Spec == Init /\ [][Next \/ NextG]_out
Emit == out = <<>> \/ PrintT(<<"SCN", ToJson(out)>>)
=============================================================================
