SPECIFICATION Spec
CONSTANT N = 2
INVARIANT Emit
CHECK_DEADLOCK FALSE
