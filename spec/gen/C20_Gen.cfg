SPECIFICATION Spec
CONSTANT MaxOps = 4
INVARIANT Emit
CHECK_DEADLOCK FALSE
