SPECIFICATION Spec
CONSTANT NStreams = 2
INVARIANT Emit
CHECK_DEADLOCK FALSE
