------------------------------ MODULE C05_Gen ------------------------------
(* Schedule generator for C05: every interleaving, at the granularity of the pre-emption points, of one driver poll      *)
(* sequence (thread 0) with N request tasks (threads 1..N) each raising a different connection error, for every          *)
(* assignment of error sources, with the driver optionally detecting an error of its own or seeing a remote close.        *)
(* A schedule is the sequence of thread indices the controller releases, one step each; what is left when the schedule    *)
(* ends is drained in index order.                                                                                        *)
EXTENDS Sequences, Integers, FiniteSets, Json, TLC

CONSTANTS N,            \* number of request tasks
          DriverSteps,  \* steps of thread 0 that are scheduled explicitly (one poll = 1 + 3 * Rounds steps)
          StreamSteps   \* steps of a request task: start, store, wake, finish = 4

\* how each request task comes to raise a connection error: a protocol violation it detects itself (unexpected frame,
\* truncated frame, undecodable section) or a connection-level error the QUIC layer reports to this task only
KindSets == CASE N = 1 -> { <<"settings">>, <<"quic_internal">>, <<"quic_timeout">> }
              [] N = 2 -> { <<"settings", "truncated">>, <<"quic_internal", "settings">>, <<"truncated", "quic_timeout">> }
              [] OTHER -> { <<"settings", "truncated", "qpack">>, <<"quic_internal", "settings", "quic_timeout">> }
VARIABLES sched, left, done
Init == sched = <<>> /\ left = [t \in 0..N |-> IF t = 0 THEN DriverSteps ELSE StreamSteps] /\ done = FALSE
Step == /\ ~done /\ \E t \in 0..N : left[t] > 0 /\ sched' = Append(sched, t) /\ left' = [left EXCEPT ![t] = @ - 1] /\ UNCHANGED done
\* a schedule is complete when every request task has been stepped through (the driver's remainder is drained)
Finish == /\ ~done /\ (\A t \in 1..N : left[t] = 0) /\ done' = TRUE /\ UNCHANGED <<sched, left>>
Next == Step \/ Finish
Spec == Init /\ [][Next]_<<sched, left, done>>
Emit == ~done \/ (\A d \in {"none", "missing_settings", "remote_close"}, ks \in KindSets :
                    PrintT(<<"SCN", ToJson([streams |-> ks, driver |-> d, schedule |-> sched])>>))
=============================================================================
