------------------------------ MODULE C20_Gen ------------------------------
(* Schedule generator for C20: every sequence of up to MaxOps operations over                                          *)
(*   encode(stream, field list) / deliver encoder instructions (all, or only the first 3 bytes) / decode(stream) /         *)
(*   acknowledge(stream) / deliver decoder instructions / cancel(stream)                                                  *)
(* for table capacities 0, 40 (one small entry), 75 (two) and 4096, over a tiny alphabet of names and values that          *)
(* forces duplicates, name references and evictions.  Long seeded workloads are added by tools/props/C20.py.               *)
EXTENDS Sequences, Integers, FiniteSets, Json, TLC

CONSTANT MaxOps

A == <<97>>
BB == <<98, 98>>
V1 == <<49>>
V2 == <<50, 50>>
METHOD == <<58, 109, 101, 116, 104, 111, 100>>
FieldLists == { << <<A, V1>> >>, << <<A, V2>> >>, << <<BB, V1>>, <<A, V1>> >>, << <<METHOD, <<71, 69, 84>>>>, <<BB, V2>> >> }
Streams == {4, 8}
Ops == { [op |-> "encode", stream |-> s, fields |-> f] : s \in Streams, f \in FieldLists }
       \cup { [op |-> "deliver_enc"], [op |-> "deliver_enc", n |-> 3], [op |-> "deliver_dec"] }
       \cup { [op |-> o, stream |-> s] : o \in {"decode", "ack", "cancel"}, s \in Streams }

VARIABLES ops, cap, done
Init == ops = <<>> /\ cap \in {0, 40, 75, 4096} /\ done = FALSE
NEnc(s) == Cardinality({ i \in DOMAIN ops : ops[i].op = "encode" })
Extend == /\ ~done /\ Len(ops) < MaxOps
          /\ \E o \in Ops :
                /\ o.op = "encode" => NEnc(ops) < 3 /\ ~(\E i \in DOMAIN ops : ops[i].op = "cancel" /\ ops[i].stream = o.stream)   \* stream ids are not reused
                /\ o.op \in {"decode", "ack", "cancel"} => \E i \in DOMAIN ops : ops[i].op = "encode" /\ ops[i].stream = o.stream
                /\ o.op \in {"deliver_enc", "deliver_dec"} => ops # <<>>
                /\ ops' = Append(ops, o)
          /\ UNCHANGED <<cap, done>>
Finish == ~done /\ ops # <<>> /\ done' = TRUE /\ UNCHANGED <<ops, cap>>
Next == Extend \/ Finish
Spec == Init /\ [][Next]_<<ops, cap, done>>
Emit == ~done \/ PrintT(<<"SCN", ToJson([capacity |-> cap, max_blocked |-> 100, ops |-> ops])>>)
=============================================================================
