------------------------------ MODULE C12_Gen ------------------------------
(* Scenario generator for C12.                                                                                      *)
(*  part G (gate): a valid base message per kind (request, response, trailers), then every single perturbation and,    *)
(*     for one base, every pair of perturbations from: invalid / odd field names and values, removed / duplicated /     *)
(*     contradictory / foreign / unknown pseudo-header fields, invalid pseudo values, a pseudo field after a regular    *)
(*     one; encoded by the TLA+ reference encoder (raw and Huffman) and injected by the scripted peer.                  *)
(*  part W (well-formed output): requests (methods x target forms x header lists with repeated names x the Protocol     *)
(*     extension), responses and trailers a caller can build; what h3 writes is decoded and judged in C12_Trace.        *)
EXTENDS H3Message, H3Frame, Json

CONSTANT Pairs     \* TRUE: also pairs of perturbations

GETm == <<71, 69, 84>>
POSTm == <<80, 79, 83, 84>>
ReqA == << <<N_METHOD, GETm>>, <<N_SCHEME, <<104, 116, 116, 112, 115>>>>, <<N_AUTHORITY, <<97>>>>, <<N_PATH, <<47>>>>, <<<<120>>, <<121>>>> >>
ReqB == << <<N_METHOD, POSTm>>, <<N_SCHEME, <<104, 116, 116, 112>>>>, <<N_AUTHORITY, <<97, 46, 98>>>>, <<N_PATH, <<47, 112, 95, 49>>>>,
           <<<<97, 99, 99, 101, 112, 116>>, <<42, 47, 42>>>>, <<<<120>>, <<121>>>>, <<<<120>>, <<122>>>> >>
RespA == << <<N_STATUS, <<50, 48, 48>>>>, <<<<120>>, <<121>>>> >>
TrlA == << <<<<120>>, <<121>>>>, <<<<116>>, <<49>>>> >>

BadNames == { <<>>, <<88>>, <<120, 89>>, <<120, 32, 121>>, <<120, 0>>, <<120, 58>>, <<195, 169>>, <<120, 9>>, <<58, 120>>, <<40, 120, 41>> }
OddNames == { <<120, 45, 49, 95, 50>>, <<33, 35, 36, 37, 38, 39, 42, 43, 45, 46, 94, 95, 96, 124, 126>> }
BadValues == { <<121, 13>>, <<121, 10>>, <<0>>, <<121, 13, 10, 122>> }
OddValues == { <<>>, <<128, 255>>, <<97, 9, 98>>, <<1>>, <<127>>, <<32, 121>> }

Regs(fs) == { i \in DOMAIN fs : ~IsPseudo(fs[i]) }
Pseus(fs) == { i \in DOMAIN fs : IsPseudo(fs[i]) }
Remove(fs, i) == SubSeq(fs, 1, i - 1) \o SubSeq(fs, i + 1, Len(fs))
BadPseudoValues(name) ==
    CASE name = N_METHOD -> { <<71, 32, 84>>, <<>>, <<71, 10>> }
      [] name = N_STATUS -> { <<50, 48>>, <<50, 48, 48, 48>>, <<97, 98, 99>>, <<48, 57, 57>>, <<>>,
                              \* what an integer parser would let through: leading zero, sign, more leading zeros, hexadecimal-looking
                              <<48, 50, 48, 48>>, <<43, 52, 48, 52>>, <<43, 50, 48, 48>>, <<48, 48, 50, 48, 48>>, <<45, 50, 48, 48>>, <<50, 48, 97>> }
      [] name = N_AUTHORITY -> { <<>> }
      [] name = N_PATH -> { <<47, 32, 120>>, <<47, 1>>, <<>> }
      [] OTHER -> { <<>> }
Extras(kind) == { <<N_HOST, <<97>>>>, <<N_HOST, <<98>>>>, <<N_HOST, <<>>>>, <<N_HOST, <<65>>>>,   \* Host a / b / empty / A (differs from :authority only in case)
                  <<<<58, 120>>, <<49>>>>, <<N_PROTOCOL, <<119, 101, 98, 115, 111, 99, 107, 101, 116>>>> }
               \cup (IF kind = "request" THEN { <<N_STATUS, <<50, 48, 48>>>> } ELSE { <<N_METHOD, GETm>>, <<N_PATH, <<47>>>> })

Perturb(kind, fs) ==
    UNION { { [fs EXCEPT ![i] = <<n, fs[i][2]>>] : n \in BadNames \cup OddNames } : i \in Regs(fs) }
    \cup UNION { { [fs EXCEPT ![i] = <<fs[i][1], v>>] : v \in BadValues \cup OddValues } : i \in Regs(fs) }
    \cup { Remove(fs, i) : i \in Pseus(fs) }
    \cup { SubSeq(fs, 1, i) \o <<fs[i]>> \o SubSeq(fs, i + 1, Len(fs)) : i \in Pseus(fs) }                     \* duplicated pseudo field
    \cup UNION { { [fs EXCEPT ![i] = <<fs[i][1], v>>] : v \in BadPseudoValues(fs[i][1]) } : i \in Pseus(fs) }
    \cup { Append(fs, e) : e \in Extras(kind) }
    \cup { <<e>> \o fs : e \in Extras(kind) }
    \cup { Remove(fs, i) \o <<fs[i]>> : i \in Pseus(fs) }                                                      \* pseudo field after the regular ones
    \* the authority comes from Host alone: present and non-empty (delivered), or empty (no non-empty authority at all: refused)
    \cup UNION { { Remove(fs, i) \o <<<<N_HOST, h>>>>, <<<<N_HOST, h>>>> \o Remove(fs, i) } : i \in { j \in Pseus(fs) : fs[j][1] = N_AUTHORITY }, h \in { <<>>, <<97>>, <<98, 58, 56, 48>> } }

Uri == <<104, 116, 116, 112, 115, 58, 47, 47, 97, 47>>
ReqProg == <<[op |-> "send_request", method |-> GETm, uri |-> Uri, fields |-> <<>>], [op |-> "recv_response"], [op |-> "recv_body"], [op |-> "recv_trailers"]>>
ScnG(kind, fs, huff) ==
    LET sec == RefSection(fs, huff)
        role == IF kind = "response" THEN "client" ELSE "server"
        bytes == IF kind = "trailers" THEN Frame(1, RefSection(SubSeq(ReqA, 1, 4), FALSE)) \o Frame(1, sec) ELSE Frame(1, sec)
        pre == IF role = "client" THEN <<[op |-> "request", task |-> "r1", prog |-> ReqProg]>> ELSE <<>>
    IN [part |-> "G", kind |-> kind, role |-> role, cfg |-> [grease |-> FALSE],
        default_handler |-> <<[op |-> "resolve"], [op |-> "recv_body"], [op |-> "recv_trailers"]>>,
        steps |-> pre \o <<[op |-> "deliver", sid |-> 0, bytes |-> bytes], [op |-> "fin", sid |-> 0]>>]

(* ---- part W --------------------------------------------------------------------------------------------------------- *)
Methods == { GETm, POSTm, <<79, 80, 84, 73, 79, 78, 83>>, <<67, 79, 78, 78, 69, 67, 84>> }
CONNECTm == <<67, 79, 78, 78, 69, 67, 84>>
\* target forms: <<uri bytes, scheme, authority, path>>  ("" = absent)
Targets == { << <<104,116,116,112,115,58,47,47,97,46,98,47,112,63,113,61,49>>, <<104,116,116,112,115>>, <<97,46,98>>, <<47,112,63,113,61,49>> >>,   \* https://a.b/p?q=1
             << <<104,116,116,112,58,47,47,97,58,56,48,47>>, <<104,116,116,112>>, <<97,58,56,48>>, <<47>> >>,                                          \* http://a:80/
             << <<104,116,116,112,115,58,47,47,97>>, <<104,116,116,112,115>>, <<97>>, <<47>> >> }                                                     \* https://a  (path defaults to /)
ConnectTarget == << <<97, 46, 98, 58, 52, 52, 51>>, <<>>, <<97, 46, 98, 58, 52, 52, 51>>, <<>> >>                                                   \* authority-form a.b:443
FieldLists == { <<>>, << <<<<120>>, <<121>>>> >>, << <<<<120>>, <<49>>>>, <<<<97, 99, 99, 101, 112, 116>>, <<42, 47, 42>>>>, <<<<120>>, <<50>>>>, <<<<88, 45, 85, 112>>, <<51>>>>, <<<<120>>, <<51>>>> >> }
WT == <<119, 101, 98, 116, 114, 97, 110, 115, 112, 111, 114, 116>>
ScnWReq(m, t, fl, proto) ==
    [part |-> "W", kind |-> "request", role |-> "client", cfg |-> [grease |-> FALSE], method |-> m, scheme |-> t[2], authority |-> t[3], path |-> t[4], fields |-> fl, protocol |-> proto,
     steps |-> <<[op |-> "request", task |-> "r1", prog |-> <<[op |-> "send_request", method |-> m, uri |-> t[1], fields |-> fl, protocol |-> proto], [op |-> "hold"]>>]>>]
ScnWResp(status, fl, tr) ==
    [part |-> "W", kind |-> "response", role |-> "server", cfg |-> [grease |-> FALSE], status |-> status, fields |-> fl, trailers |-> tr,
     default_handler |-> <<[op |-> "resolve"], [op |-> "send_response", status |-> status, fields |-> fl], [op |-> "send_trailers", fields |-> tr], [op |-> "hold"]>>,
     steps |-> <<[op |-> "deliver", sid |-> 0, bytes |-> Frame(1, RefSection(SubSeq(ReqA, 1, 4), FALSE))], [op |-> "fin", sid |-> 0]>>]

VARIABLE out
Init == out = <<>>
Next == /\ out = <<>>
        /\ \/ \E b \in { <<"request", ReqA>>, <<"request", ReqB>>, <<"response", RespA>>, <<"trailers", TrlA>> } :
                 \E fs \in {b[2]} \cup Perturb(b[1], b[2]), huff \in BOOLEAN : out' = ScnG(b[1], fs, huff)
           \/ Pairs /\ \E b \in { <<"request", ReqA>>, <<"response", RespA>> } :
                 \E f1 \in Perturb(b[1], b[2]) : \E f2 \in Perturb(b[1], f1) : out' = ScnG(b[1], f2, FALSE)
           \/ \E m \in Methods \ {CONNECTm}, t \in Targets, fl \in FieldLists : out' = ScnWReq(m, t, fl, <<>>)
           \/ \E fl \in FieldLists : out' = ScnWReq(CONNECTm, ConnectTarget, fl, <<>>)
           \/ \E t \in Targets, fl \in FieldLists : out' = ScnWReq(CONNECTm, t, fl, WT)
           \/ \E st \in {200, 204, 404, 500}, fl \in FieldLists, tr \in { <<>>, << <<<<116>>, <<49>>>>, <<<<116>>, <<50>>>> >> } : out' = ScnWResp(st, fl, tr)
Spec == Init /\ [][Next]_out
Emit == out = <<>> \/ PrintT(<<"SCN", ToJson(out)>>)
=============================================================================
