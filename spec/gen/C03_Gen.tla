------------------------------ MODULE C03_Gen ------------------------------
(* Scenario generator for C03: all sequences up to length N over the request-stream frame alphabet             *)
(*   {HEADERS, DATA(0), truncated DATA, truncated unknown, DATA(n), unknown(0), unknown(n), CANCEL_PUSH, SETTINGS, GOAWAY,       *)
(*    MAX_PUSH_ID, PUSH_PROMISE, HTTP/2-reserved}                                                                *)
(* x ending {FIN, RESET, still open} x chunkings {one chunk, frame by frame, byte by byte} x {server, client}.  *)
(* The scripted peer's bytes are written here, byte for byte; nothing of h3 takes part in producing them.        *)
EXTENDS H3Frame, Json, TLC

CONSTANT N

\* field sections (static-table / literal representations only; their validity is C11's business)
ReqSection == <<0, 0, 209, 215, 80, 1, 97, 193>>     \* :method GET, :scheme https, :authority a, :path /
RespSection == <<0, 0, 217>>                         \* :status 200
TrailerSection == <<0, 0, 33, 120, 1, 121>>          \* x: y   (literal name, literal value)

Letters == {"H", "D0", "Dn", "U0", "Un", "CP", "SET", "GA", "MP", "PP", "H2", "PD", "PX"}
\* first: is this the first HEADERS frame of the sequence (the message head) or a later one (trailers)?
FrameOf(x, role, first) ==
    CASE x = "H" -> Frame(1, IF first THEN (IF role = "server" THEN ReqSection ELSE RespSection) ELSE TrailerSection)
      [] x = "D0" -> Frame(0, <<>>)
      [] x = "Dn" -> Frame(0, <<104, 105>>)
      [] x = "U0" -> Frame(33, <<>>)
      [] x = "Un" -> Frame(64, <<7, 1, 4>>)             \* unknown type whose payload looks like a GOAWAY frame
      [] x = "CP" -> Frame(3, <<4>>)
      [] x = "SET" -> Frame(4, <<>>)
      [] x = "GA" -> Frame(7, <<4>>)
      [] x = "MP" -> Frame(13, <<4>>)
      [] x = "PP" -> Frame(5, <<4, 0, 0>>)
      [] x = "H2" -> Frame(9, <<0>>)
      [] x = "PD" -> <<0, 5, 97>>                       \* DATA frame cut short (what follows, if anything, becomes its payload)
      [] x = "PX" -> <<33, 4, 0>>                       \* unknown-type frame cut short

Flatten(ss) == IF ss = <<>> THEN <<>> ELSE ss[1] \o (IF Len(ss) = 1 THEN <<>> ELSE LET RECURSIVE F(_) F(i) == IF i > Len(ss) THEN <<>> ELSE ss[i] \o F(i + 1) IN F(2))

Deliver(bs) == [op |-> "deliver", sid |-> 0, bytes |-> bs]
Chunks(frames, how) ==
    CASE how = "one" -> IF frames = <<>> THEN <<>> ELSE <<Deliver(Flatten(frames))>>
      [] how = "frames" -> [i \in 1..Len(frames) |-> Deliver(frames[i])]
      [] OTHER -> LET w == Flatten(frames) IN [i \in 1..Len(w) |-> Deliver(<<w[i]>>)]

Ending(e) == CASE e = "fin" -> <<[op |-> "fin", sid |-> 0]>>
               [] e = "reset" -> <<[op |-> "reset", sid |-> 0, code |-> 268]>>
               [] OTHER -> <<>>

GET == <<71, 69, 84>>
Uri == <<104, 116, 116, 112, 115, 58, 47, 47, 97, 47>>       \* https://a/
\* split: "no" = the request stream is read whole; "early" = RequestStream::split() right after the message head was received (whatever
\* has arrived beyond it is still buffered); "mid" = split() after the first piece of body was handed out (with byte-wise delivery: inside a
\* DATA frame).  The receiving half goes on reading; what the application is told must not depend on it.
Reading(split) == CASE split = "early" -> <<[op |-> "split_keep_recv"], [op |-> "recv_body"], [op |-> "recv_trailers"]>>
                    [] split = "mid" -> <<[op |-> "recv_body", split_after |-> 1], [op |-> "recv_trailers"]>>
                    [] OTHER -> <<[op |-> "recv_body"], [op |-> "recv_trailers"]>>
ClientProg(split) == <<[op |-> "send_request", method |-> GET, uri |-> Uri, fields |-> <<>>], [op |-> "recv_response"]>> \o Reading(split)

Scn(seq, e, how, role, split) ==
    LET frames == [i \in 1..Len(seq) |-> FrameOf(seq[i], role, \A k \in 1..(i - 1) : seq[k] # "H")]
        pre == IF role = "client" THEN <<[op |-> "request", task |-> "r1", prog |-> ClientProg(split)]>> ELSE <<>>
    IN [role |-> role, cfg |-> [grease |-> FALSE], letters |-> seq, ending |-> e, chunking |-> how, split |-> split,
        default_handler |-> <<[op |-> "resolve"]>> \o Reading(split),
        steps |-> pre \o Chunks(frames, how) \o Ending(e)]

VARIABLES seq, out
Init == seq = <<>> /\ out = <<>>
\* a truncated frame can only be the last thing on the stream
Extend == out = <<>> /\ Len(seq) < N /\ (IF seq = <<>> THEN TRUE ELSE seq[Len(seq)] \notin {"PD", "PX"}) /\ \E x \in Letters : seq' = Append(seq, x) /\ UNCHANGED out
\* (an early split differs from none only when more than the head has been buffered: one chunk; a late one needs a body piece)
Splits(how) == {"no"} \cup (IF how = "one" THEN {"early"} ELSE {}) \cup (IF \E i \in 1..Len(seq) : seq[i] \in {"Dn", "PD"} THEN {"mid"} ELSE {})
Finish == out = <<>> /\ \E e \in {"fin", "reset", "open"}, how \in {"one", "frames", "bytes"}, role \in {"server", "client"} :
             \E split \in Splits(how) : out' = Scn(seq, e, how, role, split) /\ UNCHANGED seq
Next == Extend \/ Finish
Spec == Init /\ [][Next]_<<seq, out>>
Emit == out = <<>> \/ PrintT(<<"SCN", ToJson(out)>>)
=============================================================================
