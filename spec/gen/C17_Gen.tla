------------------------------ MODULE C17_Gen ------------------------------
(* Scenario generator for C17: programs for the h3quinn harness (adapter side "a_*", raw Quinn peer "p_*").            *)
(*  S  send programs:   role x stream kind x (un)split x peer window x up to MaxUnits units, each with a length from      *)
(*                      Lens, optionally an overlapping send_data right behind it, single polls before the wait, the     *)
(*                      peer reading concurrently in steps; identifier queries in between; FIN; the peer reads to the end *)
(*  U  poll_send programs (SendStreamUnframed, the WebTransport path)                                                     *)
(*  R  receive programs: who opened x pending read first x identifier queries in every state x FIN / RESET(code) at       *)
(*                      different positions x stop_sending(code) with and without a pending read                           *)
(*  E  fault programs:  CONNECTION_CLOSE(code) / STOP_SENDING(code) / idle timeout x Codes x state of the adapter          *)
(*                      (idle, read pending, write blocked on flow control)                                                *)
(*  D  datagrams and the adapter's own close                                                                               *)
EXTENDS U64, Json, TLC

CONSTANTS Lens, MultiLens, MaxUnits, Windows, Full

Codes == {FromInt(0), FromInt(256), FromInt(268), Max62}
Roles == {"client", "server"}

O(op, s) == [op |-> op, s |-> s]
Send(s, len, tag, kind) == [op |-> "a_send", s |-> s, len |-> len, tag |-> tag, kind |-> kind]
Ready(s, step) == [op |-> "a_ready", s |-> s, step |-> step]
Ids(s, kind) == IF kind = "uni_send" THEN <<O("a_send_id", s)>> ELSE IF kind = "uni_recv" THEN <<O("a_recv_id", s)>> ELSE <<O("a_send_id", s), O("a_recv_id", s)>>
Win(w) == [stream |-> w, conn |-> 0, send |-> 0]

\* one unit of a send program
Unit(s, u, tag) ==
    <<Send(s, u.len, tag, u.kind)>>
    \o (IF u.overlap THEN <<Send(s, 5, tag + 50, "data")>> ELSE <<>>)
    \o [i \in 1..u.polls |-> O("a_ready_once", s)]
    \o (IF u.overlap /\ u.polls > 0 THEN <<Send(s, 3, tag + 60, "data")>> ELSE <<>>)
    \o <<Ready(s, u.step)>>
    \o (IF u.ids THEN <<O("a_send_id", s)>> ELSE <<>>)

UnitChoices == [len : Lens, kind : {"data", "headers"}, overlap : BOOLEAN, polls : {0, 2}, step : {7, 4096}, ids : BOOLEAN]
\* the quick tier keeps the unit shapes that matter together: a headers unit is always plain
UnitOk(u) == (u.kind = "headers" => ~u.overlap /\ u.polls = 0 /\ ~u.ids) /\ (Full \/ (u.ids => u.overlap))

RECURSIVE Cat(_)
Cat(ss) == IF ss = <<>> THEN <<>> ELSE ss[1] \o Cat(Tail(ss))

SendProgram(role, kind, split, w, units) ==
    [fam |-> "S", a_role |-> role, win |-> Win(w), idle_ms |-> 0,
     ops |-> <<[op |-> IF kind = "bidi" THEN "a_open_bidi" ELSE "a_open_uni", s |-> "s0", split |-> split, via |-> IF split THEN "opener" ELSE "conn"]>>
             \o Ids("s0", IF kind = "bidi" THEN "bidi" ELSE "uni_send")
             \o Cat([i \in 1..Len(units) |-> Unit("s0", units[i], i)])
             \o <<O("a_finish", "s0")>> \o Ids("s0", IF kind = "bidi" THEN "bidi" ELSE "uni_send")
             \o <<[op |-> "p_read_to_end", s |-> "s0", n |-> 1000]>>]

\* two streams on one connection, units alternating: bytes never cross streams
TwoStreams(role, w, l1, l2) ==
    [fam |-> "S2", a_role |-> role, win |-> Win(w), idle_ms |-> 0,
     ops |-> <<[op |-> "a_open_bidi", s |-> "s0", split |-> TRUE, via |-> "opener"], [op |-> "a_open_uni", s |-> "s1", via |-> "opener"], [op |-> "a_open_bidi", s |-> "s2", split |-> FALSE, via |-> "conn"],
               Send("s0", l1, 1, "data"), Send("s1", l2, 2, "data"), Send("s2", 1, 3, "headers"), O("a_send_id", "s1"), O("a_send_id", "s2"), O("a_recv_id", "s2"),
               Ready("s2", 16), Ready("s1", 16), Ready("s0", 16), Send("s0", l2, 4, "data"), Send("s1", l1, 5, "headers"), Ready("s0", 9), Ready("s1", 9),
               O("a_finish", "s1"), O("a_finish", "s0"), O("a_finish", "s2"),
               [op |-> "p_read_to_end", s |-> "s0", n |-> 100], [op |-> "p_read_to_end", s |-> "s1", n |-> 100], [op |-> "p_read_to_end", s |-> "s2", n |-> 100],
               O("a_send_id", "s0"), O("a_send_id", "s1")>>]

PollSendProgram(role, w, len, split) ==
    [fam |-> "U", a_role |-> role, win |-> Win(w), idle_ms |-> 0,
     ops |-> <<[op |-> "a_open_bidi", s |-> "s0", split |-> split, via |-> "opener"],
               [op |-> "a_poll_send", s |-> "s0", len |-> len, tag |-> 1], [op |-> "a_poll_send", s |-> "s0", len |-> len, tag |-> 2],
               [op |-> "p_read", s |-> "s0", n |-> 40], [op |-> "a_poll_send", s |-> "s0", len |-> 10, tag |-> 3],
               Send("s0", 4, 4, "data"), Ready("s0", 50), [op |-> "a_poll_send", s |-> "s0", len |-> 3, tag |-> 5],
               O("a_finish", "s0"), [op |-> "p_read_to_end", s |-> "s0", n |-> 1000]>>]

\* poll_send while a unit handed over with send_data is unfinished and the peer's credit has come back: the new write has to be refused
\* (the adapter refuses by panicking: accepted by C17_Trace) and must never land inside the unfinished frame
UnframedDuringUnit(role, split, len, readn) ==
    [fam |-> "UI", a_role |-> role, win |-> Win(64), idle_ms |-> 0,
     ops |-> <<[op |-> "a_open_bidi", s |-> "s0", split |-> split, via |-> "opener"],
               Send("s0", len, 1, "data"), O("a_ready_once", "s0"),
               [op |-> "p_read", s |-> "s0", n |-> readn], [op |-> "sleep", ms |-> 30],
               [op |-> "a_poll_send", s |-> "s0", len |-> 4, tag |-> 2],
               Ready("s0", 50), [op |-> "a_poll_send", s |-> "s0", len |-> 3, tag |-> 3],
               O("a_finish", "s0"), [op |-> "p_read_to_end", s |-> "s0", n |-> 1000]>>]

(* ---- receive programs ---- *)
\* how the stream the adapter reads from comes to exist
OpenForRecv(opener, kind, split) ==
    IF opener = "p"
    THEN <<[op |-> IF kind = "bidi" THEN "p_open_bidi" ELSE "p_open_uni", s |-> "s0"], [op |-> "p_write", s |-> "s0", len |-> 3, tag |-> 1],
           [op |-> IF kind = "bidi" THEN "a_accept_bidi" ELSE "a_accept_uni", s |-> "s0", split |-> split]>>
    ELSE <<[op |-> "a_open_bidi", s |-> "s0", split |-> split, via |-> "opener"], Send("s0", 1, 9, "data"), Ready("s0", 0),
           [op |-> "p_read", s |-> "s0", n |-> 10], [op |-> "p_write", s |-> "s0", len |-> 3, tag |-> 1]>>
RIds(kind) == Ids("s0", IF kind = "bidi" THEN "bidi" ELSE "uni_recv")

RecvProgram(role, opener, kind, split, ending, code, pendingFirst) ==
    [fam |-> "R", a_role |-> role, win |-> Win(0), idle_ms |-> 0,
     ops |-> OpenForRecv(opener, kind, split) \o RIds(kind)
             \o <<O("a_poll_data", "s0")>> \o RIds(kind)
             \o (IF pendingFirst THEN <<O("a_poll_data_once", "s0")>> \o RIds(kind) ELSE <<>>)
             \o <<[op |-> "p_write", s |-> "s0", len |-> 700, tag |-> 2], O("a_poll_data", "s0")>> \o RIds(kind)
             \o (CASE ending = "fin" -> <<O("p_fin", "s0"), O("a_read_to_end", "s0")>>
                   [] ending = "reset" -> <<[op |-> "p_write", s |-> "s0", len |-> 10, tag |-> 3], [op |-> "p_reset", s |-> "s0", code |-> code], O("a_read_to_end", "s0")>>
                   [] ending = "reset_pending" -> <<O("a_poll_data_once", "s0"), [op |-> "p_reset", s |-> "s0", code |-> code], O("a_read_to_end", "s0")>>
                   [] ending = "stop_pending" -> <<O("a_poll_data_once", "s0")>> \o RIds(kind) \o <<[op |-> "a_stop", s |-> "s0", code |-> code]>> \o RIds(kind)
                                                  \o <<[op |-> "p_write", s |-> "s0", len |-> 5, tag |-> 4], O("a_poll_data", "s0"), O("p_wait_stopped", "s0")>>
                   [] OTHER -> <<[op |-> "a_stop", s |-> "s0", code |-> code], O("p_wait_stopped", "s0")>>)
             \o RIds(kind) \o (IF ending \in {"reset", "reset_pending"} THEN <<O("a_poll_data", "s0")>> \o RIds(kind) ELSE <<>>)]
Endings == {"fin", "reset", "reset_pending", "stop_pending", "stop"}

(* ---- fault programs ---- *)
\* the adapter's state when the fault strikes: s0 idle, s1 with a read pending, s2 with a write blocked on flow control (window 64)
Prepare == <<[op |-> "a_open_bidi", s |-> "s0", split |-> TRUE, via |-> "opener"], Send("s0", 1, 1, "data"), Ready("s0", 0),
             [op |-> "a_open_bidi", s |-> "s1", split |-> FALSE, via |-> "conn"], Send("s1", 1, 2, "data"), Ready("s1", 0),
             [op |-> "a_open_uni", s |-> "s2", via |-> "opener"], Send("s2", 300, 3, "data"), O("a_ready_once", "s2"),
             [op |-> "p_read", s |-> "s0", n |-> 10], [op |-> "p_read", s |-> "s1", n |-> 10], [op |-> "p_read", s |-> "s2", n |-> 10],
             O("a_poll_data_once", "s1"), [op |-> "a_accept_uni", s |-> "x0", once |-> TRUE], [op |-> "a_read_datagram", once |-> TRUE]>>
AfterConnFault == <<O("a_poll_data", "s1"), O("a_recv_id", "s1"), Ready("s2", 0), O("a_send_id", "s2"), O("a_poll_data", "s0"),
                    Send("s0", 2, 4, "data"), Ready("s0", 0), O("a_accept_uni", "x1"), O("a_accept_bidi", "x2"),
                    [op |-> "a_open_bidi", s |-> "x3", split |-> TRUE, via |-> "opener"], [op |-> "a_open_uni", s |-> "x4", via |-> "conn"],
                    [op |-> "a_read_datagram"], O("a_send_id", "s0"), O("a_recv_id", "s0")>>
CloseProgram(role, code) ==
    [fam |-> "E", a_role |-> role, win |-> Win(64), idle_ms |-> 0, ops |-> Prepare \o <<[op |-> "p_close", code |-> code]>> \o AfterConnFault]
TimeoutProgram(role) ==
    [fam |-> "E", a_role |-> role, win |-> Win(64), idle_ms |-> 150, ops |-> Prepare \o AfterConnFault]
StopProgram(role, code, blocked) ==
    [fam |-> "E", a_role |-> role, win |-> Win(64), idle_ms |-> 0,
     ops |-> <<[op |-> "a_open_bidi", s |-> "s0", split |-> TRUE, via |-> "opener"], [op |-> "a_open_uni", s |-> "s1", via |-> "opener"],
               Send("s0", 1, 1, "data"), Ready("s0", 0), Send("s1", 1, 2, "data"), Ready("s1", 0),
               [op |-> "p_read", s |-> "s0", n |-> 10], [op |-> "p_read", s |-> "s1", n |-> 10]>>
             \o (IF blocked THEN <<Send("s0", 300, 3, "data"), O("a_ready_once", "s0"), [op |-> "p_stop", s |-> "s0", code |-> code], Ready("s0", 0)>>
                            ELSE <<[op |-> "p_stop", s |-> "s0", code |-> code], [op |-> "a_write_until_err", s |-> "s0", len |-> 8]>>)
             \* the stream stays usable as an object: a new write is accepted and fails with the stream-level error again; the other stream is untouched
             \o <<Send("s0", 3, 4, "data"), Ready("s0", 0), Send("s0", 2, 5, "headers"), O("a_ready_once", "s0"), O("a_send_id", "s0"), O("a_recv_id", "s0"),
                  Send("s1", 20, 6, "data"), Ready("s1", 5), O("a_finish", "s1"), [op |-> "p_read_to_end", s |-> "s1", n |-> 100]>>]
ResetByAdapter(role, code) ==
    [fam |-> "E", a_role |-> role, win |-> Win(0), idle_ms |-> 0,
     ops |-> <<[op |-> "a_open_uni", s |-> "s0", via |-> "opener"], Send("s0", 10, 1, "data"), Ready("s0", 0), [op |-> "p_read", s |-> "s0", n |-> 4],
               [op |-> "a_reset", s |-> "s0", code |-> code], O("a_send_id", "s0"), [op |-> "p_read_to_end", s |-> "s0", n |-> 100]>>]

DatagramProgram(role, len) ==
    [fam |-> "D", a_role |-> role, win |-> Win(0), idle_ms |-> 0,
     ops |-> <<[op |-> "a_send_datagram", sid |-> 0, len |-> len, tag |-> 1], [op |-> "p_read_datagram"],
               [op |-> "a_send_datagram", sid |-> 1020, len |-> len + 1, tag |-> 2], [op |-> "p_read_datagram"],
               [op |-> "p_send_datagram", len |-> len, tag |-> 3], [op |-> "a_read_datagram"],
               [op |-> "a_read_datagram", once |-> TRUE]>>]
AdapterClose(role, code) ==
    [fam |-> "D", a_role |-> role, win |-> Win(0), idle_ms |-> 0,
     ops |-> <<[op |-> "a_open_uni", s |-> "s0", via |-> "opener"], Send("s0", 1, 1, "data"), Ready("s0", 0), [op |-> "p_read", s |-> "s0", n |-> 10],
               [op |-> "a_close", code |-> code]>>]

VARIABLE out
Init == out = <<>>
Seqs(S, n) == UNION {[1..k -> S] : k \in 1..n}
Next == /\ out = <<>>
        /\ \/ \E role \in Roles, kind \in {"bidi", "uni"}, split \in BOOLEAN, w \in Windows, u \in {u \in UnitChoices : UnitOk(u)} :
                 /\ (kind = "uni" => split)
                 /\ out' = SendProgram(role, kind, split, w, <<u>>)
           \* several units behind each other: the slot is reused, boundaries between units fall anywhere relative to Quinn's writes
           \/ \E role \in Roles, w \in Windows, units \in Seqs({u \in UnitChoices : UnitOk(u) /\ u.len \in MultiLens /\ ~u.ids /\ u.step = 7 /\ (Full \/ u.polls = 0)}, MaxUnits) :
                 /\ Len(units) > 1 /\ (Full \/ role = "client")
                 /\ out' = SendProgram(role, "bidi", TRUE, w, units)
           \/ \E role \in Roles, w \in Windows, l1 \in Lens, l2 \in Lens : out' = TwoStreams(role, w, l1, l2)
           \/ \E role \in Roles, w \in Windows, len \in Lens \ {0}, split \in BOOLEAN : out' = PollSendProgram(role, w, len, split)
           \/ \E role \in Roles, split \in BOOLEAN, len \in {300, 4000}, readn \in {40, 64} : out' = UnframedDuringUnit(role, split, len, readn)
           \/ \E role \in Roles, opener \in {"a", "p"}, kind \in {"bidi", "uni"}, split \in BOOLEAN, ending \in Endings, code \in Codes, pf \in BOOLEAN :
                 /\ (kind = "uni" => split /\ opener = "p")
                 /\ (ending = "fin" => code = FromInt(0))
                 /\ (Full \/ code \in {FromInt(268), Max62} \/ ending = "fin")
                 /\ out' = RecvProgram(role, opener, kind, split, ending, code, pf)
           \/ \E role \in Roles, code \in Codes : out' = CloseProgram(role, code)
           \/ \E role \in Roles : out' = TimeoutProgram(role)
           \/ \E role \in Roles, code \in Codes, blocked \in BOOLEAN : out' = StopProgram(role, code, blocked)
           \/ \E role \in Roles, code \in Codes : out' = ResetByAdapter(role, code)
           \/ \E role \in Roles, len \in {0, 1, 1000} : out' = DatagramProgram(role, len)
           \/ \E role \in Roles, code \in Codes : out' = AdapterClose(role, code)
Spec == Init /\ [][Next]_out
Emit == out = <<>> \/ PrintT(<<"SCN", ToJson(out)>>)
=============================================================================
