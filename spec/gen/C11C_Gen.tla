------------------------------ MODULE C11C_Gen ------------------------------
(* Connection-level part of C11: a field section that the RFC 9204 reference decoder refuses (dynamic-table reference,  *)
(* non-zero Required Insert Count, static index out of range, truncated or oversized integer or string) arrives as the    *)
(* request head, the response head, or a trailer section - the endpoint must treat it as the connection error           *)
(* QPACK_DECOMPRESSION_FAILED (0x200), whatever role it plays and wherever the section stands.                          *)
EXTENDS H3Message, H3Frame, Json, TLC

Bad == { <<0, 0, 128>>,                       \* indexed field line, dynamic table (T = 0)
         <<1, 0, 209>>,                       \* Required Insert Count 1 with an otherwise valid section
         <<0, 0, 255, 100>>,                  \* static index 163
         <<0, 0, 255>>,                       \* truncated index integer
         <<0, 0, 81, 5, 97>>,                 \* value length 5, one byte follows
         <<0, 0, 255, 128, 128, 128, 128, 128, 128, 128, 128, 128, 128, 2>>,    \* integer beyond 2^64
         <<0, 0, 16>>,                        \* indexed field line with post-base index (dynamic)
         <<0, 0, 64, 1, 97>> }                \* literal with name reference, dynamic table
ASSUME \A b \in Bad : DecodeSection(b).v = "reject"
GoodReq == RefSection(<< <<N_METHOD, <<71, 69, 84>>>>, <<N_SCHEME, <<104, 116, 116, 112, 115>>>>, <<N_AUTHORITY, <<97>>>>, <<N_PATH, <<47>>>> >>, FALSE)
GoodResp == RefSection(<< <<N_STATUS, <<50, 48, 48>>>> >>, FALSE)
GETm == <<71, 69, 84>>
Uri == <<104, 116, 116, 112, 115, 58, 47, 47, 97, 47>>
ReqProg == <<[op |-> "send_request", method |-> GETm, uri |-> Uri, fields |-> <<>>], [op |-> "finish"], [op |-> "recv_response"], [op |-> "recv_body"], [op |-> "recv_trailers"]>>

Scn(role, pos, b) ==
    LET head == IF role = "server" THEN GoodReq ELSE GoodResp
        bytes == IF pos = "head" THEN Frame(1, b) ELSE Frame(1, head) \o Frame(0, <<120>>) \o Frame(1, b)
        pre == IF role = "client" THEN <<[op |-> "request", task |-> "r1", prog |-> ReqProg]>> ELSE <<>>
    IN [role |-> role, pos |-> pos, section |-> b, cfg |-> [grease |-> FALSE],
        default_handler |-> <<[op |-> "resolve"], [op |-> "recv_body"], [op |-> "recv_trailers"]>>,
        steps |-> pre \o <<[op |-> "deliver", sid |-> 0, bytes |-> bytes], [op |-> "fin", sid |-> 0]>>]

VARIABLE out
Init == out = <<>>
Next == out = <<>> /\ \E role \in {"server", "client"}, pos \in {"head", "trailers"}, b \in Bad : out' = Scn(role, pos, b)
Spec == Init /\ [][Next]_out
Emit == out = <<>> \/ PrintT(<<"SCN", ToJson(out)>>)
=============================================================================
