------------------------------ MODULE C10_Gen ------------------------------
(* Scenario generator for C10: field-section size limit, both directions.                                          *)
(*  R (receiving): the endpoint is configured with a limit L; the scripted peer sends a message whose section size   *)
(*     sweeps L-2 .. L+2 (request / response head; one-field and three-field trailers, so that the +32 per field     *)
(*     matters), the peer's own advertised limit (for the 431 answer) being unlimited or tiny.                       *)
(*  S (sending): the peer advertises L in SETTINGS (before the attempt, after it, or while the attempt waits for     *)
(*     stream credit); the application tries to send a request / response / trailers whose size sweeps L-2 .. L+2.   *)
EXTENDS H3Message, H3Frame, Json

CONSTANT Tier

Pad(n) == [i \in 1..n |-> 97]
X == <<120>>
Y == <<121>>
Z == <<122>>
ReqBase == << <<N_METHOD, <<71, 69, 84>>>>, <<N_SCHEME, <<104, 116, 116, 112, 115>>>>, <<N_AUTHORITY, <<97>>>>, <<N_PATH, <<47>>>> >>
RespBase == << <<N_STATUS, <<50, 48, 48>>>> >>
ASSUME SectionSize(ReqBase) = 167 /\ SectionSize(RespBase) = 42
GET == <<71, 69, 84>>
Uri == <<104, 116, 116, 112, 115, 58, 47, 47, 97, 47>>

\* extra fields making a section of exactly size `s` on top of `base` bytes: one field x: pad, or three fields
Extra1(s, base) == << <<X, Pad(s - base - 33)>> >>                       \* needs s >= base + 33
Extra3(s, base) == << <<X, Pad(s - base - 99)>>, <<Y, <<>>>>, <<Z, <<>>>> >>   \* needs s >= base + 99
Sec(fields) == RefSection(fields, FALSE)

Limits == {0, 1, 41, 42, 43, 100, 207, 300}
Sweep(L) == { s \in (L - 2)..(L + 2) : s >= 0 }

SettingsStep(role, L) == [op |-> "deliver", sid |-> (IF role = "server" THEN 2 ELSE 3), bytes |-> <<0>> \o Frame(4, <<6>> \o EncodeInt(L))]
ReqProg(extra) == <<[op |-> "send_request", method |-> GET, uri |-> Uri, fields |-> extra, on_err |-> "continue"]>>

(* ---- receiving -------------------------------------------------------------------------------------------------- *)
\* server with limit L receives a request of size s (>= 200 so that the padding field exists); then trailers of size t
ScnRecvReq(L, s, peerSmall) ==
    [part |-> "R", kind |-> "request", role |-> "server", cfg |-> [grease |-> FALSE, max_field |-> L], size |-> s, peer_limit_small |-> peerSmall,
     default_handler |-> <<[op |-> "resolve"], [op |-> "recv_body"], [op |-> "recv_trailers"]>>,
     steps |-> (IF peerSmall THEN <<SettingsStep("server", 41)>> ELSE <<>>)
               \o <<[op |-> "deliver", sid |-> 0, bytes |-> Frame(1, Sec(ReqBase \o Extra1(s, 167)))], [op |-> "fin", sid |-> 0]>>]
\* split: the trailers are read on the receiving half of a split stream; peerSmall: the peer has advertised a tiny limit of its own
\* (the receiver's limit is its OWN configured one, whatever the peer advertised and however the stream is used)
ScnRecvTrailersX(role, L, t, three, split, peerSmall) ==
    LET head == IF role = "server" THEN ReqBase ELSE RespBase
        tr == IF three THEN Extra3(t, 0) ELSE Extra1(t, 0)
        sr == [op |-> "send_request", method |-> GET, uri |-> Uri, fields |-> <<>>]
        rcv == <<[op |-> "recv_body"], [op |-> "recv_trailers"]>>
        cprog == IF split THEN <<sr, [op |-> "split", send |-> <<>>, recv |-> <<[op |-> "recv_response"]>> \o rcv]>> ELSE <<sr, [op |-> "recv_response"]>> \o rcv
        pre == IF role = "client" THEN <<[op |-> "request", task |-> "r1", prog |-> cprog]>> ELSE <<>>
    IN [part |-> "R", kind |-> "trailers", role |-> role, cfg |-> [grease |-> FALSE, max_field |-> L], size |-> t, head_size |-> SectionSize(head), split |-> split,
        default_handler |-> (IF split THEN <<[op |-> "resolve"], [op |-> "split", send |-> <<>>, recv |-> rcv]>> ELSE <<[op |-> "resolve"]>> \o rcv),
        \* (a client's own request, 167 bytes, must still fit the peer's limit)
        steps |-> (IF peerSmall THEN <<SettingsStep(role, IF role = "client" THEN 170 ELSE 41)>> ELSE <<>>)
                  \o pre \o <<[op |-> "deliver", sid |-> 0, bytes |-> Frame(1, Sec(head)) \o Frame(1, Sec(tr))], [op |-> "fin", sid |-> 0]>>]
ScnRecvTrailers(role, L, t, three) == ScnRecvTrailersX(role, L, t, three, FALSE, FALSE)
ScnRecvResp(L, s) ==
    [part |-> "R", kind |-> "response", role |-> "client", cfg |-> [grease |-> FALSE, max_field |-> L], size |-> s,
     steps |-> <<[op |-> "request", task |-> "r1", prog |-> <<[op |-> "send_request", method |-> GET, uri |-> Uri, fields |-> <<>>], [op |-> "recv_response"], [op |-> "recv_body"], [op |-> "recv_trailers"]>>],
                 [op |-> "deliver", sid |-> 0, bytes |-> Frame(1, Sec(RespBase \o Extra1(s, 42)))], [op |-> "fin", sid |-> 0]>>]

(* ---- sending ------------------------------------------------------------------------------------------------------ *)
\* when: "before" (SETTINGS first), "never" (defaults apply), "during" (attempt blocked on stream credit, SETTINGS arrive, credit granted)
ScnSendReq(L, s, when) ==
    LET req == [op |-> "request", task |-> "r1", prog |-> ReqProg(Extra1(s, 167))]
        set == SettingsStep("client", L)
    IN [part |-> "S", kind |-> "request", role |-> "client", size |-> s, limit |-> L, when |-> when,
        cfg |-> [grease |-> FALSE, bidi_credit |-> (IF when = "during" THEN 0 ELSE 100)],
        steps |-> CASE when = "before" -> <<set, req>>
                    [] when = "never" -> <<req>>
                    [] OTHER -> <<req, set, [op |-> "grant", uni |-> 0, bidi |-> 1]>>]
ScnSendResp(L, s, t, when) ==
    \* the server answers a delivered request with a response of size s and trailers of size t
    LET set == SettingsStep("server", L) IN
    \* (batch: the server answers each request before it polls accept() again)
    [part |-> "S", kind |-> "response", role |-> "server", size |-> s, tsize |-> t, limit |-> L, when |-> when, cfg |-> [grease |-> FALSE, inline_handlers |-> (when = "batch")],
     default_handler |-> <<[op |-> "resolve"], [op |-> "send_response", status |-> 200, fields |-> Extra1(s, 42)],
                           [op |-> "send_trailers", fields |-> Extra1(t, 0)]>> \o (IF when = "batch" THEN <<[op |-> "finish"]>> ELSE <<[op |-> "hold"]>>),
     \* "batch": the peer's SETTINGS and the request are both waiting when the endpoint runs for the first time
     steps |-> (CASE when = "before" -> <<set>> [] when = "batch" -> <<[op |-> "deliver", sid |-> 2, bytes |-> set.bytes, no_run |-> TRUE]>> [] OTHER -> <<>>)
               \o <<[op |-> "deliver", sid |-> 0, bytes |-> Frame(1, Sec(ReqBase)), no_run |-> (when = "batch")], [op |-> "fin", sid |-> 0]>>]
ScnSendReqTrailers(L, t, when) ==
    LET set == SettingsStep("client", L) IN
    [part |-> "S", kind |-> "reqtrailers", role |-> "client", size |-> 167, tsize |-> t, limit |-> L, when |-> when, cfg |-> [grease |-> FALSE],
     steps |-> (IF when = "before" THEN <<set>> ELSE <<>>)
               \o <<[op |-> "request", task |-> "r1", prog |-> <<[op |-> "send_request", method |-> GET, uri |-> Uri, fields |-> <<>>],
                                                                 [op |-> "send_trailers", fields |-> Extra1(t, 0)], [op |-> "hold"]>>]>>]

\* limits at the top of the range: the endpoint configured with 2^62-1, the peer advertising 2^62-1 / 2^30 (8-byte varints)
HugeSettings(role, v) == [op |-> "deliver", sid |-> (IF role = "server" THEN 2 ELSE 3), bytes |-> <<0>> \o Frame(4, <<6>> \o EncodeN(v, 8))]
ScnRecvReqHuge(s) ==
    [part |-> "R", kind |-> "request", role |-> "server", cfg |-> [grease |-> FALSE, max_field_huge |-> TRUE], size |-> s, peer_limit_small |-> FALSE,
     default_handler |-> <<[op |-> "resolve"], [op |-> "recv_body"], [op |-> "recv_trailers"]>>,
     steps |-> <<[op |-> "deliver", sid |-> 0, bytes |-> Frame(1, Sec(ReqBase \o Extra1(s, 167)))], [op |-> "fin", sid |-> 0]>>]
ScnSendReqHuge(v, s) ==
    [part |-> "S", kind |-> "request", role |-> "client", size |-> s, limit |-> 1000000000, when |-> "before", cfg |-> [grease |-> FALSE, bidi_credit |-> 100],
     steps |-> <<HugeSettings("client", v), [op |-> "request", task |-> "r1", prog |-> ReqProg(Extra1(s, 167))]>>]
More == Tier # "quick"
LimitsR == IF More THEN {207, 208, 256, 300, 500} ELSE {207, 300}
SweepT(L) == IF More THEN { s \in (L - 3)..(L + 3) : s >= 0 } ELSE Sweep(L)

VARIABLE out
Init == out = <<>>
Next == /\ out = <<>>
        /\ \/ \E L \in LimitsR : \E s \in SweepT(L), small \in BOOLEAN : out' = ScnRecvReq(L, s, small)
           \/ \E s \in {200, 400} : out' = ScnRecvReqHuge(s)
           \/ \E v \in {Max62, <<0,0,0,0,64,0,0,0>>, <<0,0,0,1,0,0,0,0>>}, s \in {200, 400} : out' = ScnSendReqHuge(v, s)
           \/ \E L \in {0, 1, 100, 166, 167, 168} : out' = ScnRecvReq(L, 200, FALSE)
           \/ \E L \in LimitsR : \E t \in SweepT(L), three \in BOOLEAN : out' = ScnRecvTrailers("server", L, t, three)
           \/ \E L \in {100, 207} : \E t \in Sweep(L), three \in BOOLEAN : t >= 99 /\ out' = ScnRecvTrailers("client", L, t, three)
           \/ \E L \in {42, 43, 74} : \E t \in Sweep(L) : t >= 33 /\ out' = ScnRecvTrailers("client", L, t, FALSE)
           \/ \E role \in {"server", "client"}, peerSmall \in BOOLEAN : \E t \in Sweep(207) : t >= 99 /\ out' = ScnRecvTrailersX(role, 207, t, FALSE, TRUE, peerSmall)
           \/ \E L \in ({100} \cup LimitsR) : \E s \in SweepT(L) : s >= 75 /\ out' = ScnRecvResp(L, s)
           \/ \E L \in {0, 41, 42, 43} : out' = ScnRecvResp(L, 75)
           \/ \E L \in LimitsR : \E s \in SweepT(L), when \in {"before", "never", "during"} : out' = ScnSendReq(L, s, when)
           \/ \E L \in {0, 1, 166, 167, 168} : \E when \in {"before", "during"} : out' = ScnSendReq(L, 200, when)
           \/ \E L \in ({100} \cup LimitsR) : \E s \in SweepT(L), when \in {"before", "never"} : s >= 75 /\ out' = ScnSendResp(L, s, 40, when)
           \/ \E L \in {100, 207} : \E s \in Sweep(L) : s >= 75 /\ out' = ScnSendResp(L, s, 40, "batch")
           \/ \E L \in {41, 100} : \E t \in Sweep(L), when \in {"before", "never"} : t >= 33 /\ out' = ScnSendResp(L, 75, t, when)
           \/ \E L \in {200} : \E t \in Sweep(L), when \in {"before", "never"} : t >= 33 /\ out' = ScnSendReqTrailers(L, t, when)
Spec == Init /\ [][Next]_out
Emit == out = <<>> \/ PrintT(<<"SCN", ToJson(out)>>)
=============================================================================
