------------------------------ MODULE C17H_Gen ------------------------------
(* Scenario generator for C17, error classes as they surface through h3 (family "H3CLS"): h3 over h3-quinn against a raw    *)
(* Quinn peer; an idle timeout, or an application close with a code at every variable-length-integer form boundary, arrives   *)
(* while h3 is still building the connection (the peer grants no unidirectional stream) or once it is established.            *)
EXTENDS Integers, Sequences, Json, TLC

Codes == {0, 63, 64, 268, 16383, 16384, 1073741823}
Conds == { [k |-> "timeout", code |-> -1] } \cup { [k |-> "close", code |-> c] : c \in Codes }

VARIABLE out
Init == out = <<>>
Next == out = <<>> /\ \E role \in {"client", "server"}, when \in {"build", "established"}, c \in Conds :
           out' = [fam |-> "H3CLS", role |-> role, when |-> when, cond |-> c]
Spec == Init /\ [][Next]_out
Emit == out = <<>> \/ PrintT(<<"SCN", ToJson(out)>>)
=============================================================================
