--------------------------- MODULE ClientLife_Gen ---------------------------
(* Scenario generator for the client life cycle: K request tasks, each keeping its SendRequest clone for the life of the    *)
(* request or only until the request is sent, the application's own handle dropped at any point, requests released, the   *)
(* peer's responses arriving - in every interleaving that respects the per-task order.                                    *)
EXTENDS Sequences, Integers, FiniteSets, Json, TLC

CONSTANT K
GET == <<71, 69, 84>>
Uri == <<104, 116, 116, 112, 115, 58, 47, 47, 97, 47>>
Resp == <<1, 3, 0, 0, 217>>       \* HEADERS { :status 200 }
Name(i) == "r" \o ToString(i)
Req(i, keep) == [op |-> "request", task |-> Name(i),
                 prog |-> <<[op |-> "send_request", method |-> GET, uri |-> Uri, fields |-> <<>>, keep_sender |-> keep], [op |-> "pause"], [op |-> "finish"], [op |-> "recv_response"]>>]
\* per task: spawn, release, response;  plus the application's own handle
\* (with three tasks the responses are left out: the number of interleavings grows too fast otherwise)
TaskSeq(i, keep) == IF K <= 2 THEN <<Req(i, keep), [op |-> "poke", task |-> Name(i)], [op |-> "deliver", sid |-> 4 * (i - 1), bytes |-> Resp], [op |-> "fin", sid |-> 4 * (i - 1)]>>
                    ELSE <<Req(i, keep), [op |-> "poke", task |-> Name(i)]>>
RECURSIVE Interleavings(_)
Interleavings(ss) ==
    IF \A i \in 1..Len(ss) : ss[i] = <<>> THEN { <<>> }
    ELSE UNION { { <<ss[i][1]>> \o rest : rest \in Interleavings([ss EXCEPT ![i] = Tail(ss[i])]) } : i \in { j \in 1..Len(ss) : ss[j] # <<>> } }

VARIABLE out
Init == out = <<>>
\* request streams get their ids in the order the requests are SENT, so tasks are spawned in index order
Pos(inter, t) == CHOOSE a \in 1..Len(inter) : inter[a].op = "request" /\ inter[a].task = t
Next == /\ out = <<>>
        /\ \E n \in 0..K : \E keeps \in [1..n -> BOOLEAN] :
              \E inter \in Interleavings([i \in 1..(n + 1) |-> IF i <= n THEN TaskSeq(i, keeps[i]) ELSE <<[op |-> "drop_sender"]>>]) :
                 /\ \A i \in 1..n, j \in 1..n : i < j => Pos(inter, Name(i)) < Pos(inter, Name(j))
                 \* every request is spawned while the application still holds its handle (the other case is the Late scenario)
                 /\ \A i \in 1..n : Pos(inter, Name(i)) < (CHOOSE a \in 1..Len(inter) : inter[a].op = "drop_sender")
                 /\ out' = [role |-> "client", cfg |-> [grease |-> FALSE], keeps |-> keeps,
                            steps |-> <<[op |-> "deliver", sid |-> 3, bytes |-> <<0, 4, 0>>]>> \o inter]
Late == /\ out = <<>>
        /\ out' = [role |-> "client", cfg |-> [grease |-> FALSE], keeps |-> <<>>,
                   steps |-> <<[op |-> "deliver", sid |-> 3, bytes |-> <<0, 4, 0>>], [op |-> "drop_sender"], Req(1, FALSE)>>]
Spec == Init /\ [][Next \/ Late]_out
Emit == out = <<>> \/ PrintT(<<"SCN", ToJson(out)>>)
=============================================================================
