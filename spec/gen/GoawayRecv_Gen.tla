--------------------------- MODULE GoawayRecv_Gen ---------------------------
(* C08, client side: every sequence of up to 3 received GOAWAY identifiers over                                   *)
(*   {0, 4, 8, 1, 2, 3, 2^62-4, 2^62-1} (varints in their shortest form and, for the small ones, the 8-byte form)  *)
(* after SETTINGS on the server's control stream, followed by a probe request.  Judged by PeerStreams (C04_Trace): *)
(* a non-request identifier or an identifier larger than an earlier one is H3_ID_ERROR, otherwise the client        *)
(* starts no new request (RemoteClosing).                                                                          *)
EXTENDS H3Frame, Json, TLC

IdBytes == { <<0>>, <<4>>, <<8>>, <<1>>, <<2>>, <<3>>, <<192, 0, 0, 0, 0, 0, 0, 4>>,
             <<255, 255, 255, 255, 255, 255, 255, 252>>, <<255, 255, 255, 255, 255, 255, 255, 255>> }
GA(idb) == <<7, Len(idb)>> \o idb

GET == <<71, 69, 84>>
Uri == <<104, 116, 116, 112, 115, 58, 47, 47, 97, 47>>
Probe == <<[op |-> "request", task |-> "probe", prog |-> <<[op |-> "send_request", method |-> GET, uri |-> Uri, fields |-> <<>>], [op |-> "hold"]>>]>>

VARIABLES seq, out
Init == seq = <<>> /\ out = <<>>
Extend == out = <<>> /\ Len(seq) < 3 /\ \E b \in IdBytes : seq' = Append(seq, b) /\ UNCHANGED out
Finish == /\ out = <<>>
          \* (with grease and credit for exactly three unidirectional streams the client's grease stream stays pending while the GOAWAYs
          \*  are read: control frames must be processed all the same)
          /\ \E oneChunk \in BOOLEAN, gc \in {<<FALSE, 100>>, <<TRUE, 100>>, <<TRUE, 3>>} :
               LET frames == [i \in 1..Len(seq) |-> GA(seq[i])]
                   flat == LET RECURSIVE F(_) F(i) == IF i > Len(frames) THEN <<>> ELSE frames[i] \o F(i + 1) IN F(1)
                   dl == IF oneChunk THEN <<[op |-> "deliver", sid |-> 3, bytes |-> <<0, 4, 0>> \o flat]>>
                         ELSE <<[op |-> "deliver", sid |-> 3, bytes |-> <<0, 4, 0>>]>> \o [i \in 1..Len(frames) |-> [op |-> "deliver", sid |-> 3, bytes |-> frames[i]]]
               IN out' = [part |-> "G", role |-> "client", cfg |-> [grease |-> gc[1], uni_credit |-> gc[2], write |-> "all"], ids |-> seq, steps |-> dl \o Probe]
          /\ UNCHANGED seq
Next == Extend \/ Finish
Spec == Init /\ [][Next]_<<seq, out>>
Emit == out = <<>> \/ PrintT(<<"SCN", ToJson(out)>>)
=============================================================================
