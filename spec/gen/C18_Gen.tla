------------------------------ MODULE C18_Gen ------------------------------
(* Vector generator for C18 (HTTP Datagrams).                                                       *)
EXTENDS Datagram, Json, TLC
CONSTANT MaxK       \* quarter ids 0..MaxK are enumerated exhaustively

Ks == { FromInt(k) : k \in 0..MaxK } \cup
      { FromInt(63), FromInt(64), FromInt(16383), FromInt(16384), FromInt(1073741823), FromInt(1073741824),
        Sub(Max60, FromInt(1)), Max60, Pow2(32), Pow2(59), FromInt(1000000) }
Payloads == { <<>>, <<0>>, <<255>>, <<1, 2>>, <<0, 64, 128, 192, 255, 7>> }
BigKs == { FromInt(0), FromInt(63), FromInt(64), FromInt(16383), FromInt(16384), FromInt(1073741823), FromInt(1073741824), Max60 }
Long == [i \in 1..1500 |-> (i * 7 + 3) % 256]

EncVec(k, p) == [fn |-> "dgenc", sid |-> MulSmall(k, 4), payload |-> p, exp |-> [bytes |-> Enc(MulSmall(k, 4), p)]]

DecExp(bs) == LET d == Dec(bs) IN IF d.ok THEN [ok |-> TRUE, sid |-> d.sid, payload |-> d.payload]
                                          ELSE [ok |-> FALSE, code |-> "H3_DATAGRAM_ERROR"]
DecVec(bs) == [fn |-> "dgdec", in |-> bs, exp |-> DecExp(bs)]
TailSet == { <<>>, <<0>>, <<255>>, <<9, 8>>, <<0,0,0,0,0,0,0>>, <<255,255,255,255,255,255,255>>, <<255,255,255,255,255,255,255, 5>>,
             <<1,2,3>>, <<0,0,0>>, <<255,255,255, 4>> }
DecInputs == { <<>> } \cup { <<a>> : a \in Byte } \cup { <<a, b>> : a \in Byte, b \in Byte }
             \cup { <<a>> \o t : a \in Byte, t \in TailSet }
             \cup { EncodeN(q, 8) \o <<7>> : q \in { Sub(Max60, FromInt(1)), Max60, Pow2(60), Add(Pow2(60), FromInt(1)), Max62 } }

\* consumption patterns: every composition of the total length into positive advances (payload length <= 3)
RECURSIVE Compositions(_)
Compositions(n) == IF n = 0 THEN { <<>> }
                   ELSE UNION { { <<a>> \o c : c \in Compositions(n - a) } : a \in 1..n }
ConsKs == { FromInt(0), FromInt(63), FromInt(64), FromInt(16384), FromInt(1073741824) }
ConsPayloads == { <<>>, <<9>>, <<9, 8>>, <<9, 8, 7>> }
ConsVec(k, p, pat) == [fn |-> "dgcons", sid |-> MulSmall(k, 4), payload |-> p, pattern |-> pat]

VARIABLE vec
Init == vec = [fn |-> "start"]
Next == /\ vec.fn = "start"
        /\ \/ \E k \in Ks : vec' = EncVec(k, <<1, 2>>)
           \/ \E k \in BigKs \cup {FromInt(1), FromInt(2), FromInt(65), Sub(Max60, FromInt(1))}, p \in Payloads : vec' = EncVec(k, p)
           \/ \E k \in BigKs : vec' = EncVec(k, Long)
           \/ \E bs \in DecInputs : vec' = DecVec(bs)
           \/ \E k \in ConsKs, p \in ConsPayloads :
                 \E pat \in Compositions(MinLen(k) + Len(p)) : vec' = ConsVec(k, p, pat)
Spec == Init /\ [][Next]_vec
Emit == vec.fn = "start" \/ PrintT(<<"SCN", ToJson(vec)>>)

\* design check: decoding an encoding gives back stream id and payload
ASSUME \A k \in BigKs \cup {FromInt(1), FromInt(2)}, p \in Payloads :
          LET S == MulSmall(k, 4) IN Dec(Enc(S, p)) = [ok |-> TRUE, sid |-> S, payload |-> p]
=============================================================================
