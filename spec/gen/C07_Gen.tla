------------------------------ MODULE C07_Gen ------------------------------
(* Scenario generator for C07: two (three in the thorough tier) concurrent requests on one server connection, one      *)
(* healthy, the others suffering a stream-scoped fault - peer RESET (several codes) at five positions, STOP_SENDING,     *)
(* a validly encoded but malformed field section, a section over the limit, FIN before HEADERS, malformed trailers,      *)
(* handles dropped by the application - in every interleaving of the per-stream event sequences; plus a client with      *)
(* two requests one of whose responses is faulty; plus "lagging reader" schedules in which chunks pile up inside h3       *)
(* before a RESET arrives.                                                                                                *)
EXTENDS H3Message, H3Frame, Json, TLC

CONSTANT NStreams

ReqSec == RefSection(<< <<N_METHOD, <<71, 69, 84>>>>, <<N_SCHEME, <<104, 116, 116, 112, 115>>>>, <<N_AUTHORITY, <<97>>>>, <<N_PATH, <<47>>>> >>, FALSE)
BadSec == RefSection(<< <<<<120>>, <<121>>>> >>, FALSE)                                  \* no :method
BigSec == RefSection(<< <<N_METHOD, <<71, 69, 84>>>>, <<N_SCHEME, <<104, 116, 116, 112, 115>>>>, <<N_AUTHORITY, <<97>>>>, <<N_PATH, <<47>>>>, <<<<120>>, [i \in 1..300 |-> 97]>> >>, FALSE)
BadTrl == RefSection(<< <<<<88>>, <<121>>>> >>, FALSE)                                   \* uppercase name in trailers
EmptyNameSec == <<0, 0, 32, 1, 120>>                                                     \* 00 00 | literal field line, literal name of length 0 | value "x"
Body == <<104, 101, 108, 108, 111>>
H == Frame(1, ReqSec)
D == Frame(0, Body)

Dl(bs) == [op |-> "deliver", bytes |-> bs]
FIN == [op |-> "fin"]
RST(c) == [op |-> "reset", code |-> c]
STP(c) == [op |-> "stop", code |-> c]

Healthy == <<Dl(H), Dl(D), FIN>>
Codes == {0, 268, 16962}
\* faulty scripts: <<kind, code, events>>
Faulty ==
    { <<"reset", c, <<RST(c)>>>> : c \in Codes }                                                     \* before HEADERS
    \cup { <<"reset", 268, <<Dl(SubSeq(H, 1, 4)), RST(268)>>>> }                                     \* inside the HEADERS frame
    \cup { <<"reset", 268, <<Dl(H), RST(268)>>>> }                                                   \* between frames
    \cup { <<"reset", c, <<Dl(H), Dl(SubSeq(D, 1, 4)), RST(c)>>>> : c \in {268, 16962} }             \* inside a DATA payload
    \cup { <<"reset", 268, <<Dl(H), Dl(D), RST(268)>>>> }                                            \* after the last frame
    \cup { <<"stop", c, <<Dl(H), STP(c), Dl(D), FIN>>>> : c \in {0, 268} }
    \cup { <<"stop", 268, <<STP(268), Dl(H), Dl(D), FIN>>>> }
    \cup { <<"malformed", 0, <<Dl(Frame(1, EmptyNameSec)), FIN>>>>,                                  \* a field line whose literal name is empty
           <<"badtrailers", 0, <<Dl(H), Dl(D), Dl(Frame(1, EmptyNameSec)), FIN>>>>,
           <<"stoptrl", 268, <<Dl(H), Dl(D), FIN, STP(268), [op |-> "poke"]>>>> }                    \* STOP_SENDING between the last body write and the trailers
    \cup { <<"malformed", 0, <<Dl(Frame(1, BadSec)), FIN>>>>, <<"oversize", 0, <<Dl(Frame(1, BigSec)), FIN>>>>,
           <<"finfirst", 0, <<FIN>>>>, <<"badtrailers", 0, <<Dl(H), Dl(D), Dl(Frame(1, BadTrl)), FIN>>>>,
           <<"dropres", 0, Healthy>>, <<"dropstream", 0, Healthy>> }

Full == <<[op |-> "resolve"], [op |-> "recv_body"], [op |-> "recv_trailers"], [op |-> "send_response", status |-> 200, fields |-> <<>>],
          [op |-> "send_data", bytes |-> <<111, 107>>], [op |-> "finish"]>>
WithTrailers == <<[op |-> "resolve"], [op |-> "recv_body"], [op |-> "recv_trailers"], [op |-> "send_response", status |-> 200, fields |-> <<>>],
                  [op |-> "send_data", bytes |-> <<111, 107>>], [op |-> "pause"], [op |-> "send_trailers", fields |-> << <<<<116>>, <<49>>>> >>], [op |-> "finish"]>>
HandlerOf(kind) == CASE kind = "dropres" -> <<[op |-> "drop"]>>
                     [] kind = "stoptrl" -> WithTrailers
                     [] kind = "dropstream" -> <<[op |-> "resolve"], [op |-> "drop"]>>
                     [] OTHER -> Full

WithSid(ev, sid) == CASE ev.op = "deliver" -> [op |-> "deliver", sid |-> sid, bytes |-> ev.bytes]
                      [] ev.op = "fin" -> [op |-> "fin", sid |-> sid]
                      [] ev.op = "reset" -> [op |-> "reset", sid |-> sid, code |-> ev.code]
                      [] ev.op = "poke" -> [op |-> "poke", task |-> "h" \o ToString(sid)]
                      [] OTHER -> [op |-> "stop", sid |-> sid, code |-> ev.code]
RECURSIVE Interleavings(_)
Interleavings(ss) ==
    IF \A i \in 1..Len(ss) : ss[i] = <<>> THEN { <<>> }
    ELSE UNION { { <<ss[i][1]>> \o rest : rest \in Interleavings([ss EXCEPT ![i] = Tail(ss[i])]) } : i \in { j \in 1..Len(ss) : ss[j] # <<>> } }

\* streams: sequence of <<kind, code, events>>; "healthy" kind for the healthy one. The first event of a stream opens it, so
\* accept order = order of first events.
Scn(streams, inter) ==
    [part |-> "I", role |-> "server", cfg |-> [grease |-> FALSE, max_field |-> 300],
     kinds |-> [i \in 1..Len(streams) |-> streams[i][1]], codes |-> [i \in 1..Len(streams) |-> streams[i][2]],
     handlers_by_sid |-> [i \in 1..Len(streams) |-> HandlerOf(streams[i][1])], steps |-> inter]

\* lagging reader: the application reads one piece, then pauses while more chunks and the RESET arrive
Lag(c) ==
    [part |-> "L", role |-> "server", cfg |-> [grease |-> FALSE], kinds |-> <<"reset", "healthy">>, codes |-> <<c, 0>>,
     handlers_by_sid |-> << <<[op |-> "resolve"], [op |-> "recv_data"], [op |-> "pause"], [op |-> "recv_body"], [op |-> "recv_trailers"]>>, Full >>,
     steps |-> <<[op |-> "deliver", sid |-> 0, bytes |-> H \o <<0, 30>> \o [i \in 1..10 |-> 65], no_run |-> TRUE],
                 [op |-> "deliver", sid |-> 0, bytes |-> [i \in 1..10 |-> 66], no_run |-> TRUE],
                 [op |-> "deliver", sid |-> 4, bytes |-> H \o D], [op |-> "fin", sid |-> 4],
                 [op |-> "reset", sid |-> 0, code |-> c], [op |-> "poke", task |-> "h0"]>>]

(* ---- client side: two requests, the scripted server answers one properly and the other one faultily ------------------------ *)
RespSec == RefSection(<< <<N_STATUS, <<50, 48, 48>>>> >>, FALSE)
BadResp == RefSection(<< <<<<120>>, <<121>>>> >>, FALSE)                                  \* no :status
BigResp == RefSection(<< <<N_STATUS, <<50, 48, 48>>>>, <<<<120>>, [i \in 1..300 |-> 97]>> >>, FALSE)
HR == Frame(1, RespSec)
HealthyR == <<Dl(HR), Dl(D), FIN>>
FaultyR ==
    { <<"reset", c, <<RST(c)>>>> : c \in Codes }                                                     \* before the response head
    \cup { <<"reset", 268, <<Dl(SubSeq(HR, 1, 3)), RST(268)>>>> }                                    \* inside the HEADERS frame
    \cup { <<"reset", c, <<Dl(HR), Dl(SubSeq(D, 1, 4)), RST(c)>>>> : c \in {268, 16962} }            \* inside a DATA payload
    \cup { <<"reset", 268, <<Dl(HR), Dl(D), RST(268)>>>> }                                           \* after the last frame
    \cup { <<"malformed", 0, <<Dl(Frame(1, BadResp) \o D), Dl(D)>>>>, <<"oversize", 0, <<Dl(Frame(1, BigResp) \o D), Dl(D)>>>>,
           <<"badtrailers", 0, <<Dl(HR), Dl(D), Dl(Frame(1, BadTrl)), FIN>>>>,
           <<"malformed", 0, <<Dl(Frame(1, EmptyNameSec) \o D), Dl(D)>>>>, <<"badtrailers", 0, <<Dl(HR), Dl(D), Dl(Frame(1, EmptyNameSec)), FIN>>>>,
           <<"stoptrl", 268, <<STP(268), [op |-> "poke"]>> \o HealthyR>>,
           <<"stop", 268, <<STP(268)>> \o HealthyR>>, <<"stop", 0, <<STP(0)>> \o HealthyR>>, <<"dropstream", 0, HealthyR>> }
GETm == <<71, 69, 84>>
Uri == <<104, 116, 116, 112, 115, 58, 47, 47, 97, 47>>
SendReq == [op |-> "send_request", method |-> GETm, uri |-> Uri, fields |-> <<>>]
FullC == <<SendReq, [op |-> "finish"], [op |-> "recv_response"], [op |-> "recv_body"], [op |-> "recv_trailers"]>>
\* a refused response: the application keeps the failed stream (it must not be the application's drop that stops the peer)
ProgOf(kind) == CASE kind \in {"malformed", "oversize"} -> <<SendReq, [op |-> "finish"], [op |-> "recv_response", on_err |-> "continue"], [op |-> "hold"]>>
                  [] kind = "stop" -> <<SendReq, [op |-> "pause"], [op |-> "send_data", bytes |-> Body], [op |-> "finish"], [op |-> "recv_response"], [op |-> "recv_body"], [op |-> "recv_trailers"]>>
                  [] kind = "stoptrl" -> <<SendReq, [op |-> "send_data", bytes |-> Body], [op |-> "pause"], [op |-> "send_trailers", fields |-> << <<<<116>>, <<49>>>> >>], [op |-> "finish"],
                                           [op |-> "recv_response"], [op |-> "recv_body"], [op |-> "recv_trailers"]>>
                  [] kind = "dropstream" -> <<SendReq, [op |-> "drop"]>>
                  [] OTHER -> FullC
TaskOf(k) == IF k = 1 THEN "h0" ELSE "h4"
ScnClient(streams, inter) ==
    [part |-> "C", role |-> "client", cfg |-> [grease |-> FALSE, max_field |-> 300],
     kinds |-> [i \in 1..2 |-> streams[i][1]], codes |-> [i \in 1..2 |-> streams[i][2]],
     steps |-> <<[op |-> "deliver", sid |-> 3, bytes |-> <<0, 4, 0>>]>>
               \o [k \in 1..2 |-> [op |-> "request", task |-> TaskOf(k), prog |-> ProgOf(streams[k][1])]]
               \o inter
               \* a request that waited with its body is released at the end
               \o [k \in 1..2 |-> [op |-> "poke", task |-> TaskOf(k)]]]

VARIABLE out
Init == out = <<>>
Next == /\ out = <<>>
        /\ \/ \E f \in Faulty, healthyFirst \in BOOLEAN :
                 LET streams == IF healthyFirst THEN << <<"healthy", 0, Healthy>>, f >> ELSE << f, <<"healthy", 0, Healthy>> >>
                     tagged == [k \in 1..2 |-> [i \in 1..Len(streams[k][3]) |-> WithSid(streams[k][3][i], 4 * (k - 1))]]
                 IN \E inter \in Interleavings(tagged) : out' = Scn(streams, inter)
           \/ NStreams >= 3 /\ \E f \in Faulty, g \in Faulty :
                 LET streams == << f, <<"healthy", 0, Healthy>>, g >>
                     tagged == [k \in 1..3 |-> [i \in 1..Len(streams[k][3]) |-> WithSid(streams[k][3][i], 4 * (k - 1))]]
                 IN Len(f[3]) + Len(g[3]) <= 4 /\ \E inter \in Interleavings(tagged) : out' = Scn(streams, inter)
           \/ \E c \in Codes : out' = Lag(c)
           \/ \E f \in FaultyR, healthyFirst \in BOOLEAN :
                 LET streams == IF healthyFirst THEN << <<"healthy", 0, HealthyR>>, f >> ELSE << f, <<"healthy", 0, HealthyR>> >>
                     tagged == [k \in 1..2 |-> [i \in 1..Len(streams[k][3]) |-> WithSid(streams[k][3][i], 4 * (k - 1))]]
                 IN \E inter \in Interleavings(tagged) : out' = ScnClient(streams, inter)
Spec == Init /\ [][Next]_out
Emit == out = <<>> \/ PrintT(<<"SCN", ToJson(out)>>)
=============================================================================
