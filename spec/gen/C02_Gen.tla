------------------------------ MODULE C02_Gen ------------------------------
(* Scenario generator for C02: wires built from frame templates (every known type, HTTP/2-reserved,       *)
(* reserved 0x1f*N+0x21 and unknown types; 1-, 2- and 4-byte length forms; payloads that are exactly the   *)
(* type's fields, one byte long, one byte short, empty; varint fields in all four forms), truncated at     *)
(* every byte, cut into chunks in several ways, with or without a clean end of stream.  The expected       *)
(* observation after every chunk and at the end is computed by H3Frame!Observe.                            *)
EXTENDS H3Frame, Json, TLC, SequencesExt

CONSTANT Depth       \* number of templates per wire (1 or 2; 3 in the thorough tier)
CONSTANT Shard, NShards

V4(n) == { EncodeN(FromInt(4), k) : k \in {1, 2, 4, 8} }     \* the value 4 in all four varint forms

\* payload variants per type: <<payload, declared-length-delta>> (delta 0: declared length = payload length)
SingleVarintPayloads ==
    { <<p, 0>> : p \in V4(4) }                                   \* exactly the field, every varint form
    \cup { <<p \o <<8>>, 0>> : p \in V4(4) }                     \* one extra byte inside the declared payload
    \cup { <<<<>>, 0>>, <<<<64>>, 0>>, <<<<128, 0, 0>>, 0>>, <<<<192, 0, 0, 0, 0, 0, 0>>, 0>> }  \* empty / cut short
SettingsPayloads ==
    { <<>>, <<6, 5>>, <<6, 5, 33, 0>>, <<6, 5, 6>>, <<6, 5, 6, 5>>, <<2, 0>>, <<6, 64>>, <<64, 6, 64, 5>>,
      <<33, 1, 33, 2>>, <<1, 0, 7, 0, 6, 9, 8, 1>> }
PushPromisePayloads == { <<4, 7, 1>>, <<4>>, <<>>, <<64>> }
DataPayloads == { <<>>, <<7>>, <<7, 1, 4>>, <<1, 1, 0, 4, 0>> }      \* payloads that look like frames
HeadersPayloads == { <<>>, <<7, 1>>, <<0, 0, 209>> }
OpaquePayloads == { <<>>, <<7, 1, 4>> }

LenForms == {1, 2, 4}
TypeBytes(t) == IF t < 64 THEN { EncodeN(FromInt(t), 1), EncodeN(FromInt(t), 2) } ELSE { EncodeInt(t) }

Tmpl(tb, ln, payload) == tb \o EncodeN(FromInt(Len(payload)), ln) \o payload

Templates ==
    UNION { { Tmpl(tb, ln, p[1]) : tb \in {EncodeInt(t)}, ln \in LenForms, p \in SingleVarintPayloads } : t \in {3, 7, 13} }
    \cup { Tmpl(EncodeInt(4), ln, p) : ln \in LenForms, p \in SettingsPayloads }
    \cup { Tmpl(EncodeInt(5), ln, p) : ln \in {1, 2}, p \in PushPromisePayloads }
    \cup { Tmpl(tb, ln, p) : tb \in TypeBytes(0), ln \in LenForms, p \in DataPayloads }
    \cup { Tmpl(tb, ln, p) : tb \in TypeBytes(1), ln \in LenForms, p \in HeadersPayloads }
    \cup UNION { { Tmpl(EncodeInt(t), ln, p) : ln \in {1, 2}, p \in OpaquePayloads } : t \in {2, 6, 8, 9} }
    \cup UNION { { Tmpl(EncodeInt(t), ln, p) : ln \in LenForms, p \in OpaquePayloads } : t \in {33, 64, 337, 16383} }
    \cup { EncodeN(FromInt(33), 8) \o <<1, 9>> }
    \* declared length larger than what follows on the wire
    \cup { <<0, 5, 1, 2>>, <<1, 5, 1, 2>>, <<7, 2, 4>>, <<33, 3, 1>>, <<4, 4, 6, 5>> }

\* second templates (fewer, to bound the product): the frame after tells whether the reader re-synchronised
Seconds == { Tmpl(EncodeInt(0), 1, <<9, 9>>), Tmpl(EncodeInt(1), 1, <<5>>), Tmpl(EncodeInt(7), 1, <<8>>),
             Tmpl(EncodeInt(33), 1, <<1>>), Tmpl(EncodeInt(3), 1, <<64, 1>>), Tmpl(EncodeInt(4), 1, <<>>), <<0, 0>> }

TemplateSeq == SetToSeq(Templates)
SecondSeq == SetToSeq(Seconds)

\* chunkings of a wire of length n: list of chunk lengths
Whole(n) == IF n = 0 THEN <<>> ELSE <<n>>
Bytewise(n) == [i \in 1..n |-> 1]
SplitAt(n, k) == <<k, n - k>>

RECURSIVE PrefixSums(_,_,_)
PrefixSums(cuts, i, acc) == IF i > Len(cuts) THEN <<>> ELSE <<acc + cuts[i]>> \o PrefixSums(cuts, i + 1, acc + cuts[i])

Exp(o) == [items |-> o.items, term |-> o.term, codes |-> o.codes]
Scn(wire, cuts, fin) ==
    [fn |-> "frames", wire |-> wire, cuts |-> cuts, fin |-> fin,
     exp |-> [inter |-> [k \in 1..Len(cuts) |-> Exp(Observe(SubSeq(wire, 1, PrefixSums(cuts, 1, 0)[k]), FALSE))],
              final |-> Exp(Observe(wire, fin))]]

VARIABLES stage, wire, scn
vars == <<stage, wire, scn>>

Init == stage = 0 /\ wire = <<>> /\ scn = <<>>

\* stage 0 -> pick the first template (sharded), stage 1 -> optionally a second, stage 2 -> truncate, stage 3 -> chunk + fin
PickFirst == /\ stage = 0
             /\ \E i \in 1..Len(TemplateSeq) : i % NShards = Shard /\ wire' = TemplateSeq[i]
             /\ stage' = 1 /\ UNCHANGED scn
PickSecond == /\ stage = 1
              /\ \/ wire' = wire
                 \/ Depth >= 2 /\ \E j \in 1..Len(SecondSeq) : wire' = wire \o SecondSeq[j]
              /\ stage' = 2 /\ UNCHANGED scn
Truncate == /\ stage = 2
            /\ \E k \in 1..Len(wire) : wire' = SubSeq(wire, 1, k)
            /\ stage' = 3 /\ UNCHANGED scn
Chunk == /\ stage = 3
         /\ LET n == Len(wire) IN
            \E cuts \in {Whole(n), Bytewise(n)} \cup { SplitAt(n, k) : k \in 1..(n - 1) }, fin \in BOOLEAN :
               scn' = Scn(wire, cuts, fin)
         /\ stage' = 4 /\ UNCHANGED wire
Next == PickFirst \/ PickSecond \/ Truncate \/ Chunk
Spec == Init /\ [][Next]_vars

Emit == stage # 4 \/ PrintT(<<"SCN", ToJson(scn)>>)

\* theorem of the oracle, checked on every generated wire: the observation of a prefix is consistent with the
\* observation of the whole (items of the prefix, minus a possibly incomplete last DATA item, are a prefix)
PrefixConsistent ==
    stage = 3 => \A k \in 0..Len(wire) :
        LET a == Observe(SubSeq(wire, 1, k), FALSE)
            b == Observe(wire, FALSE)
        IN a.term = "err" => (b.term = "err" /\ a.items = b.items)
=============================================================================
