SPECIFICATION Spec
CONSTANT Tier = "quick"
INVARIANT Emit
CHECK_DEADLOCK FALSE
