------------------------------ MODULE C11_Gen ------------------------------
(* Vector generator for C11: stateless QPACK field sections.                                                        *)
(*  qdec: byte strings offered to h3's decoder with the verdict of QpackBlock!DecodeSection:                          *)
(*        every string of 0..2 bytes after the prefix 00 00; 0..1 bytes after odd prefixes; every first byte x         *)
(*        representative tails; mutations of valid encodings (flip T, index 98/99/100, truncate everywhere,           *)
(*        lengthen the length field, Huffman flag on raw bytes, bad padding)                                           *)
(*  qenc: field lists handed to h3's encoder (fields that hit the static table by name+value, by name only, not at     *)
(*        all; empty / binary / long values); the produced bytes are judged by C11_Trace with the same decoder         *)
EXTENDS QpackBlock, Json, SequencesExt

CONSTANT Tier

Exp(bs) == LET d == DecodeSection(bs) IN
           IF d.v = "reject" THEN [v |-> "reject", why |-> d.why]
           ELSE [v |-> d.v, fields |-> d.fields]
QDec(bs) == [fn |-> "qdec", in |-> bs, exp |-> Exp(bs)]

B2 == { <<>> } \cup { <<a>> : a \in 0..255 } \cup { <<a, b>> : a \in 0..255, b \in 0..255 }
B1 == { <<>> } \cup { <<a>> : a \in 0..255 }
OddPrefixes == { <<0, 128>>, <<1, 0>>, <<5, 0>>, <<0, 127, 0>>, <<255, 0>>, <<0, 1>>, <<0>>, <<>> , <<255>>, <<0, 255>> }
Tails == { <<>>, <<0>>, <<1, 97>>, <<129, 31>>, <<1>>, <<2, 97>>, <<128>>, <<1, 97, 1, 98>>, <<127, 0>>, <<255>> }

\* valid encodings to mutate
Valid == { Prefix00 \o EncIndexedStatic(17), Prefix00 \o EncIndexedStatic(98), Prefix00 \o EncNameRefStatic(0, <<97, 46, 98>>, FALSE),
           Prefix00 \o EncNameRefStatic(95, <<97, 46, 98>>, TRUE), RefSection(<< <<<<120, 45, 97>>, <<118, 49>>>> >>, FALSE),
           RefSection(<< <<<<120, 45, 97>>, <<118, 49>>>> >>, TRUE),
           Prefix00 \o EncIndexedStatic(17) \o EncIndexedStatic(23) \o EncNameRefStatic(0, <<97>>, FALSE) \o EncIndexedStatic(1) \o EncLiteral(<<120>>, <<121>>, FALSE, TRUE) }
Truncations(bs) == { SubSeq(bs, 1, k) : k \in 0..Len(bs) }
SetByte(bs, i, b) == [bs EXCEPT ![i] = b]
Mutations(bs) == Truncations(bs)
                 \cup { SetByte(bs, 3, (bs[3] + d) % 256) : d \in {64, 128, 192, 16, 32, 1, 255} }         \* flip T / N / representation bits, bump index
                 \cup { SetByte(bs, Len(bs), (bs[Len(bs)] + d) % 256) : d \in {1, 2, 128, 255} }            \* corrupt the last byte (padding / value)
                 \cup { bs \o t : t \in { <<0>>, <<255>>, <<128>>, <<16>>, <<32>> } }                       \* trailing garbage
IndexEdges == { Prefix00 \o PI!EncodeInt(6, 3, i) : i \in {61, 62, 63, 97, 98, 99, 100, 16383} }
              \cup { Prefix00 \o PI!EncodeInt(4, 5, i) \o <<1, 97>> : i \in {14, 15, 16, 98, 99, 100} }
              \cup { Prefix00 \o PI!EncodeInt(6, 2, i) : i \in {0, 1} }                                      \* T = 0: dynamic
              \cup { Prefix00 \o <<255>> \o [k \in 1..n |-> 128] \o <<0>> : n \in {1, 8, 9, 10, 11} }        \* over-long index encodings

\* integers at and beyond the 64-bit bound in every integer position of a field line: static index (6-bit prefix), name-reference
\* index (4-bit), literal name length (3-bit), value length (7-bit, with enough bytes behind it for the wrapped value)
Cont(n, x) == [k \in 1..n |-> 128] \o <<x>>
BigInts == { Prefix00 \o <<255>> \o Cont(n, x) : n \in 7..11, x \in {0, 1, 2, 64, 127} }
           \cup { Prefix00 \o <<95>> \o Cont(n, x) \o <<1, 97>> : n \in 8..10, x \in {0, 1, 2, 127} }
           \cup { Prefix00 \o <<39>> \o Cont(n, x) \o [i \in 1..7 |-> 120] \o <<1, 97>> : n \in 8..10, x \in {0, 1, 2, 127} }
           \cup { Prefix00 \o <<81, 127>> \o Cont(n, x) \o [i \in 1..127 |-> 97] : n \in 8..10, x \in {0, 1, 2, 127} }

\* Huffman-coded names / values with bad padding inside otherwise complete field lines
HuffBad == { Prefix00 \o <<41, 255, 0>>, Prefix00 \o <<41, 254, 0>>, Prefix00 \o <<33, 120, 129, 255>>, Prefix00 \o <<33, 120, 129, 254>>,
             Prefix00 \o <<80, 129, 255>>, Prefix00 \o <<80, 130, 28, 127>>, Prefix00 \o <<80, 132, 255, 255, 255, 255>>, Prefix00 \o <<80, 130, 199, 255>> }
           \* an incomplete final code that begins in one byte (only ones there) and has a zero bit in a LATER byte: value after a static
           \* name, value after a literal name, and in a Huffman-coded name
           \cup { Prefix00 \o <<81, 130, 7, t>> : t \in {253, 254, 251, 127, 0} } \cup { Prefix00 \o <<81, 131, 7, 255, t>> : t \in {254, 127, 0} }
           \cup { Prefix00 \o <<81, 131, 28, 127, t>> : t \in {254, 253} }
           \cup { Prefix00 \o <<41, 31, 130, 7, 253>>, Prefix00 \o <<42, 7, 253, 0>>, Prefix00 \o <<42, 7, 254, 1, 97>> }

(* ---- encode --------------------------------------------------------------------------------------------------------- *)
Names == { StaticEntry(17)[1], StaticEntry(0)[1], StaticEntry(95)[1], StaticEntry(29)[1], <<120>>, <<120, 45, 108, 111, 110, 103>> \o [i \in 1..40 |-> 97] }
Values == { <<>>, <<97>>, StaticEntry(17)[2], StaticEntry(29)[2], <<0>>, <<255>>, [i \in 1..70 |-> (i * 37) % 256], [i \in 1..130 |-> 48 + (i % 10)] }
FieldsSet == { <<n, v>> : n \in Names, v \in Values }
QEnc(fs) == [fn |-> "qenc", in |-> fs]

VARIABLE vec
Init == vec = [fn |-> "start"]
Next == /\ vec.fn = "start"
        /\ \/ \E b \in B2 : vec' = QDec(Prefix00 \o b)
           \/ \E p \in OddPrefixes, b \in B1 : vec' = QDec(p \o b)
           \/ \E a \in 0..255, t \in Tails : vec' = QDec(Prefix00 \o <<a>> \o t)
           \/ \E v \in Valid : \E m \in Mutations(v) : vec' = QDec(m)
           \/ \E e \in IndexEdges \cup HuffBad \cup BigInts : vec' = QDec(e)
           \/ \E i \in 0..98 : vec' = QDec(Prefix00 \o EncIndexedStatic(i))
           \/ \E f \in FieldsSet : vec' = QEnc(<<f>>)
           \/ \E f \in FieldsSet, g \in { <<StaticEntry(1)[1], StaticEntry(1)[2]>>, <<<<120>>, <<97>>>> } : vec' = QEnc(<<f, g, f>>)
           \/ \E i \in 0..98 : vec' = QEnc(<<StaticEntry(i)>>)
           \* every static name with a value the table does not hold: the name reference must point at an entry with that name
           \/ \E i \in 0..98, v \in { <<122, 122>>, <<>> } : vec' = QEnc(<< <<StaticEntry(i)[1], v>> >>)
           \/ vec' = QEnc(<<>>)
Spec == Init /\ [][Next]_vec
Emit == vec.fn = "start" \/ PrintT(<<"SCN", ToJson(vec)>>)
=============================================================================
