------------------------------ MODULE C01_Gen ------------------------------
(* Scenario generator for C01 (and a source of traffic for C14): a real client and a real server joined by the        *)
(* simulated transport.  TLC enumerates request x response messages from a catalogue (methods, absolute- and           *)
(* authority-form targets, repeated and mixed-case header names, bodies in several pieces incl. empty ones, with and    *)
(* without trailers) x sender write-acceptance sizes x delivery chunk sizes x whole / split request streams.            *)
EXTENDS Sequences, Integers, Json, TLC

CONSTANT Tier

S(t) == t   \* ASCII tuples
GETm == <<71, 69, 84>>
POSTm == <<80, 79, 83, 84>>
PUTm == <<80, 85, 84>>
OPTm == <<79, 80, 84, 73, 79, 78, 83>>
CONm == <<67, 79, 78, 78, 69, 67, 84>>
HTTPS == <<104, 116, 116, 112, 115>>
HTTP == <<104, 116, 116, 112>>
WT == <<119, 101, 98, 116, 114, 97, 110, 115, 112, 111, 114, 116>>
Long300 == [i \in 1..300 |-> 97 + (i % 26)]

F(n, v) == <<n, v>>
X == <<120>>
Cookie == <<99, 111, 111, 107, 105, 101>>
Accept == <<97, 99, 99, 101, 112, 116>>

Requests == <<
  [method |-> GETm, uri |-> <<104,116,116,112,115,58,47,47,97,47>>, scheme |-> HTTPS, authority |-> <<97>>, path |-> <<47>>, protocol |-> <<>>,
   fields |-> <<>>, body |-> <<>>, trailers |-> <<>>, has_trailers |-> FALSE],
  [method |-> POSTm, uri |-> <<104,116,116,112,115,58,47,47,97,46,98,47,112,63,113,61,49>>, scheme |-> HTTPS, authority |-> <<97,46,98>>, path |-> <<47,112,63,113,61,49>>, protocol |-> <<>>,
   \* (field values are opaque octets: obs-text bytes 0x80..0xff that are not UTF-8 must survive - RFC 9110 5.5)
   fields |-> <<F(X, <<49>>), F(Accept, <<42,47,42>>), F(X, <<50>>), F(<<88,45,85,112>>, <<51>>), F(X, <<99,97,102,233>>), F(<<120,45,98,105,110>>, <<128,255,32,254>>)>>, body |-> <<5>>, trailers |-> <<>>, has_trailers |-> FALSE],
  [method |-> PUTm, uri |-> <<104,116,116,112,58,47,47,97,58,56,48,47>>, scheme |-> HTTP, authority |-> <<97,58,56,48>>, path |-> <<47>>, protocol |-> <<>>,
   fields |-> <<F(Cookie, <<97,61,98>>), F(Cookie, <<99,61,100>>)>>, body |-> <<1, 0, 70>>, trailers |-> <<F(<<116>>, <<49>>), F(<<116>>, <<50>>)>>, has_trailers |-> TRUE],
  [method |-> OPTm, uri |-> <<104,116,116,112,115,58,47,47,97,47,120>>, scheme |-> HTTPS, authority |-> <<97>>, path |-> <<47,120>>, protocol |-> <<>>,
   fields |-> <<F(X, Long300)>>, body |-> <<0>>, trailers |-> <<>>, has_trailers |-> TRUE],
  [method |-> CONm, uri |-> <<97,46,98,58,52,52,51>>, scheme |-> <<>>, authority |-> <<97,46,98,58,52,52,51>>, path |-> <<>>, protocol |-> <<>>,
   fields |-> <<>>, body |-> <<3>>, trailers |-> <<>>, has_trailers |-> FALSE],
  [method |-> CONm, uri |-> <<104,116,116,112,115,58,47,47,97,47,119,116>>, scheme |-> HTTPS, authority |-> <<97>>, path |-> <<47,119,116>>, protocol |-> WT,
   fields |-> <<>>, body |-> <<>>, trailers |-> <<>>, has_trailers |-> FALSE],
  [method |-> POSTm, uri |-> <<104,116,116,112,115,58,47,47,97,47>>, scheme |-> HTTPS, authority |-> <<97>>, path |-> <<47>>, protocol |-> <<>>,
   fields |-> <<>>, body |-> <<3000, 64, 63>>, trailers |-> <<F(<<116>>, <<49>>)>>, has_trailers |-> TRUE],
  [method |-> POSTm, uri |-> <<104,116,116,112,115,58,47,47,97,47>>, scheme |-> HTTPS, authority |-> <<97>>, path |-> <<47>>, protocol |-> <<>>,
   fields |-> <<>>, body |-> <<16384>>, trailers |-> <<>>, has_trailers |-> FALSE] >>

Responses == <<
  [status |-> 200, fields |-> <<>>, body |-> <<>>, trailers |-> <<>>, has_trailers |-> FALSE],
  [status |-> 404, fields |-> <<F(X, <<49>>), F(<<115,101,116,45,99,111,111,107,105,101>>, <<97>>), F(X, <<50>>), F(<<115,101,116,45,99,111,111,107,105,101>>, <<98>>), F(<<120,45,108>>, <<233,232>>)>>,
   body |-> <<1, 5>>, trailers |-> <<F(<<116>>, <<57>>), F(<<116,50>>, <<99,97,102,233>>)>>, has_trailers |-> TRUE],
  [status |-> 204, fields |-> <<F(<<88,45,89>>, Long300)>>, body |-> <<0, 0>>, trailers |-> <<>>, has_trailers |-> FALSE],
  [status |-> 200, fields |-> <<>>, body |-> <<70, 16383, 1>>, trailers |-> <<>>, has_trailers |-> TRUE] >>

SendBody(b) == [i \in 1..Len(b) |-> [op |-> "send_data", len |-> b[i]]]
SendTail(m) == (IF m.has_trailers THEN <<[op |-> "send_trailers", fields |-> m.trailers]>> ELSE <<>>) \o <<[op |-> "finish"]>>
RecvAll == <<[op |-> "recv_body", merge |-> TRUE], [op |-> "recv_trailers"]>>

\* split: "no" = the stream is used whole; "yes" = split right away; "late" = split after one piece of the body has been received
\* (which, with a chunked transport, ends part-way through a DATA frame)
ClientProg(q, split) ==
    LET sr == [op |-> "send_request", method |-> q.method, uri |-> q.uri, fields |-> q.fields, protocol |-> q.protocol] IN
    CASE split = "yes" -> <<sr, [op |-> "split", send |-> SendBody(q.body) \o SendTail(q), recv |-> <<[op |-> "recv_response"]>> \o RecvAll]>>
      [] split = "late" -> <<sr>> \o SendBody(q.body) \o SendTail(q) \o <<[op |-> "recv_response"], [op |-> "recv_data"], [op |-> "split", send |-> <<>>, recv |-> RecvAll]>>
      [] OTHER -> <<sr>> \o SendBody(q.body) \o SendTail(q) \o <<[op |-> "recv_response"]>> \o RecvAll
ServerProg(r, split) ==
    LET sp == [op |-> "send_response", status |-> r.status, fields |-> r.fields] IN
    CASE split = "yes" -> <<[op |-> "resolve"], [op |-> "split", send |-> <<sp>> \o SendBody(r.body) \o SendTail(r), recv |-> RecvAll]>>
      [] split = "late" -> <<[op |-> "resolve"], [op |-> "recv_data"], [op |-> "split", send |-> <<sp>> \o SendBody(r.body) \o SendTail(r), recv |-> RecvAll]>>
      [] OTHER -> <<[op |-> "resolve"]>> \o RecvAll \o <<sp>> \o SendBody(r.body) \o SendTail(r)

Writes == IF Tier = "quick" THEN {"all", "1", "7"} ELSE {"all", "1", "2", "3", "7", "64"}
Chunks == IF Tier = "quick" THEN {0, 1, 3, 16} ELSE {0, 1, 2, 3, 5, 16, 100}

Scn(qi, ri, wc, ws, pc, sc, ss, g) ==
    [part |-> "E", role |-> "pair", req |-> Requests[qi], resp |-> Responses[ri], split_c |-> sc, split_s |-> ss,
     cfg |-> [pump_chunk |-> pc, log_wrote |-> FALSE, client |-> [grease |-> g, write |-> wc], server |-> [grease |-> g, write |-> ws]],
     default_handler |-> ServerProg(Responses[ri], ss),
     steps |-> <<[op |-> "request", task |-> "r1", prog |-> ClientProg(Requests[qi], sc)]>>]

RECURSIVE SumB(_)
SumB(b) == IF b = <<>> THEN 0 ELSE b[1] + SumB(Tail(b))

VARIABLE out
Init == out = <<>>
\* the full product is large; quick covers every message pair under a rotating subset of the transport behaviours
Next == /\ out = <<>>
        /\ \E qi \in 1..Len(Requests), ri \in 1..Len(Responses), wc \in Writes, ws \in Writes, pc \in Chunks, sc \in {"no", "yes", "late"}, ss \in {"no", "yes", "late"}, g \in BOOLEAN :
              /\ Tier = "quick" => /\ (wc = ws \/ pc = 0)
                                   /\ (sc = ss \/ (sc = "late" /\ ss = "no") \/ (sc = "no" /\ ss = "late"))
                                   /\ g = (qi % 2 = 0)
                                   /\ (Requests[qi].body # <<16384>> \/ pc \in {0, 16})
              \* a late split needs a body piece to receive first
              /\ (sc = "late" => SumB(Responses[ri].body) > 0) /\ (ss = "late" => SumB(Requests[qi].body) > 0)
              /\ out' = Scn(qi, ri, wc, ws, pc, sc, ss, g)
Spec == Init /\ [][Next]_out
Emit == out = <<>> \/ PrintT(<<"SCN", ToJson(out)>>)
=============================================================================
