------------------------------ MODULE C06_Gen ------------------------------
(* Fault-injection generator for C06: representative peer scripts for both roles (control stream + SETTINGS, QPACK and    *)
(* unknown unidirectional streams, requests with body and trailers, handlers on whole and split streams, a client with    *)
(* a request and its response) with ONE fault - FIN, RESET(code), STOP_SENDING(code) on any stream of the script, or a     *)
(* connection close (application code / idle timeout) - injected after EVERY step index; the rest of the script is        *)
(* still played.  Adversarial byte strings (random and grammar-mutated) are added by the seeded driver in                 *)
(* tools/props/C06.py; all traces are judged by C06_Trace.                                                                *)
EXTENDS H3Message, H3Frame, Json, TLC

ReqSec == RefSection(<< <<N_METHOD, <<80, 79, 83, 84>>>>, <<N_SCHEME, <<104, 116, 116, 112, 115>>>>, <<N_AUTHORITY, <<97>>>>, <<N_PATH, <<47>>>> >>, FALSE)
RespSec == RefSection(<< <<N_STATUS, <<50, 48, 48>>>> >>, FALSE)
TrlSec == RefSection(<< <<<<116>>, <<49>>>> >>, TRUE)
Hq == Frame(1, ReqSec)
Hr == Frame(1, RespSec)
T == Frame(1, TrlSec)
D == Frame(0, <<104, 101, 108, 108, 111>>)
U == Frame(33, <<1, 2>>)
Dl(sid, bs) == [op |-> "deliver", sid |-> sid, bytes |-> bs]

Full == <<[op |-> "resolve"], [op |-> "recv_body"], [op |-> "recv_trailers"], [op |-> "send_response", status |-> 200, fields |-> <<>>],
          [op |-> "send_data", len |-> 5], [op |-> "send_trailers", fields |-> << <<<<116>>, <<49>>>> >>], [op |-> "finish"]>>
SplitH == <<[op |-> "resolve"], [op |-> "split", send |-> <<[op |-> "send_response", status |-> 200, fields |-> <<>>], [op |-> "send_data", len |-> 70], [op |-> "finish"]>>,
                                                  recv |-> <<[op |-> "recv_body"], [op |-> "recv_trailers"]>>]>>
GETm == <<71, 69, 84>>
Uri == <<104, 116, 116, 112, 115, 58, 47, 47, 97, 47>>
CliProg == <<[op |-> "send_request", method |-> GETm, uri |-> Uri, fields |-> <<>>], [op |-> "send_data", len |-> 5], [op |-> "finish"],
             [op |-> "recv_response"], [op |-> "recv_body"], [op |-> "recv_trailers"]>>
CliSplit == <<[op |-> "send_request", method |-> GETm, uri |-> Uri, fields |-> <<>>],
              [op |-> "split", send |-> <<[op |-> "send_data", len |-> 5], [op |-> "finish"]>>, recv |-> <<[op |-> "recv_response"], [op |-> "recv_body"], [op |-> "recv_trailers"]>>]>>

\* base scripts: <<role, handler, steps, stream ids that appear>>
Bases == {
  <<"server", Full, <<Dl(2, <<0, 4, 0>>), Dl(0, Hq), Dl(0, D), Dl(0, T), [op |-> "fin", sid |-> 0]>>, {0, 2}>>,
  <<"server", SplitH, <<Dl(2, <<0>>), Dl(2, <<4, 0>>), Dl(6, <<2>>), Dl(10, <<33, 1>>), Dl(0, Hq \o D), Dl(0, U), [op |-> "fin", sid |-> 0], Dl(2, <<7, 1, 0>>)>>, {0, 2, 6, 10}>>,
  <<"server", Full, <<Dl(0, SubSeq(Hq, 1, 7)), Dl(0, SubSeq(Hq, 8, Len(Hq))), Dl(4, Hq), Dl(0, SubSeq(D, 1, 4)), Dl(0, SubSeq(D, 5, Len(D))), [op |-> "fin", sid |-> 0], [op |-> "fin", sid |-> 4]>>, {0, 4}>>,
  <<"client", <<>>, <<Dl(3, <<0, 4, 0>>), [op |-> "request", task |-> "r1", prog |-> CliProg], Dl(0, Hr), Dl(0, D), Dl(0, T), [op |-> "fin", sid |-> 0]>>, {0, 3}>>,
  <<"client", <<>>, <<[op |-> "request", task |-> "r1", prog |-> CliSplit], Dl(3, <<0>>), Dl(0, SubSeq(Hr, 1, 3)), Dl(0, SubSeq(Hr, 4, Len(Hr)) \o D), Dl(3, <<4, 0, 7, 1, 4>>), [op |-> "fin", sid |-> 0]>>, {0, 3}>> }

Faults(sids) == { [op |-> "fin", sid |-> s] : s \in sids } \cup { [op |-> "reset", sid |-> s, code |-> c] : s \in sids, c \in {0, 268} }
                \cup { [op |-> "stop", sid |-> s, code |-> 268] : s \in { x \in sids : x % 4 = 0 } }
                \cup { [op |-> "close", code |-> 256, kind |-> "app"], [op |-> "close", code |-> 4660, kind |-> "app"], [op |-> "close", code |-> 0, kind |-> "timeout"] }

Scn(b, pos, f, cfg) ==
    [part |-> "F", role |-> b[1], cfg |-> cfg, default_handler |-> (IF b[2] = <<>> THEN Full ELSE b[2]), fault |-> f, at |-> pos,
     steps |-> SubSeq(b[3], 1, pos) \o <<f>> \o SubSeq(b[3], pos + 1, Len(b[3]))]

VARIABLE out
Init == out = <<>>
Next == /\ out = <<>>
        /\ \E b \in Bases : \E pos \in 0..Len(b[3]), f \in Faults(b[4]), cfg \in { [grease |-> FALSE, write |-> "all"], [grease |-> TRUE, write |-> "1"] } :
              out' = Scn(b, pos, f, cfg)
Spec == Init /\ [][Next]_out
Emit == out = <<>> \/ PrintT(<<"SCN", ToJson(out)>>)
=============================================================================
