------------------------------ MODULE C06Q_Gen ------------------------------
(* Scenario generator for C06 over the real transport (family "H3ERR"): h3 on h3-quinn against a raw Quinn peer.            *)
(* The peer writes a prefix of a message on the request stream and then ends the stream, or the connection, in one of the    *)
(* ways QUIC offers; the application follows the documented call pattern and retries the first call that fails: once an      *)
(* object has ended every call on it has to return (C06: no panic, nothing pending for ever), however often it is made.      *)
EXTENDS H3Frame, Json, TLC

ReqSection == <<0, 0, 209, 215, 80, 1, 97, 193>>     \* :method GET, :scheme https, :authority a, :path /
RespSection == <<0, 0, 217>>                         \* :status 200
TrailerSection == <<0, 0, 33, 120, 1, 121>>          \* x: y

MsgHead(role) == Frame(1, IF role = "server" THEN ReqSection ELSE RespSection)
Data == Frame(0, <<104, 105, 106, 107, 108>>)
\* what the peer has written when it ends the stream
Sents(role) == LET h == MsgHead(role) IN
    { <<>>, SubSeq(h, 1, 2), h, h \o SubSeq(Data, 1, 4), h \o Data, h \o Data \o Frame(1, TrailerSection), h \o Data \o SubSeq(Frame(1, TrailerSection), 1, 3) }
Ends == { [k |-> "fin", code |-> 0], [k |-> "reset", code |-> 268], [k |-> "reset", code |-> 0], [k |-> "stop_reset", code |-> 268],
          [k |-> "stop_fin", code |-> 256], [k |-> "close", code |-> 256], [k |-> "close", code |-> 0] }
\* the documented pattern; the first receive call that fails is retried `again` times (harness), the sending calls are made regardless
Prog(role) == <<"head", "recv_body", "recv_trailers", "send_data", "finish">>

CONSTANT Tier
\* wait: milliseconds between the peer's last write and its ending act (0: a RESET_STREAM overtakes the data and discards it; 25: the
\* application has consumed what was written and fails in the middle of the message)
Variants == IF Tier = "quick" THEN {<<0, 1>>, <<25, 2>>} ELSE {0, 25} \X {1, 2}
VARIABLE out
Init == out = <<>>
Next == out = <<>> /\ \E role \in {"client", "server"}, e \in Ends, v \in Variants : \E s \in Sents(role) : LET n == v[2] IN
           \* (a server never learns of a stream on which nothing at all was sent unless it is ended; a bare STOP does not open it)
           out' = [fam |-> "H3ERR", role |-> role, sent |-> s, end |-> e, prog |-> Prog(role), again |-> n, wait_ms |-> v[1]]
Spec == Init /\ [][Next]_out
Emit == out = <<>> \/ PrintT(<<"SCN", ToJson(out)>>)
=============================================================================
