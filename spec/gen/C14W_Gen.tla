------------------------------ MODULE C14W_Gen ------------------------------
(* Vector generator for C14, binding A: the byte image h3 hands to the transport for a DATA frame whose payload buffer   *)
(* is made of two pieces (a non-contiguous `Buf`, e.g. `Chain<Bytes, Bytes>`), drained in different step sizes.           *)
(* RFC 9114 7.1: Type (i) = 0x00, Length (i) = number of payload bytes that follow, payload.                              *)
EXTENDS H3Frame, Json, TLC

Piece(n, base) == [i \in 1..n |-> (base + i * 7) % 256]
LensA == {0, 1, 5, 63}
LensB == {0, 1, 6, 64, 200}
Patterns == { <<>>, <<1>>, <<1, 1, 1>>, <<2, 3>>, <<100>>, <<1, 100>> }

VARIABLE vec
Init == vec = [fn |-> "start"]
Next == /\ vec.fn = "start"
        /\ \E la \in LensA, lb \in LensB, p \in Patterns :
              LET a == Piece(la, 1) b == Piece(lb, 100) img == Frame(0, a \o b)
              IN vec' = [fn |-> "wbuf", a |-> a, b |-> b, pattern |-> p, exp |-> [remaining |-> Len(img), bytes |-> img, left |-> 0]]
Spec == Init /\ [][Next]_vec
Emit == vec.fn = "start" \/ PrintT(<<"SCN", ToJson(vec)>>)
=============================================================================
