SPECIFICATION Spec
CONSTANT Entries = 1
INVARIANT Emit
CHECK_DEADLOCK FALSE
