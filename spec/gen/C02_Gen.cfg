SPECIFICATION Spec
CONSTANTS Depth = 1
  Shard = 0
  NShards = 1
INVARIANT Emit
INVARIANT PrefixConsistent
CHECK_DEADLOCK FALSE
