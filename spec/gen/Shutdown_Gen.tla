---------------------------- MODULE Shutdown_Gen ----------------------------
(* History generator for C08 and C09 (server side).                                                               *)
(*  C08: arrivals of request streams 0,4,8 in every order (in and out of stream-id order), shutdown(n) calls with  *)
(*       n in 0..2 at every position and repeatedly; every request is a complete GET answered at once.            *)
(*  C09: up to three accepted requests, each ending in one of the ways the property lists, the peer's GOAWAY at    *)
(*       every position, held requests released at every later position.                                          *)
EXTENDS H3Frame, Json, TLC, FiniteSets

CONSTANTS Mode,       \* "C08" | "C09"
          Len8,       \* C08: maximal history length
          NReq9       \* C09: number of requests

ReqSection == <<0, 0, 209, 215, 80, 1, 97, 193>>     \* :method GET, :scheme https, :authority a, :path /
BadSection == <<0, 0, 33, 120, 1, 121>>              \* x: y only (no :method): malformed request
H == Frame(1, ReqSection)

Normal == <<[op |-> "resolve"], [op |-> "recv_body"], [op |-> "recv_trailers"], [op |-> "send_response", status |-> 200, fields |-> <<>>], [op |-> "finish"]>>
Paused == <<[op |-> "resolve"], [op |-> "pause"], [op |-> "send_response", status |-> 200, fields |-> <<>>], [op |-> "finish"]>>
PausedResolver == <<[op |-> "pause"], [op |-> "drop"]>>
DropRes == <<[op |-> "drop"]>>
Split == <<[op |-> "resolve"], [op |-> "split", send |-> <<[op |-> "send_response", status |-> 200, fields |-> <<>>], [op |-> "finish"]>>,
                                                 recv |-> <<[op |-> "pause"], [op |-> "recv_body"]>>]>>

Ctl == <<[op |-> "deliver", sid |-> 2, bytes |-> <<0, 4, 0>>]>>
Goaway == [op |-> "deliver", sid |-> 2, bytes |-> <<7, 1, 0>>]

Full(id) == <<[op |-> "deliver", sid |-> id, bytes |-> H], [op |-> "fin", sid |-> id]>>

(* ---- C08 ------------------------------------------------------------------------------------------------------ *)
Ev8 == {"A0", "A4", "A8", "S0", "S1", "S2"}
IdOf(e) == CASE e = "A0" -> 0 [] e = "A4" -> 4 [] e = "A8" -> 8
NOf(e) == CASE e = "S0" -> 0 [] e = "S1" -> 1 [] e = "S2" -> 2
Steps8(h) == [i \in 1..Len(h) |-> IF h[i] \in {"A0", "A4", "A8"} THEN Full(IdOf(h[i])) ELSE <<[op |-> "shutdown", n |-> NOf(h[i])]>>]

(* ---- C09 ------------------------------------------------------------------------------------------------------ *)
\* how a request ends: <<peer steps, handler program, needs a poke to end, poke task>>
Kinds == {"normal", "dropres", "held", "heldres", "split", "finfirst", "resetfirst", "hdrreset", "malformed"}
PeerSteps(k, id) ==
    CASE k \in {"normal", "dropres", "held", "heldres", "split"} -> Full(id)
      [] k = "finfirst" -> <<[op |-> "fin", sid |-> id]>>
      [] k = "resetfirst" -> <<[op |-> "reset", sid |-> id, code |-> 268]>>
      [] k = "hdrreset" -> <<[op |-> "deliver", sid |-> id, bytes |-> H], [op |-> "reset", sid |-> id, code |-> 268]>>
      [] k = "malformed" -> <<[op |-> "deliver", sid |-> id, bytes |-> Frame(1, BadSection)], [op |-> "fin", sid |-> id]>>
Handler(k) == CASE k = "dropres" -> DropRes [] k = "held" -> Paused [] k = "heldres" -> PausedResolver [] k = "split" -> Split [] OTHER -> Normal
NeedsPoke(k) == k \in {"held", "heldres", "split"}
PokeTask(k, id) == IF k = "split" THEN "h" \o ToString(id) \o ".r" ELSE "h" \o ToString(id)

Flat(ss) == LET RECURSIVE F(_) F(i) == IF i > Len(ss) THEN <<>> ELSE ss[i] \o F(i + 1) IN F(1)

VARIABLES hist, out
Init == hist = <<>> /\ out = <<>>

\* C08: extend the history by one event (each arrival at most once, at most two shutdown calls)
Extend8 == /\ Mode = "C08" /\ out = <<>> /\ Len(hist) < Len8
           /\ \E e \in Ev8 :
                /\ (e \in {"A0", "A4", "A8"}) => \A i \in 1..Len(hist) : hist[i] # e
                /\ (e \in {"S0", "S1", "S2"}) => Cardinality({i \in 1..Len(hist) : hist[i] \in {"S0", "S1", "S2"}}) < 2
                /\ hist' = Append(hist, e)
           /\ UNCHANGED out
Finish8 == /\ Mode = "C08" /\ out = <<>> /\ hist # <<>>
           /\ out' = [role |-> "server", cfg |-> [grease |-> FALSE], mode |-> "C08", history |-> hist,
                      default_handler |-> Normal, steps |-> Ctl \o Flat(Steps8(hist))]
           /\ UNCHANGED hist

\* C09: kinds for requests 0,4,..; the GOAWAY position g (after g requests); pokes after everything, in id order or reversed;
\* burst: the released requests all run to their end before accept() is polled again (several ends between two polls)
\* arrive: the order in which the request streams become visible (a transport need not surface them in id order);
\* cut: the peer's GOAWAY frame 07 01 00 arrives whole (0) or in two deliveries cut after `cut` bytes, the endpoint running in between
\* silent: a unidirectional stream of the peer that says nothing ("open") or only the first byte of a two-byte type ("half") is
\* surfaced BEFORE its control stream;  again: the peer repeats its GOAWAY with the same identifier (RFC 9114 5.2 allows it)
Scn9y(n, ks, g, rev, burst, arrive, cut, silent, again) ==
                LET ids == [i \in 1..n |-> 4 * (i - 1)]
                    arr == [i \in 1..n |-> PeerSteps(ks[arrive[i]], ids[arrive[i]])]
                    before == Flat([i \in 1..n |-> IF i <= g THEN arr[i] ELSE <<>>])
                    after == Flat([i \in 1..n |-> IF i > g THEN arr[i] ELSE <<>>])
                    pk == { i \in 1..n : NeedsPoke(ks[i]) }
                    order == IF rev THEN [j \in 1..n |-> n + 1 - j] ELSE [j \in 1..n |-> j]
                    pokes == IF burst
                             THEN Flat([j \in 1..n |-> IF order[j] \in pk THEN <<[op |-> "poke", task |-> PokeTask(ks[order[j]], ids[order[j]]), no_run |-> TRUE]>> ELSE <<>>])
                                  \o Flat([j \in 1..n |-> IF order[j] \in pk THEN <<[op |-> "step", task |-> PokeTask(ks[order[j]], ids[order[j]]), no_run |-> TRUE]>> ELSE <<>>])
                                  \o <<[op |-> "run"]>>
                             ELSE Flat([j \in 1..n |-> IF order[j] \in pk THEN <<[op |-> "poke", task |-> PokeTask(ks[order[j]], ids[order[j]])]>> ELSE <<>>])
                    \* cut = 20 + k / 40 + k: a reserved-type frame (21 06 "grease") ahead of the GOAWAY, cut after k bytes with the endpoint running in
                    \* between; the GOAWAY follows in a delivery of its own (20 + k) or together with the rest of the reserved frame (40 + k)
                    rsv == <<33, 6, 103, 114, 101, 97, 115, 101>>
                    ga0 == IF cut = 0 THEN <<Goaway>>
                          ELSE IF cut >= 40 THEN <<[op |-> "deliver", sid |-> 2, bytes |-> SubSeq(rsv, 1, cut - 40)], [op |-> "deliver", sid |-> 2, bytes |-> SubSeq(rsv, cut - 39, 8) \o <<7, 1, 0>>]>>
                          ELSE IF cut >= 20 THEN <<[op |-> "deliver", sid |-> 2, bytes |-> SubSeq(rsv, 1, cut - 20)], [op |-> "deliver", sid |-> 2, bytes |-> SubSeq(rsv, cut - 19, 8)], Goaway>>
                          ELSE <<[op |-> "deliver", sid |-> 2, bytes |-> SubSeq(<<7, 1, 0>>, 1, cut)], [op |-> "deliver", sid |-> 2, bytes |-> SubSeq(<<7, 1, 0>>, cut + 1, 3)]>>
                    ga == IF again THEN ga0 \o <<Goaway>> ELSE ga0
                    pre == CASE silent = "open" -> <<[op |-> "open_uni", sid |-> 6]>>
                             [] silent = "half" -> <<[op |-> "deliver", sid |-> 6, bytes |-> <<64>>]>>
                             [] OTHER -> <<>>
                    \* g = n + 1: the GOAWAY arrives after the held requests were released
                    steps == IF g = n + 1 THEN pre \o Ctl \o before \o pokes \o ga
                             ELSE pre \o Ctl \o before \o ga \o after \o pokes
                IN [role |-> "server", cfg |-> [grease |-> FALSE], mode |-> "C09", kinds |-> ks, goaway_after |-> g, burst |-> burst, arrive |-> arrive, cut |-> cut, silent |-> silent, again |-> again,
                    handlers_by_sid |-> [i \in 1..n |-> Handler(ks[i])], default_handler |-> Normal, steps |-> steps]
Scn9x(n, ks, g, rev, burst, arrive, cut) == Scn9y(n, ks, g, rev, burst, arrive, cut, "no", FALSE)
Scn9(n, ks, g, rev, burst) == Scn9x(n, ks, g, rev, burst, [i \in 1..n |-> i], 0)
PokeKinds == {"held", "heldres", "split"}
Finish9 == /\ Mode = "C09" /\ out = <<>>
           /\ \/ \E n \in 0..NReq9 : \E ks \in [1..n -> Kinds], g \in 0..(n + 1), rev \in BOOLEAN, burst \in BOOLEAN :
                   LET pk == { i \in 1..n : NeedsPoke(ks[i]) } IN
                   /\ (rev => Cardinality(pk) >= 2) /\ (burst => Cardinality(pk) >= 2)
                   /\ out' = Scn9(n, ks, g, rev, burst)
              \* request streams surfacing out of id order (reversed), with the GOAWAY at every position
              \/ \E n \in 2..NReq9 : \E ks \in [1..n -> Kinds], g \in 0..(n + 1) :
                   out' = Scn9x(n, ks, g, FALSE, FALSE, [i \in 1..n |-> n + 1 - i], 0)
              \* the GOAWAY frame cut into two deliveries
              \/ \E n \in 0..(IF NReq9 > 2 THEN 2 ELSE NReq9) : \E ks \in [1..n -> Kinds], g \in 0..(n + 1), cut \in {1, 2} :
                   out' = Scn9x(n, ks, g, FALSE, FALSE, [i \in 1..n |-> i], cut)
              \* a silent stream of the peer ahead of its control stream; the GOAWAY repeated with the same identifier
              \/ \E n \in 0..(IF NReq9 > 2 THEN 2 ELSE NReq9) : \E ks \in [1..n -> Kinds], g \in 0..(n + 1), silent \in {"no", "open", "half"}, again \in BOOLEAN :
                   /\ (silent # "no" \/ again)
                   /\ out' = Scn9y(n, ks, g, FALSE, FALSE, [i \in 1..n |-> i], 0, silent, again)
              \* three (four) requests released at once, whatever NReq9 is
              \/ \E n \in {3, 4} : \E ks \in [1..n -> PokeKinds], g \in 0..n, rev \in BOOLEAN :
                   /\ n > NReq9 /\ (n = 4 => (\A i \in 1..n : ks[i] = ks[1]) /\ g \in {0, 4})
                   /\ out' = Scn9(n, ks, g, rev, TRUE)
              \* a reserved-type frame cut into two deliveries ahead of the GOAWAY
              \/ \E n \in 0..(IF NReq9 > 1 THEN 1 ELSE NReq9) : \E ks \in [1..n -> Kinds], g \in 0..(n + 1), k \in {1, 2, 4, 7}, joined \in BOOLEAN :
                   out' = Scn9x(n, ks, g, FALSE, FALSE, [i \in 1..n |-> i], (IF joined THEN 40 ELSE 20) + k)
           /\ UNCHANGED hist

Next == Extend8 \/ Finish8 \/ Finish9
Spec == Init /\ [][Next]_<<hist, out>>
Emit == out = <<>> \/ PrintT(<<"SCN", ToJson(out)>>)
=============================================================================
