------------------------------ MODULE C18D_Gen ------------------------------
(* Scenario generator for C18 at connection level (family "H3DG"): h3 with h3-datagram over h3-quinn against a raw Quinn    *)
(* peer.  `sends`: what the application hands to DatagramSender (stream id, payload); `raws`: the datagrams the raw peer      *)
(* sends, written here byte for byte with the operators of Datagram.tla / Varint.tla - valid ones in every varint form        *)
(* (minimal or not), and at most one, last, that RFC 9297 2.1 makes a connection error.                                       *)
EXTENDS Datagram, Json, TLC

Long == [i \in 1..1000 |-> (i * 7 + 3) % 256]
Ks == { FromInt(0), FromInt(1), FromInt(63), FromInt(64), FromInt(16383), FromInt(16384), FromInt(1073741823), FromInt(1073741824), Max60 }
S(k) == MulSmall(k, 4)
Dg(k, p) == [sid |-> S(k), payload |-> p]
SendLists == { <<>>,
               <<Dg(FromInt(0), <<>>)>>,
               <<Dg(FromInt(0), <<1, 2, 3>>), Dg(FromInt(1), <<>>), Dg(FromInt(0), <<1, 2, 3>>)>>,        \* the same datagram twice
               <<Dg(FromInt(63), <<7>>), Dg(FromInt(64), <<7>>), Dg(FromInt(16383), <<>>)>>,
               <<Dg(FromInt(16384), <<>>), Dg(FromInt(1073741823), <<0, 255>>), Dg(FromInt(1073741824), <<>>)>>,
               <<Dg(Max60, <<>>), Dg(Max60, <<9>>), Dg(FromInt(5), Long)>> }
\* valid datagrams as the peer may write them: shortest form, and the same quarter id in every longer form
Valid == { Enc(S(k), p) : k \in Ks, p \in { <<>>, <<5>> } }
         \cup { EncodeN(FromInt(5), n) \o p : n \in {2, 4, 8}, p \in { <<>>, <<6, 6>> } }
         \cup { EncodeN(FromInt(16384), 8), EncodeN(Max60, 8) \o Long }
Invalid == { <<>>, <<64>>, <<128, 0, 0>>, <<192, 0, 0, 0, 0, 0, 0>>, <<255>>,
             EncodeN(Pow2(60), 8), EncodeN(Pow2(60), 8) \o <<7>>, EncodeN(Add(Pow2(60), FromInt(1)), 8) \o <<1>>, EncodeN(Max62, 8) }
ASSUME \A b \in Valid : Dec(b).ok
ASSUME \A b \in Invalid : ~Dec(b).ok

VARIABLE out
Init == out = <<>>
Next == out = <<>> /\ \E role \in {"client", "server"} :
          \/ \E sl \in SendLists : out' = [fam |-> "H3DG", role |-> role, sends |-> sl, raws |-> <<>>, expect_close |-> FALSE]
          \/ \E v \in Valid : out' = [fam |-> "H3DG", role |-> role, sends |-> <<>>, raws |-> <<v>>, expect_close |-> FALSE]
          \/ \E i \in Invalid : out' = [fam |-> "H3DG", role |-> role, sends |-> <<>>, raws |-> <<i>>, expect_close |-> TRUE]
          \/ \E v \in {Enc(S(FromInt(1)), <<5>>), EncodeN(FromInt(5), 4)}, w \in {Enc(S(FromInt(64)), <<>>)} :
                \/ out' = [fam |-> "H3DG", role |-> role, sends |-> <<Dg(FromInt(2), <<8>>)>>, raws |-> <<v, w, v>>, expect_close |-> FALSE]
                \/ \E i \in Invalid : out' = [fam |-> "H3DG", role |-> role, sends |-> <<Dg(FromInt(2), <<8>>)>>, raws |-> <<v, w, i>>, expect_close |-> TRUE]
Spec == Init /\ [][Next]_out
Emit == out = <<>> \/ PrintT(<<"SCN", ToJson(out)>>)
=============================================================================
