SPECIFICATION Spec
CONSTANT Pairs = FALSE
INVARIANT Emit
CHECK_DEADLOCK FALSE
