------------------------------ MODULE C15_Gen ------------------------------
(* Vector generator for C15: QPACK/HPACK string literals (Huffman) and prefixed integers.                         *)
(*  sdec: Huffman-flagged and raw string literals to decode (all payloads of 0..2 bytes; for symbol strings        *)
(*        covering every code length, every padding of 0..9 bits in every bit pattern and longer all-ones /        *)
(*        single-zero paddings; EOS inside; truncations) with the verdict of Huffman!Decode / QpackBlock!DecString *)
(*  senc: strings to encode (all strings of length 0..2, every prefix size on a subset); judged by C15_Trace        *)
(*  idec: prefixed integers to decode: every first byte x continuation patterns up to 11 bytes, truncations         *)
(*  ienc: values at prefix and power-of-two boundaries for every prefix size, expected bytes from PrefixInt!Encode *)
EXTENDS QpackBlock, Json, SequencesExt

CONSTANT Tier

(* ---- string decode --------------------------------------------------------------------------------------------- *)
SDecExp(n, bs) == LET d == DecString(n, bs) IN
                  IF ~d.ok THEN [v |-> "reject", why |-> d.why]
                  ELSE [v |-> IF d.either THEN "either" ELSE "ok", bytes |-> d.bytes, consumed |-> Len(bs) - Len(d.rest)]
SDec(size, bs) == [fn |-> "sdec", size |-> size, in |-> bs, exp |-> SDecExp(size - 1, bs)]

HuffPayloads2 == { <<>> } \cup { <<a>> : a \in 0..255 } \cup { <<a, b>> : a \in 0..255, b \in 0..255 }
\* size 8: first byte = H(1) + 7-bit length
HuffLiteral(p) == <<128 + Len(p)>> \o p

\* symbol strings covering every code length 5..30 (one symbol per length where one exists)
OneOfEachLen == { SymsOfLen[L][1] : L \in { k \in MinLen..MaxLen : Count[k] > 0 } } \ {EOS}
BitsToPadded(bits, pad) == bits \o pad
AllBitPatterns(k) == IF k = 0 THEN { <<>> } ELSE [1..k -> {0, 1}]
Ones(k) == [i \in 1..k |-> 1]
OneZero(k, z) == [i \in 1..k |-> IF i = z THEN 0 ELSE 1]
\* for a symbol s: its code followed by every pad pattern whose total length is a multiple of 8
PadCases(s) ==
    LET cb == CodeBits(s) IN
    { cb \o pad : pad \in UNION { AllBitPatterns(k) : k \in { j \in 0..9 : (Len(cb) + j) % 8 = 0 } } }
    \cup { cb \o Ones(k) : k \in { j \in 10..23 : (Len(cb) + j) % 8 = 0 } }
    \cup UNION { { cb \o OneZero(k, z) : z \in 1..k } : k \in { j \in 10..16 : (Len(cb) + j) % 8 = 0 } }
PadPayloads == { BytesOfBits(b) : b \in UNION { PadCases(s) : s \in OneOfEachLen } }
EosCases == { BytesOfBits(CodeBits(97) \o CodeBits(EOS) \o Ones(5)), BytesOfBits(CodeBits(EOS) \o Ones(2)),
              BytesOfBits(CodeBits(EOS) \o CodeBits(97) \o Ones(5)) }
RawCases == { <<0>>, <<1, 65>>, <<2, 65>>, <<3, 0, 255, 7>>, <<127>>, <<127, 0>>, <<127, 1, 66>>, <<127, 128>>, <<255, 0>>, <<255, 128, 0>>,
              <<255, 128, 128, 128, 128, 128, 128, 128, 128, 128, 0>>, <<129>>, <<130, 28>>, <<130, 28, 127>> }

(* ---- string encode ---------------------------------------------------------------------------------------------- *)
Strings2 == { <<>> } \cup { <<a>> : a \in 0..255 } \cup { <<a, b>> : a \in 0..255, b \in 0..255 }
SEnc(size, flags, s) == [fn |-> "senc", size |-> size, flags |-> flags, in |-> s]

(* ---- integers -------------------------------------------------------------------------------------------------------- *)
IDecExp(n, bs) == LET d == PI!Decode(n, bs) IN
                  IF PI!Verdict(d) = "reject" THEN [v |-> "reject"]
                  ELSE [v |-> IF PI!Verdict(d) = "either" THEN "either" ELSE "ok", flags |-> d.flags, value |-> d.value, consumed |-> d.len]
IDec(n, bs) == [fn |-> "idec", size |-> n, in |-> bs, exp |-> IDecExp(n, bs)]
ContBytes == {0, 1, 127, 128, 255}
ContSeqs(maxlen) == UNION { [1..k -> ContBytes] : k \in 0..maxlen }
\* long continuation runs: k bytes of 0x80/0xff then a terminator (overflow bound)
LongRuns == { [i \in 1..k |-> b] \o <<t>> : k \in 5..11, b \in {128, 255}, t \in {0, 1, 127} }
Firsts(n) == { PI!PMask(n), PI!PMask(n) - 1, 0, 255, 255 - PI!PMask(n) } \cap 0..255

IEncVals(n) == { PI!FromInt(0), PI!FromInt(PI!PMask(n) - 1), PI!FromInt(PI!PMask(n)), PI!FromInt(PI!PMask(n) + 1), PI!FromInt(PI!PMask(n) + 127),
                 PI!FromInt(PI!PMask(n) + 128), PI!FromInt(1337), PI!Max62, PI!MaxU64, PI!Sub(PI!MaxU64, PI!FromInt(1)) }
               \cup UNION { { PI!Sub(PI!Pow2(k), PI!FromInt(1)), PI!Pow2(k), PI!Add(PI!Pow2(k), PI!FromInt(1)) } : k \in {7, 8, 14, 21, 28, 31, 32, 35, 42, 49, 56, 62, 63} }
IEnc(n, f, v) == [fn |-> "ienc", size |-> n, flags |-> f, in |-> v, exp |-> PI!Encode(n, f, v)]

VARIABLE vec
Init == vec = [fn |-> "start"]
Next == /\ vec.fn = "start"
        /\ \/ \E p \in HuffPayloads2 : vec' = SDec(8, HuffLiteral(p))
           \/ \E p \in PadPayloads \cup EosCases : vec' = SDec(8, HuffLiteral(p))
           \/ \E p \in PadPayloads, size \in {4, 6} : Len(p) < 7 /\ vec' = SDec(size, <<(IF size = 4 THEN 8 ELSE 32) + Len(p)>> \o p)
           \/ \E bs \in RawCases, size \in {8, 4} : vec' = SDec(size, bs)
           \/ \E s \in Strings2 : vec' = SEnc(8, 0, s)
           \/ \E s \in { <<>>, <<97>>, <<0, 255>>, <<119, 119, 119>> }, size \in 2..8 : \E f \in (IF size = 8 THEN {0} ELSE {0, 1}) : vec' = SEnc(size, f, s)
           \/ \E n \in 1..8 : \E f \in Firsts(n), c \in ContSeqs(IF Tier = "quick" THEN 3 ELSE 5) : vec' = IDec(n, <<f>> \o c)
           \/ \E n \in {1, 5, 8}, r \in LongRuns : vec' = IDec(n, <<255>> \o r)
           \/ \E n \in 1..8 : \E v \in IEncVals(n) : vec' = IEnc(n, IF n = 8 THEN 0 ELSE 1, v)
Spec == Init /\ [][Next]_vec
Emit == vec.fn = "start" \/ PrintT(<<"SCN", ToJson(vec)>>)

\* theorem of the definitions, checked here: decoding an encoding gives the value back (all prefix sizes)
ASSUME \A n \in 1..8 : \A v \in IEncVals(n) : LET d == PI!Decode(n, PI!Encode(n, 0, v)) IN d.ok /\ ~d.overflow /\ d.value = v /\ d.len = Len(PI!Encode(n, 0, v))
ASSUME \A s \in { <<>>, <<97>>, <<0, 255>>, <<119, 119, 119, 46>> } : Decode(Encode(s)) = [ok |-> TRUE, bytes |-> s]
=============================================================================
