------------------------------ MODULE C19_Gen ------------------------------
(* Scenario generator for C19 (WebTransport sessions on a server).                                                    *)
(*  CONNECT (extended, :protocol webtransport) on stream id C in {0, 4, 8, 252, 256, 65536} - directly, or after one     *)
(*  or two ordinary requests; the session is accepted and then: opens a unidirectional and a bidirectional stream        *)
(*  with payloads, accepts an incoming unidirectional and an incoming bidirectional stream whose header + payload        *)
(*  are delivered split at EVERY offset (incl. inside the varints and with the payload in the same chunk as the          *)
(*  header), finished or left open, sends and reads a datagram; with the extension enabled or not.                       *)
EXTENDS H3Message, H3Frame, Json, TLC

CONm == <<67, 79, 78, 78, 69, 67, 84>>
WT == <<119, 101, 98, 116, 114, 97, 110, 115, 112, 111, 114, 116>>
ConnectSec == RefSection(<< <<N_METHOD, CONm>>, <<N_SCHEME, <<104, 116, 116, 112, 115>>>>, <<N_AUTHORITY, <<97>>>>, <<N_PATH, <<47, 119, 116>>>>, <<N_PROTOCOL, WT>> >>, FALSE)
GetSec == RefSection(<< <<N_METHOD, <<71, 69, 84>>>>, <<N_SCHEME, <<104, 116, 116, 112, 115>>>>, <<N_AUTHORITY, <<97>>>>, <<N_PATH, <<47>>>> >>, FALSE)
\* peer SETTINGS: ENABLE_CONNECT_PROTOCOL, H3_DATAGRAM, ENABLE_WEBTRANSPORT, WEBTRANSPORT_MAX_SESSIONS
PeerSettings == <<0>> \o Frame(4, EncodeInt(8) \o <<1>> \o EncodeInt(51) \o <<1>> \o EncodeInt(727725890) \o <<1>> \o EncodeInt(727725891) \o <<1>>)

Dl(sid, bs) == [op |-> "deliver", sid |-> sid, bytes |-> bs]
SplitDeliver(sid, bs, k) == IF k = 0 \/ k = Len(bs) THEN <<Dl(sid, bs)>> ELSE <<Dl(sid, SubSeq(bs, 1, k)), Dl(sid, SubSeq(bs, k + 1, Len(bs)))>>

UniHdr(C) == EncodeInt(84) \o EncodeInt(C)
BiHdr(C) == EncodeInt(65) \o EncodeInt(C)
P1 == <<111, 117, 116>>           \* "out"
P2 == <<98, 105>>
P3 == <<100, 103>>
PIn == <<120, 121, 122>>

Plain == <<[op |-> "recv_body"], [op |-> "recv_trailers"], [op |-> "send_response", status |-> 200, fields |-> <<>>], [op |-> "finish"]>>

ScnX(C, before, wt, ku, kb, finIn, payIn, wr, splitBi) ==
    LET pre == [i \in 1..before |-> 4 * (i - 1)]
        reqs == LET RECURSIVE F(_) F(i) == IF i > before THEN <<>> ELSE <<Dl(pre[i], Frame(1, GetSec)), [op |-> "fin", sid |-> pre[i]]>> \o F(i + 1) IN F(1)
        uniBytes == UniHdr(C) \o payIn
        biBytes == BiHdr(C) \o payIn
        biSid == C + 4
    IN [part |-> "W", role |-> "server", connect_sid |-> C, before |-> before, wt |-> wt, fin_in |-> finIn, pay_in |-> payIn, uni_sid |-> 14, bi_sid |-> biSid,
        cfg |-> [grease |-> FALSE, wt |-> wt, datagram |-> TRUE, ext_connect |-> TRUE, write |-> wr],
        default_handler |-> Plain,
        wt_prog |-> (IF wt THEN <<[op |-> "open_uni", payload |-> P1], [op |-> "open_bi", payload |-> P2], [op |-> "send_datagram", payload |-> P3],
                                  [op |-> "read_datagram"], [op |-> "accept_uni"], [op |-> "accept_bi", split |-> splitBi]>>
                     ELSE <<[op |-> "open_uni", payload |-> P1], [op |-> "accept_uni"]>>),
        steps |-> <<Dl(2, PeerSettings)>> \o reqs \o <<Dl(C, Frame(1, ConnectSec))>>
                  \o <<[op |-> "datagram", bytes |-> EncodeInt(C \div 4) \o P3]>>
                  \o SplitDeliver(14, uniBytes, ku) \o (IF finIn THEN <<[op |-> "fin", sid |-> 14]>> ELSE <<>>)
                  \o (IF wt THEN SplitDeliver(biSid, biBytes, kb) \o (IF finIn THEN <<[op |-> "fin", sid |-> biSid]>> ELSE <<>>) ELSE <<>>)]

ScnW(C, before, wt, ku, kb, finIn, payIn, wr) == ScnX(C, before, wt, ku, kb, finIn, payIn, wr, FALSE)
Scn(C, before, wt, ku, kb, finIn, payIn) == ScnW(C, before, wt, ku, kb, finIn, payIn, "all")

\* the application reads the incoming streams through tokio's AsyncRead in fixed-size records (a read regularly starts with a partly
\* filled buffer): header and the first three payload bytes in one chunk, a longer chunk behind
PLong == <<97, 98, 99, 100, 101, 102, 103, 104, 105, 106, 107, 108, 109>>
ScnTokio(C, rec, kind) ==
    LET base == ScnX(C, 0, TRUE, Len(UniHdr(C)) + 3, Len(BiHdr(C)) + 3, TRUE, PLong, "all", FALSE)
    IN [base EXCEPT !.wt_prog = [i \in DOMAIN base.wt_prog |->
                                   IF base.wt_prog[i].op = kind THEN [op |-> kind, tokio_rec |-> rec] ELSE base.wt_prog[i]]]
\* a second session on the same connection: the CONNECT on stream 0 is accepted as the session, a CONNECT on stream 4 arrives through
\* accept_bi and is answered 200; an incoming bidirectional stream then names session 4 in its header
ScnTwo(kb, finIn) ==
    LET hdr == BiHdr(4) bytes == hdr \o PIn IN
    [part |-> "T", role |-> "server", connect_sid |-> 0, before |-> 0, wt |-> TRUE, fin_in |-> finIn, pay_in |-> PIn, uni_sid |-> 14, bi_sid |-> 8,
     cfg |-> [grease |-> FALSE, wt |-> TRUE, datagram |-> TRUE, ext_connect |-> TRUE, write |-> "all"], default_handler |-> Plain,
     wt_prog |-> <<[op |-> "accept_bi"], [op |-> "accept_bi"]>>,
     steps |-> <<Dl(2, PeerSettings), Dl(0, Frame(1, ConnectSec)), Dl(4, Frame(1, ConnectSec))>>
               \o SplitDeliver(8, bytes, kb) \o (IF finIn THEN <<[op |-> "fin", sid |-> 8]>> ELSE <<>>)]

VARIABLE out
Init == out = <<>>
Next == /\ out = <<>>
        /\ \/ \E C \in {0, 4, 8, 252, 256, 65536}, finIn \in BOOLEAN, payIn \in {PIn, <<>>} :
                 \E ku \in 0..Len(UniHdr(C) \o payIn), kb \in {0, 1, 2, 3} : out' = Scn(C, 0, TRUE, ku, kb, finIn, payIn)
           \/ \E C \in {4, 256}, finIn \in BOOLEAN : \E kb \in 0..Len(BiHdr(C) \o PIn) : out' = Scn(C, 0, TRUE, 0, kb, finIn, PIn)
           \/ \E before \in {1, 2}, finIn \in BOOLEAN : out' = Scn(4 * before, before, TRUE, 0, 0, finIn, PIn)
           \/ \E C \in {0, 4} : \E ku \in {0, 2} : out' = Scn(C, 0, FALSE, ku, 0, TRUE, PIn)
           \* the application splits the incoming bidirectional stream before reading it (header and payload cut at every offset)
           \/ \E C \in {0, 256}, finIn \in {TRUE} : \E kb \in 0..Len(BiHdr(C) \o PIn) : out' = ScnX(C, 0, TRUE, 0, kb, finIn, PIn, "all", TRUE)
           \/ \E C \in {0, 256}, rec \in {8, 2, 5}, kind \in {"accept_uni", "accept_bi"} : out' = ScnTokio(C, rec, kind)
           \/ \E kb \in {0, 1, 2, 3, 4}, finIn \in {TRUE} : out' = ScnTwo(kb, finIn)
           \* the transport takes the server's writes (stream headers included) one or three bytes at a time
           \/ \E C \in {0, 252, 256, 65536}, wr \in {"1", "3"}, finIn \in BOOLEAN : out' = ScnW(C, 0, TRUE, 0, 0, finIn, PIn, wr)
Spec == Init /\ [][Next]_out
Emit == out = <<>> \/ PrintT(<<"SCN", ToJson(out)>>)
=============================================================================
