------------------------------ MODULE C13_Gen ------------------------------
(* Scenario generator for C13.                                                                                      *)
(*  part S (sending): every builder configuration - 4 booleans x grease x max_field_section_size and                  *)
(*          max_webtransport_sessions over {0,1,63,64,16383,16384,2^30-1,2^30,2^62-1,2^62,2^64-1} - for both roles    *)
(*          (the client builder has no WebTransport options); the trace keeps the connection set-up so that the       *)
(*          control stream bytes can be judged.                                                                       *)
(*  part R (receiving): SETTINGS payloads of up to 2 (3 thorough) entries over known, unknown, grease and             *)
(*          HTTP/2-reserved identifiers x boundary values, non-minimal varint forms, duplicates, truncation at         *)
(*          every byte, delivered after the control stream type; then a probe that observes the applied limit:        *)
(*          client: a request of field-section size 167; server: a response to a delivered request.                    *)
EXTENDS H3Frame, Json, TLC

CONSTANT Entries     \* max entries per received payload

Vals == { Zero, FromInt(1), FromInt(63), FromInt(64), FromInt(16383), FromInt(16384), FromInt(1073741823), FromInt(1073741824),
          Max62, Pow2(62), MaxU64 }
Bools == {FALSE, TRUE}

CfgS(role, g, mf, wt, ec, dg, ms) ==
    IF role = "server"
    THEN [setup_log |-> TRUE, grease |-> g, max_field |-> mf, wt |-> wt, ext_connect |-> ec, datagram |-> dg, max_wt_sessions |-> ms]
    ELSE [setup_log |-> TRUE, grease |-> g, max_field |-> mf, wt |-> FALSE, ext_connect |-> ec, datagram |-> dg, max_wt_sessions |-> Zero]

\* ---- received payloads ---------------------------------------------------------------------------------------------
Ids == { FromInt(1), FromInt(6), FromInt(7), FromInt(8), FromInt(51), FromInt(727725890), FromInt(727725891),
         FromInt(0), FromInt(2), FromInt(3), FromInt(4), FromInt(5), FromInt(33), FromInt(16448) }
RVals == { Zero, FromInt(1), FromInt(64), FromInt(166), FromInt(167), FromInt(168), Max62 }
Entry(id, v, wide) == IF wide /\ FitsN(id, 2) /\ FitsN(v, 4) THEN EncodeN(id, 2) \o EncodeN(v, 4) ELSE Encode(id) \o Encode(v)
EntrySet == { Entry(id, v, FALSE) : id \in Ids, v \in RVals } \cup { Entry(id, v, TRUE) : id \in {FromInt(6), FromInt(33)}, v \in {FromInt(166), FromInt(168)} }

ReqSection == <<0, 0, 209, 215, 80, 1, 97, 193>>     \* :method GET, :scheme https, :authority a, :path /   (size 167)
GET == <<71, 69, 84>>
Uri == <<104, 116, 116, 112, 115, 58, 47, 47, 97, 47>>
ProbeC == <<[op |-> "request", task |-> "probe", prog |-> <<[op |-> "send_request", method |-> GET, uri |-> Uri, fields |-> <<>>], [op |-> "hold"]>>]>>
\* server probe: a request arrives, the handler answers 200 with one field  x: <100 bytes>  (section size 42 + 133 = 175)
Val100 == [i \in 1..100 |-> 97]
ProbeS == <<[op |-> "deliver", sid |-> 0, bytes |-> Frame(1, ReqSection)], [op |-> "fin", sid |-> 0]>>
HandlerS == <<[op |-> "resolve"], [op |-> "send_response", status |-> 200, fields |-> << <<<<120>>, Val100>> >>], [op |-> "hold"]>>

ScnR(role, payload, cut) ==
    LET sid == IF role = "server" THEN 2 ELSE 3
        fr == Frame(4, payload)
        wire == <<0>> \o (IF cut < 0 THEN fr ELSE SubSeq(fr, 1, cut))
    IN [part |-> "R", role |-> role, cfg |-> [grease |-> FALSE], payload |-> payload, cut |-> cut, default_handler |-> HandlerS,
        steps |-> <<[op |-> "deliver", sid |-> sid, bytes |-> wire]>> \o (IF role = "client" THEN ProbeC ELSE ProbeS)]

VARIABLES stage, pl, out
Init == stage = 0 /\ pl = <<>> /\ out = <<>>
GenS == /\ stage = 0 /\ pl = <<>>
        /\ \E role \in {"server", "client"}, g \in Bools, mf \in Vals, ec \in Bools, dg \in Bools :
             \E wt \in (IF role = "server" THEN Bools ELSE {FALSE}), ms \in (IF role = "server" THEN Vals ELSE {Zero}) :
                out' = [part |-> "S", role |-> role, cfg |-> CfgS(role, g, mf, wt, ec, dg, ms), steps |-> <<>>]
        /\ stage' = 9 /\ UNCHANGED pl
AddEntry == /\ stage = 0 /\ Len(pl) < Entries
            /\ \E e \in EntrySet : pl' = Append(pl, e)
            /\ UNCHANGED <<stage, out>>
GenR == /\ stage = 0
        /\ LET payload == IF pl = <<>> THEN <<>> ELSE LET RECURSIVE F(_) F(i) == IF i > Len(pl) THEN <<>> ELSE pl[i] \o F(i + 1) IN F(1) IN
           \E role \in {"server", "client"} :
              \E cut \in {-1} \cup (IF Len(pl) = 1 THEN 1..(Len(payload) + 1) ELSE {}) : out' = ScnR(role, payload, cut)
        /\ stage' = 9 /\ UNCHANGED pl
\* every known identifier (and a reserved-form one) listed twice, whatever Entries is: a repeated known identifier is H3_SETTINGS_ERROR
KnownIds == { FromInt(1), FromInt(6), FromInt(7), FromInt(8), FromInt(51), FromInt(727725890), FromInt(727725891) }
GenDup == /\ stage = 0 /\ pl = <<>>
          /\ \E role \in {"server", "client"}, id \in KnownIds \cup {FromInt(33)}, vs \in { <<Zero, Zero>>, <<FromInt(1), FromInt(64)>> } :
                out' = ScnR(role, Entry(id, vs[1], FALSE) \o Entry(id, vs[2], FALSE), -1)
          /\ stage' = 9 /\ UNCHANGED pl
Next == GenS \/ AddEntry \/ GenR \/ GenDup
Spec == Init /\ [][Next]_<<stage, pl, out>>
Emit == stage # 9 \/ PrintT(<<"SCN", ToJson(out)>>)
=============================================================================
