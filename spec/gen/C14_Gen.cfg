SPECIFICATION Spec
CONSTANT MaxCalls = 3
INVARIANT Emit
CHECK_DEADLOCK FALSE
