//! h3v — conformance harness binding the TLA+ specifications under /verif/spec to the real hyperium/h3 code.
//!
//! Sub-commands (all read/write JSON lines; exit status 0 = ran to completion, 2 = tool error):
//!   codec <vectors.ndjson> <out.ndjson>        run TLC-generated codec vectors (binding A)
//!   codec-rand <prop> <seed> <n> <out.ndjson>  record randomly driven codec calls for TLC validation (binding B)
//!   sim <scenarios.ndjson> <out.ndjson>        run TLC-generated scenarios over the simulated QUIC transport
mod codec;
mod exec;
mod proj;
mod qdyn;
mod quinnh;
mod sched;
mod sim;
mod simquic;
mod util;
mod wt;

use std::process::exit;

fn main() {
    let args: Vec<String> = std::env::args().collect();
    if args.len() < 2 {
        eprintln!("usage: h3v <codec|codec-rand|sim|...> ...");
        exit(2);
    }
    // panics in the code under test are data: every call site uses catch_unwind; keep the default hook quiet
    std::panic::set_hook(Box::new(|_| {}));
    let r = match args[1].as_str() {
        "codec" => codec::run_vectors(&args[2], &args[3]),
        "codec-rand" => codec::run_random(&args[2], args[3].parse().unwrap_or(0), args[4].parse().unwrap_or(1000), &args[5]),
        "sim" => sim::run_scenarios(&args[2], &args[3]),
        "qdyn" => qdyn::run(&args[2], &args[3]),
        "sched" => sched::run(&args[2], &args[3]),
        "quinn" => quinnh::run(&args[2], &args[3]),
        other => Err(format!("unknown sub-command {other}")),
    };
    if let Err(e) = r {
        eprintln!("h3v: tool error: {e}");
        exit(2);
    }
}
