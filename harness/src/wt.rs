//! WebTransport (h3-webtransport) and HTTP datagram (h3-datagram) applications for the scenario runner.
//!
//! The server task, after building the connection, accepts requests until the extended CONNECT arrives,
//! turns the connection into a `WebTransportSession` and then interprets a program of session operations:
//!   open_uni / open_bi {payload}        open a stream, write the payload through the unframed interface, finish
//!   accept_uni / accept_bi              wait for an incoming WebTransport stream, read it to the end
//!   send_datagram {payload} / read_datagram
use crate::proj;
use crate::sim::{Cfg, TaskCtx};
use crate::simquic::{Net, SimBidi, SimConn, SimRecv, SimSend};
use crate::util::*;
use bytes::{Buf, Bytes};
use h3::quic::{RecvStream as _, SendStream as _, SendStreamUnframed as _, StreamId};
use h3_webtransport::server::{AcceptedBi, WebTransportSession};
use serde_json::{json, Value};
use std::future::{poll_fn, Future};
use std::pin::Pin;

fn sess(id: h3::webtransport::SessionId) -> u64 {
    StreamId::from(id).into_inner()
}

async fn read_all<R: h3::quic::RecvStream>(tc: &TaskCtx, r: &mut R, api: &str, sid: u64) -> Value {
    let mut out: Vec<u8> = vec![];
    loop {
        let x = tc.call(api, &format!("rx:{sid}"), poll_fn(|cx| r.poll_data(cx))).await;
        match x {
            Ok(Some(mut b)) => {
                while b.has_remaining() {
                    let c = b.chunk().to_vec();
                    b.advance(c.len());
                    out.extend(c);
                }
            }
            Ok(None) => return json!({"k": "eof", "bytes": jbytes(&out)}),
            Err(_) => return json!({"k": "read_err", "bytes": jbytes(&out)}),
        }
    }
}

/// Reads to the end through tokio's `AsyncRead`, in records of `rec` bytes: each record buffer is offered again and again until it
/// is full (what `read_exact` does), so reads regularly start with a partly filled buffer.
async fn read_all_tokio<R: tokio::io::AsyncRead + Unpin>(tc: &TaskCtx, r: &mut R, api: &str, sid: u64, rec: usize) -> Value {
    let mut out: Vec<u8> = vec![];
    loop {
        let mut arr = vec![0u8; rec.max(1)];
        let mut rb = tokio::io::ReadBuf::new(&mut arr);
        let mut eof = false;
        while rb.remaining() > 0 {
            let before = rb.filled().len();
            let x = tc.call(api, &format!("rx:{sid}"), poll_fn(|cx| std::pin::Pin::new(&mut *r).poll_read(cx, &mut rb))).await;
            if x.is_err() {
                out.extend_from_slice(rb.filled());
                return json!({"k": "read_err", "bytes": jbytes(&out)});
            }
            if rb.filled().len() == before {
                eof = true;
                break;
            }
        }
        out.extend_from_slice(rb.filled());
        if eof {
            return json!({"k": "eof", "bytes": jbytes(&out)});
        }
    }
}

async fn write_all<S: h3::quic::SendStreamUnframed<Bytes>>(tc: &TaskCtx, s: &mut S, payload: &[u8], api: &str) -> Value {
    let sid = s.send_id().into_inner();
    let mut buf = Bytes::copy_from_slice(payload);
    while buf.has_remaining() {
        let r = tc.call(api, &format!("tx:{sid}"), poll_fn(|cx| s.poll_send(cx, &mut buf))).await;
        if r.is_err() {
            return json!({"k": "write_err", "sid": sid});
        }
    }
    let f = tc.call(api, &format!("tx:{sid}"), poll_fn(|cx| s.poll_finish(cx))).await;
    json!({"k": if f.is_ok() { "ok" } else { "finish_err" }, "sid": sid})
}

pub fn wt_server_task(tc: TaskCtx, net: Net, cfg: Cfg, prog: Vec<Value>, plain_handler: Vec<Value>) -> Pin<Box<dyn Future<Output = ()>>> {
    Box::pin(async move {
        let built = tc.call("build", "conn", cfg.server_builder().build::<SimConn, Bytes>(net.conn())).await;
        let mut conn = match built {
            Ok(c) => {
                tc.ret("build", json!({"k": "ok"}));
                c
            }
            Err(e) => {
                tc.ret("build", proj::conn_err(&e));
                return;
            }
        };
        // accept requests until the extended CONNECT shows up; ordinary ones get the plain handler
        let (req, stream) = loop {
            let a = tc.call("accept", "conn", conn.accept()).await;
            match a {
                Ok(Some(resolver)) => {
                    let sid = resolver.frame_stream.id().into_inner();
                    tc.ret("accept", json!({"k": "some", "sid": sid}));
                    match tc.call("resolve_request", &format!("rx:{sid}"), resolver.resolve_request()).await {
                        Ok((req, stream)) => {
                            tc.ret("resolve_request", proj::request(&req));
                            if req.method() == http::Method::CONNECT {
                                break (req, stream);
                            }
                            let htc = tc.child(&format!("h{}", sid));
                            tc.spawn(&htc, crate::sim::run_stream_ops::<crate::sim::SrvW, crate::sim::SrvS, crate::sim::SrvR>(htc.clone(), plain_handler.clone(), crate::sim::Handle::Whole(stream)));
                        }
                        Err(e) => tc.ret("resolve_request", proj::stream_err(&e)),
                    }
                }
                Ok(None) => {
                    tc.ret("accept", json!({"k": "none"}));
                    return;
                }
                Err(e) => {
                    tc.ret("accept", proj::conn_err(&e));
                    return;
                }
            }
        };
        let connect_sid = stream.id().into_inner();
        let session = match tc.call("wt_accept", &format!("tx:{connect_sid}"), WebTransportSession::accept(req, stream, conn)).await {
            Ok(s) => {
                tc.ret("wt_accept", json!({"k": "ok", "session": sess(s.session_id()), "connect_sid": connect_sid}));
                s
            }
            Err(e) => {
                tc.ret("wt_accept", proj::stream_err(&e));
                return;
            }
        };
        let mut kept = vec![];
        for op in prog {
            let payload = bytes_of(&op["payload"]);
            match op["op"].as_str().unwrap_or("") {
                "open_uni" => {
                    let r = tc.call("open_uni", "open_uni", session.open_uni(session.session_id())).await;
                    match r {
                        Ok(mut s) => {
                            let v = write_all(&tc, &mut s, &payload, "open_uni").await;
                            tc.ret("open_uni", v);
                        }
                        Err(e) => tc.ret("open_uni", proj::stream_err(&e)),
                    }
                }
                "open_bi" => {
                    let r = tc.call("open_bi", "open_bidi", session.open_bi(session.session_id())).await;
                    match r {
                        Ok(mut s) => {
                            let v = write_all(&tc, &mut s, &payload, "open_bi").await;
                            tc.ret("open_bi", v);
                        }
                        Err(e) => tc.ret("open_bi", proj::stream_err(&e)),
                    }
                }
                "accept_uni" => {
                    let r = tc.call("accept_uni", "conn", session.accept_uni()).await;
                    match r {
                        Ok(Some((sid, mut s))) => {
                            let id = s.recv_id().into_inner();
                            let mut v = match op["tokio_rec"].as_u64() {
                                Some(n) => read_all_tokio(&tc, &mut s, "accept_uni", id, n as usize).await,
                                None => read_all(&tc, &mut s, "accept_uni", id).await,
                            };
                            v["session"] = json!(sess(sid));
                            v["sid"] = json!(id);
                            tc.ret("accept_uni", v);
                        }
                        Ok(None) => tc.ret("accept_uni", json!({"k": "none"})),
                        Err(e) => tc.ret("accept_uni", proj::conn_err(&e)),
                    }
                }
                "accept_bi" => {
                    let r = tc.call("accept_bi", "conn", session.accept_bi()).await;
                    match r {
                        Ok(Some(AcceptedBi::BidiStream(sid, mut s))) => {
                            let id = s.recv_id().into_inner();
                            // `split`: the application splits the stream before reading (what was buffered behind the header
                            // must come out of the receiving half)
                            let mut v = if let Some(n) = op["tokio_rec"].as_u64() {
                                read_all_tokio(&tc, &mut s, "accept_bi", id, n as usize).await
                            } else if op["split"] == true {
                                let (_snd, mut rcv) = h3::quic::BidiStream::<Bytes>::split(s);
                                read_all(&tc, &mut rcv, "accept_bi", id).await
                            } else {
                                read_all(&tc, &mut s, "accept_bi", id).await
                            };
                            v["session"] = json!(sess(sid));
                            v["sid"] = json!(id);
                            tc.ret("accept_bi", v);
                        }
                        Ok(Some(AcceptedBi::Request(req, mut rs))) => {
                            // another request on the connection of the session (e.g. the CONNECT of a second session): answered 200 and kept open
                            let sid = rs.id().into_inner();
                            let resp = http::Response::builder().status(200).body(()).expect("response");
                            let r = tc.call("send_response", &format!("tx:{sid}"), rs.send_response(resp)).await;
                            let mut v = proj::request(&req);
                            v["k"] = json!("other_request");
                            v["sid"] = json!(sid);
                            v["answered"] = json!(r.is_ok());
                            tc.ret("accept_bi_request", v);
                            kept.push(rs);
                        }
                        Ok(None) => tc.ret("accept_bi", json!({"k": "none"})),
                        Err(e) => tc.ret("accept_bi", proj::stream_err(&e)),
                    }
                }
                "send_datagram" => {
                    let mut snd = session.datagram_sender();
                    match snd.send_datagram(Bytes::copy_from_slice(&payload)) {
                        Ok(()) => tc.ret("send_datagram", json!({"k": "ok"})),
                        Err(e) => tc.ret("send_datagram", json!({"k": "dgram_err", "why": format!("{}", e)})),
                    }
                }
                "read_datagram" => {
                    let mut rd = session.datagram_reader();
                    match tc.call("read_datagram", "conn", rd.read_datagram()).await {
                        Ok(d) => tc.ret("read_datagram", json!({"k": "datagram", "sid": d.stream_id().into_inner(), "payload": jbytes(&d.payload()[..])})),
                        Err(e) => tc.ret("read_datagram", proj::stream_err(&e)),
                    }
                }
                "hold" => {
                    tc.status.set("hold", "script");
                    std::future::pending::<()>().await;
                }
                other => tc.ret(other, json!({"k": "unknown_op"})),
            }
        }
        tc.status.set("hold", "script");
        std::future::pending::<()>().await;
        drop(session);
    })
}

#[allow(dead_code)]
fn _types(_: SimBidi, _: SimRecv, _: SimSend) {}
