//! qdyn — drives the real stateful QPACK `Encoder` / `Decoder` pair (hook re-exports `qpack::verif`) through a
//! scenario of operations and records every byte string they exchange, for validation by spec/trace/C20_Trace.tla.
//! The harness interprets nothing: instruction and header-block bytes are logged verbatim.
use crate::util::*;
use h3::qpack::verif::{ack_header, stream_canceled, Decoder, DynamicTable, Encoder};
use h3::qpack::HeaderField;
use serde_json::{json, Value};
use std::collections::HashMap;
use std::io::{BufRead, BufReader, BufWriter, Cursor, Write};

fn fields_of(v: &Value) -> Vec<HeaderField> {
    v.as_array().map(|a| a.iter().map(|f| HeaderField::new(bytes_of(&f[0]), bytes_of(&f[1]))).collect()).unwrap_or_default()
}
fn jfields(f: &[HeaderField]) -> Value {
    json!(f.iter().map(|x| json!([jbytes(&x.name[..]), jbytes(&x.value[..])])).collect::<Vec<_>>())
}

pub fn run_one(scn: &Value) -> Vec<Value> {
    let mut evs = vec![json!({"ev": "reset", "scn": scn["id"], "capacity": scn["capacity"], "max_blocked": scn["max_blocked"]})];
    let cap = scn["capacity"].as_u64().unwrap_or(0) as usize;
    let mb = scn["max_blocked"].as_u64().unwrap_or(0) as usize;
    let mk = || {
        let mut t = DynamicTable::new();
        let _ = t.set_max_size(cap);
        let _ = t.set_max_blocked(mb);
        t
    };
    let mut encoder = Encoder::from(mk());
    let mut decoder = Decoder::from(mk());
    let mut enc_pending: Vec<u8> = vec![]; // encoder stream bytes not yet consumed by the decoder
    let mut dec_pending: Vec<u8> = vec![]; // decoder stream bytes not yet delivered to the encoder
    let mut blocks: HashMap<u64, Vec<(Vec<u8>, usize)>> = HashMap::new(); // (section bytes, required insert count)
    for (i, op) in scn["ops"].as_array().cloned().unwrap_or_default().iter().enumerate() {
        let stream = op["stream"].as_u64().unwrap_or(0);
        let r = std::panic::catch_unwind(std::panic::AssertUnwindSafe(|| match op["op"].as_str().unwrap_or("") {
            "encode" => {
                let fields = fields_of(&op["fields"]);
                let mut block = vec![];
                let mut enc = vec![];
                match encoder.encode(stream, &mut block, &mut enc, fields.iter()) {
                    Ok(ric) => {
                        enc_pending.extend_from_slice(&enc);
                        blocks.entry(stream).or_default().push((block.clone(), ric));
                        json!({"ev": "encoded", "stream": stream, "fields": jfields(&fields), "block": jbytes(&block), "enc": jbytes(&enc), "ric": ric})
                    }
                    Err(e) => json!({"ev": "encode_error", "stream": stream, "why": format!("{:?}", e)}),
                }
            }
            "deliver_enc" => {
                let n = op["n"].as_u64().map(|x| x as usize).unwrap_or(enc_pending.len()).min(enc_pending.len());
                let chunk: Vec<u8> = enc_pending[..n].to_vec();
                let mut cur = Cursor::new(&chunk);
                let mut out = vec![];
                match decoder.on_encoder_recv(&mut cur, &mut out) {
                    Ok(cnt) => {
                        let used = cur.position() as usize;
                        let consumed: Vec<u8> = enc_pending.drain(..used).collect();
                        dec_pending.extend_from_slice(&out);
                        json!({"ev": "enc_delivered", "bytes": jbytes(&consumed), "offered": n, "dec_out": jbytes(&out), "inserted": cnt})
                    }
                    Err(e) => json!({"ev": "enc_recv_error", "why": format!("{:?}", e)}),
                }
            }
            "decode" => {
                let b = blocks.get(&stream).and_then(|v| v.first()).map(|x| x.0.clone());
                match b {
                    None => json!({"ev": "noop", "i": i}),
                    Some(block) => {
                        let mut cur = Cursor::new(&block);
                        match decoder.decode_header(&mut cur) {
                            Ok(d) => json!({"ev": "decoded", "stream": stream, "res": {"k": "fields", "fields": jfields(&d.fields)}}),
                            Err(h3::qpack::DecoderError::MissingRefs(n)) => json!({"ev": "decoded", "stream": stream, "res": {"k": "blocked", "ric": n}}),
                            Err(e) => json!({"ev": "decoded", "stream": stream, "res": {"k": "error", "why": format!("{:?}", e)}}),
                        }
                    }
                }
            }
            "ack" => {
                // the decoder acknowledges the oldest outstanding section of the stream
                let had = blocks.get_mut(&stream).and_then(|v| if v.is_empty() { None } else { Some(v.remove(0)) });
                if had.is_none() {
                    json!({"ev": "noop", "i": i})
                } else {
                    let mut b = vec![];
                    // RFC 9204 4.4.1: only sections with a non-zero Required Insert Count are acknowledged
                    if had.unwrap().1 > 0 {
                        ack_header(stream, &mut b);
                    }
                    dec_pending.extend_from_slice(&b);
                    json!({"ev": "ack_sent", "stream": stream, "bytes": jbytes(&b)})
                }
            }
            "cancel" => {
                let n = blocks.remove(&stream).map(|v| v.len()).unwrap_or(0);
                let mut b = vec![];
                if n > 0 {
                    stream_canceled(stream, &mut b);
                }
                dec_pending.extend_from_slice(&b);
                json!({"ev": "cancel_sent", "stream": stream, "dropped": n, "bytes": jbytes(&b)})
            }
            "deliver_dec" => {
                let chunk = std::mem::take(&mut dec_pending);
                let mut cur = Cursor::new(&chunk);
                match encoder.on_decoder_recv(&mut cur) {
                    Ok(()) => {
                        let used = cur.position() as usize;
                        dec_pending = chunk[used..].to_vec();
                        json!({"ev": "dec_delivered", "bytes": jbytes(&chunk[..used])})
                    }
                    Err(e) => json!({"ev": "dec_recv_error", "why": format!("{:?}", e), "bytes": jbytes(&chunk)}),
                }
            }
            other => json!({"ev": "unknown_op", "op": other}),
        }));
        match r {
            Ok(v) => evs.push(v),
            Err(e) => {
                let msg = e.downcast_ref::<&str>().map(|s| s.to_string()).or_else(|| e.downcast_ref::<String>().cloned()).unwrap_or_else(|| "panic".into());
                evs.push(json!({"ev": "panic", "op": op["op"], "msg": msg}));
                break;
            }
        }
    }
    evs.push(json!({"ev": "quiesce"}));
    evs
}

pub fn run(inp: &str, out: &str) -> Result<(), String> {
    let r = BufReader::new(std::fs::File::open(inp).map_err(|e| format!("{inp}: {e}"))?);
    let mut w = BufWriter::new(std::fs::File::create(out).map_err(|e| format!("{out}: {e}"))?);
    for line in r.lines() {
        let line = line.map_err(|e| e.to_string())?;
        if line.trim().is_empty() {
            continue;
        }
        let scn: Value = serde_json::from_str(&line).map_err(|e| e.to_string())?;
        for e in run_one(&scn) {
            writeln!(w, "{}", e).map_err(|e| e.to_string())?;
        }
    }
    Ok(())
}
