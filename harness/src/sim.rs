//! h3sim — executes TLC-generated scenarios against the real h3 client / server code over `simquic`,
//! with small interpreted "applications" that follow the documented call patterns, and records one
//! ndjson event per scenario step, API return and transport effect.
use crate::exec::{Exec, SpawnQueue, Status};
use crate::proj;
use crate::simquic::{Log, Net, PeerClose, Role, SimBidi, SimConn, SimOpener, SimRecv, SimSend, WriteMode};
use crate::util::*;
use bytes::{Buf, Bytes};
use h3::error::StreamError;
use serde_json::{json, Value};
use std::cell::RefCell;
use std::collections::VecDeque;
use std::future::Future;
use std::io::{BufRead, BufReader, BufWriter, Write};
use std::pin::Pin;
use std::rc::Rc;
use std::task::{Context, Poll, Waker};

// ------------------------------------------------------------------------------------------ task context
#[derive(Clone)]
pub struct TaskCtx {
    pub name: String,
    pub status: Status,
    pub log: Log,
    pub spawnq: SpawnQueue,
    pub pokes: Rc<RefCell<std::collections::HashMap<String, (u64, Option<Waker>)>>>,
}

impl TaskCtx {
    pub fn child(&self, name: &str) -> TaskCtx {
        TaskCtx { name: name.to_string(), status: Status::default(), log: self.log.clone(), spawnq: self.spawnq.clone(), pokes: self.pokes.clone() }
    }
    pub async fn call<F: Future>(&self, api: &str, waits: &str, fut: F) -> F::Output {
        self.status.set(api, waits);
        let r = fut.await;
        self.status.clear();
        r
    }
    pub fn ret(&self, api: &str, res: Value) {
        self.log.push(json!({"ev": "ret", "task": self.name, "api": api, "res": res}));
    }
    pub fn spawn<F: Future<Output = ()> + 'static>(&self, tc: &TaskCtx, fut: F) {
        self.log.push(json!({"ev": "task_start", "task": tc.name}));
        self.spawnq.borrow_mut().push((tc.name.clone(), tc.status.clone(), Box::pin(fut)));
    }
    /// wait until the scenario pokes this task (op "pause" in a program)
    pub async fn pause(&self) {
        self.status.set("pause", "script");
        let name = self.name.clone();
        let pokes = self.pokes.clone();
        std::future::poll_fn(move |cx| {
            let mut p = pokes.borrow_mut();
            let e = p.entry(name.clone()).or_insert((0, None));
            if e.0 > 0 {
                e.0 -= 1;
                Poll::Ready(())
            } else {
                e.1 = Some(cx.waker().clone());
                Poll::Pending
            }
        })
        .await;
        self.status.clear();
    }
}

pub fn pat(x: u64) -> u8 {
    ((x.wrapping_mul(31)).wrapping_add((x >> 8).wrapping_mul(17)).wrapping_add(7) & 0xff) as u8
}

pub fn fields_to_map(v: &Value) -> http::HeaderMap {
    let mut m = http::HeaderMap::new();
    if let Some(a) = v.as_array() {
        for f in a {
            let n = bytes_of(&f[0]);
            let val = bytes_of(&f[1]);
            if let (Ok(n), Ok(val)) = (http::HeaderName::from_bytes(&n), http::HeaderValue::from_bytes(&val)) {
                m.append(n, val);
            }
        }
    }
    m
}

// ------------------------------------------------------------------------------- uniform stream operations
#[allow(async_fn_in_trait)]
pub trait RecvOps {
    async fn recv_data(&mut self) -> Result<Option<Vec<u8>>, StreamError>;
    async fn recv_trailers(&mut self) -> Result<Option<http::HeaderMap>, StreamError>;
    fn stop_sending(&mut self, code: u64);
    fn rid(&self) -> u64;
    async fn recv_response(&mut self) -> Option<Result<http::Response<()>, StreamError>> {
        None
    }
}

#[allow(async_fn_in_trait)]
pub trait SendOps {
    async fn send_data(&mut self, b: Bytes) -> Result<(), StreamError>;
    async fn send_trailers(&mut self, t: http::HeaderMap) -> Result<(), StreamError>;
    async fn finish(&mut self) -> Result<(), StreamError>;
    fn stop_stream(&mut self, code: u64);
    async fn send_response(&mut self, _r: http::Response<()>) -> Option<Result<(), StreamError>> {
        None
    }
}

macro_rules! impl_recv {
    ($t:ty, $s:ty, $resp:expr) => {
        impl RecvOps for $t {
            async fn recv_data(&mut self) -> Result<Option<Vec<u8>>, StreamError> {
                let r = <$t>::recv_data(self).await?;
                Ok(r.map(|mut b| {
                    let mut v = Vec::with_capacity(b.remaining());
                    while b.has_remaining() {
                        let c = b.chunk();
                        let k = c.len();
                        v.extend_from_slice(c);
                        b.advance(k);
                    }
                    v
                }))
            }
            async fn recv_trailers(&mut self) -> Result<Option<http::HeaderMap>, StreamError> {
                <$t>::recv_trailers(self).await
            }
            fn stop_sending(&mut self, code: u64) {
                <$t>::stop_sending(self, h3::error::Code::from(code))
            }
            fn rid(&self) -> u64 {
                self.id().into_inner()
            }
            async fn recv_response(&mut self) -> Option<Result<http::Response<()>, StreamError>> {
                let f: fn(&mut $t) -> Pin<Box<dyn Future<Output = Option<Result<http::Response<()>, StreamError>>> + '_>> = $resp;
                f(self).await
            }
        }
    };
}

macro_rules! impl_send {
    ($t:ty, $resp:expr) => {
        impl SendOps for $t {
            async fn send_data(&mut self, b: Bytes) -> Result<(), StreamError> {
                <$t>::send_data(self, b).await
            }
            async fn send_trailers(&mut self, t: http::HeaderMap) -> Result<(), StreamError> {
                <$t>::send_trailers(self, t).await
            }
            async fn finish(&mut self) -> Result<(), StreamError> {
                <$t>::finish(self).await
            }
            fn stop_stream(&mut self, code: u64) {
                <$t>::stop_stream(self, h3::error::Code::from(code))
            }
            async fn send_response(&mut self, r: http::Response<()>) -> Option<Result<(), StreamError>> {
                let f: fn(&mut $t, http::Response<()>) -> Pin<Box<dyn Future<Output = Option<Result<(), StreamError>>> + '_>> = $resp;
                f(self, r).await
            }
        }
    };
}

pub type SrvW = h3::server::RequestStream<SimBidi, Bytes>;
pub type SrvS = h3::server::RequestStream<SimSend, Bytes>;
pub type SrvR = h3::server::RequestStream<SimRecv, Bytes>;
type CliW = h3::client::RequestStream<SimBidi, Bytes>;
type CliS = h3::client::RequestStream<SimSend, Bytes>;
type CliR = h3::client::RequestStream<SimRecv, Bytes>;

impl_recv!(SrvW, SimBidi, |_s| Box::pin(async { None }));
impl_recv!(SrvR, SimRecv, |_s| Box::pin(async { None }));
impl_recv!(CliW, SimBidi, |s| Box::pin(async move { Some(s.recv_response().await) }));
impl_recv!(CliR, SimRecv, |s| Box::pin(async move { Some(s.recv_response().await) }));
impl_send!(SrvW, |s, r| Box::pin(async move { Some(s.send_response(r).await) }));
impl_send!(SrvS, |s, r| Box::pin(async move { Some(s.send_response(r).await) }));
impl_send!(CliW, |_s, _r| Box::pin(async { None }));
impl_send!(CliS, |_s, _r| Box::pin(async { None }));

pub trait Splittable: Sized {
    type S: SendOps + 'static;
    type R: RecvOps + 'static;
    fn do_split(self) -> (Self::S, Self::R);
}
impl Splittable for SrvW {
    type S = SrvS;
    type R = SrvR;
    fn do_split(self) -> (SrvS, SrvR) {
        self.split()
    }
}
impl Splittable for CliW {
    type S = CliS;
    type R = CliR;
    fn do_split(self) -> (CliS, CliR) {
        self.split()
    }
}

pub enum Handle<W, S, R> {
    Whole(W),
    Send(S),
    Recv(R),
    Gone,
}

fn data_res(tc_off: &mut u64, d: &[u8]) -> Value {
    let off = *tc_off;
    *tc_off += d.len() as u64;
    if d.len() <= 48 {
        json!({"k": "data", "off": off, "len": d.len(), "bytes": jbytes(d)})
    } else {
        let ok = d.iter().enumerate().all(|(i, b)| *b == pat(off + i as u64));
        json!({"k": "data", "off": off, "len": d.len(), "pat_ok": ok})
    }
}

fn body_bytes(op: &Value, sent_off: &mut u64) -> Bytes {
    if op.get("bytes").is_some() {
        let b = bytes_of(&op["bytes"]);
        *sent_off += b.len() as u64;
        Bytes::from(b)
    } else {
        let n = op["len"].as_u64().unwrap_or(0);
        let v: Vec<u8> = (0..n).map(|i| pat(*sent_off + i)).collect();
        *sent_off += n;
        Bytes::from(v)
    }
}

/// Interprets a program of stream operations on a request stream (whole or one half).
pub fn run_stream_ops<W, S, R>(tc: TaskCtx, ops: Vec<Value>, h: Handle<W, S, R>) -> Pin<Box<dyn Future<Output = ()>>>
where
    W: RecvOps + SendOps + Splittable<S = S, R = R> + 'static,
    S: SendOps + 'static,
    R: RecvOps + 'static,
{
    run_stream_ops_from(tc, ops, h, 0, 0)
}

/// `recv_off0` / `sent_off0`: body bytes already received / sent on this stream (a stream split after some I/O)
pub fn run_stream_ops_from<W, S, R>(tc: TaskCtx, ops: Vec<Value>, h: Handle<W, S, R>, recv_off0: u64, sent_off0: u64) -> Pin<Box<dyn Future<Output = ()>>>
where
    W: RecvOps + SendOps + Splittable<S = S, R = R> + 'static,
    S: SendOps + 'static,
    R: RecvOps + 'static,
{
    Box::pin(async move {
        let mut h = h;
        let mut recv_off = recv_off0;
        let mut sent_off = sent_off0;
        macro_rules! on_recv {
            ($x:ident, $body:expr, $none:expr) => {
                match &mut h {
                    Handle::Whole($x) => $body,
                    Handle::Recv($x) => $body,
                    _ => $none,
                }
            };
        }
        macro_rules! on_send {
            ($x:ident, $body:expr, $none:expr) => {
                match &mut h {
                    Handle::Whole($x) => $body,
                    Handle::Send($x) => $body,
                    _ => $none,
                }
            };
        }
        let unsupported = |tc: &TaskCtx, api: &str| tc.ret(api, json!({"k": "unsupported"}));
        // a split whose receiving half goes on in this task (the sending half is kept alive until the task ends)
        let mut kept_send: Option<S> = None;
        macro_rules! split_keep_recv {
            () => {
                h = match std::mem::replace(&mut h, Handle::Gone) {
                    Handle::Whole(w) => {
                        let (s, r) = w.do_split();
                        kept_send = Some(s);
                        tc.ret("split", json!({"k": "ok"}));
                        Handle::Recv(r)
                    }
                    o => o,
                };
            };
        }
        for op in ops {
            let name = op["op"].as_str().unwrap_or("").to_string();
            let sid = match &h {
                Handle::Whole(x) => x.rid() as i64,
                Handle::Recv(x) => x.rid() as i64,
                _ => -1,
            };
            let rx = format!("rx:{sid}");
            let tx = format!("tx:{sid}");
            match name.as_str() {
                "recv_response" => {
                    let r = on_recv!(x, tc.call("recv_response", &rx, x.recv_response()).await, None);
                    match r {
                        None => unsupported(&tc, "recv_response"),
                        Some(Ok(resp)) => tc.ret("recv_response", proj::response(&resp)),
                        Some(Err(e)) => {
                            tc.ret("recv_response", proj::stream_err(&e));
                            if op["on_err"] != "continue" {
                                break;
                            }
                        }
                    }
                }
                "recv_data" => {
                    let r = on_recv!(x, Some(tc.call("recv_data", &rx, x.recv_data()).await), None);
                    match r {
                        None => unsupported(&tc, "recv_data"),
                        Some(Ok(Some(d))) => tc.ret("recv_data", data_res(&mut recv_off, &d)),
                        Some(Ok(None)) => tc.ret("recv_data", json!({"k": "none"})),
                        Some(Err(e)) => tc.ret("recv_data", proj::stream_err(&e)),
                    }
                }
                "recv_body" => {
                    // recv_data until it reports the end of the body or an error; with "merge" the pieces are
                    // concatenated and logged as one data result (what the property compares is the byte sequence)
                    let merge = op["merge"] == true;
                    let split_after = op["split_after"].as_u64();
                    let mut acc: Vec<u8> = vec![];
                    let mut pieces = 0u64;
                    let mut stop = false;
                    loop {
                        let r = on_recv!(x, Some(tc.call("recv_data", &rx, x.recv_data()).await), None);
                        let flush = |tc: &TaskCtx, acc: &mut Vec<u8>, recv_off: &mut u64, pieces: u64| {
                            if merge && pieces > 0 {
                                let mut v = data_res(recv_off, acc);
                                v["pieces"] = json!(pieces);
                                tc.ret("recv_data", v);
                                acc.clear();
                            }
                        };
                        match r {
                            None => {
                                unsupported(&tc, "recv_data");
                                break;
                            }
                            Some(Ok(Some(d))) => {
                                pieces += 1;
                                if merge {
                                    acc.extend_from_slice(&d);
                                } else {
                                    tc.ret("recv_data", data_res(&mut recv_off, &d));
                                }
                                if split_after == Some(pieces) {
                                    split_keep_recv!();
                                }
                            }
                            Some(Ok(None)) => {
                                flush(&tc, &mut acc, &mut recv_off, pieces);
                                tc.ret("recv_data", json!({"k": "none"}));
                                break;
                            }
                            Some(Err(e)) => {
                                flush(&tc, &mut acc, &mut recv_off, pieces);
                                tc.ret("recv_data", proj::stream_err(&e));
                                stop = true;
                                break;
                            }
                        }
                    }
                    if stop && op["on_err"] != "continue" {
                        break;
                    }
                }
                "recv_trailers" => {
                    let r = on_recv!(x, Some(tc.call("recv_trailers", &rx, x.recv_trailers()).await), None);
                    match r {
                        None => unsupported(&tc, "recv_trailers"),
                        Some(Ok(Some(t))) => tc.ret("recv_trailers", json!({"k": "trailers", "fields": proj::header_map(&t)})),
                        Some(Ok(None)) => tc.ret("recv_trailers", json!({"k": "none"})),
                        Some(Err(e)) => tc.ret("recv_trailers", proj::stream_err(&e)),
                    }
                }
                "send_response" => {
                    let mut b = http::Response::builder().status(op["status"].as_u64().unwrap_or(200) as u16);
                    for (n, v) in fields_to_map(&op["fields"]).iter() {
                        b = b.header(n, v);
                    }
                    let resp = b.body(()).expect("response");
                    let r = on_send!(x, tc.call("send_response", &tx, x.send_response(resp)).await, None);
                    match r {
                        None => unsupported(&tc, "send_response"),
                        Some(Ok(())) => tc.ret("send_response", json!({"k": "ok"})),
                        Some(Err(e)) => tc.ret("send_response", proj::stream_err(&e)),
                    }
                }
                "send_data" => {
                    let b = body_bytes(&op, &mut sent_off);
                    let n = b.len();
                    let r = on_send!(x, Some(tc.call("send_data", &tx, x.send_data(b)).await), None);
                    match r {
                        None => unsupported(&tc, "send_data"),
                        Some(Ok(())) => tc.ret("send_data", json!({"k": "ok", "len": n})),
                        Some(Err(e)) => tc.ret("send_data", proj::stream_err(&e)),
                    }
                }
                "send_trailers" => {
                    let t = fields_to_map(&op["fields"]);
                    let r = on_send!(x, Some(tc.call("send_trailers", &tx, x.send_trailers(t)).await), None);
                    match r {
                        None => unsupported(&tc, "send_trailers"),
                        Some(Ok(())) => tc.ret("send_trailers", json!({"k": "ok"})),
                        Some(Err(e)) => tc.ret("send_trailers", proj::stream_err(&e)),
                    }
                }
                "finish" => {
                    let r = on_send!(x, Some(tc.call("finish", &tx, x.finish()).await), None);
                    match r {
                        None => unsupported(&tc, "finish"),
                        Some(Ok(())) => tc.ret("finish", json!({"k": "ok"})),
                        Some(Err(e)) => tc.ret("finish", proj::stream_err(&e)),
                    }
                }
                "stop_sending" => {
                    let c = op["code"].as_u64().unwrap_or(0);
                    on_recv!(x, x.stop_sending(c), ());
                    tc.ret("stop_sending", json!({"k": "ok"}));
                }
                "stop_stream" => {
                    let c = op["code"].as_u64().unwrap_or(0);
                    on_send!(x, x.stop_stream(c), ());
                    tc.ret("stop_stream", json!({"k": "ok"}));
                }
                "id" => {
                    tc.ret("id", json!({"k": "id", "sid": sid}));
                }
                "pause" => tc.pause().await,
                "drop" => {
                    h = Handle::Gone;
                    tc.ret("drop", json!({"k": "ok"}));
                    break;
                }
                "split_keep_recv" => {
                    split_keep_recv!();
                }
                "split" => {
                    let old = std::mem::replace(&mut h, Handle::Gone);
                    if let Handle::Whole(w) = old {
                        let (s, r) = w.do_split();
                        let tcs = tc.child(&format!("{}.s", tc.name));
                        let tcr = tc.child(&format!("{}.r", tc.name));
                        let sops = op["send"].as_array().cloned().unwrap_or_default();
                        let rops = op["recv"].as_array().cloned().unwrap_or_default();
                        tc.ret("split", json!({"k": "ok"}));
                        tc.spawn(&tcs, run_stream_ops_from::<W, S, R>(tcs.clone(), sops, Handle::Send(s), recv_off, sent_off));
                        tc.spawn(&tcr, run_stream_ops_from::<W, S, R>(tcr.clone(), rops, Handle::Recv(r), recv_off, sent_off));
                    } else {
                        unsupported(&tc, "split");
                    }
                    break;
                }
                "hold" => {
                    // keep the handle alive until the end of the scenario
                    tc.status.set("hold", "script");
                    std::future::pending::<()>().await;
                }
                other => tc.ret(other, json!({"k": "unknown_op"})),
            }
        }
        drop(h);
        drop(kept_send);
    })
}

// ------------------------------------------------------------------------------------------------ commands
#[derive(Clone, Debug)]
pub enum Cmd {
    Shutdown(usize),
    DropConn,
    StopAccept,
    StartAccept,
}

#[derive(Clone, Default)]
pub struct CmdQueue {
    pub q: Rc<RefCell<VecDeque<Cmd>>>,
    pub w: Rc<RefCell<Option<Waker>>>,
}

impl CmdQueue {
    pub fn push(&self, c: Cmd) {
        self.q.borrow_mut().push_back(c);
        if let Some(w) = self.w.borrow_mut().take() {
            w.wake();
        }
    }
    fn has(&self) -> bool {
        !self.q.borrow().is_empty()
    }
    fn pop(&self) -> Option<Cmd> {
        self.q.borrow_mut().pop_front()
    }
    fn park(&self, cx: &Context<'_>) {
        *self.w.borrow_mut() = Some(cx.waker().clone());
    }
}

pub struct Cfg {
    pub grease: bool,
    pub max_field: Option<u64>,
    pub inline_handlers: bool,
    pub wt: bool,
    pub ext_connect: bool,
    pub datagram: bool,
    pub max_wt_sessions: Option<u64>,
}

impl Cfg {
    pub fn from(v: &Value) -> Cfg {
        let num = |x: &Value| -> Option<u64> {
            if x.is_array() {
                Some(u64_of(x))
            } else {
                x.as_u64()
            }
        };
        Cfg {
            grease: v["grease"].as_bool().unwrap_or(false),
            inline_handlers: v["inline_handlers"].as_bool().unwrap_or(false),
            max_field: if v["max_field_huge"] == true { Some((1u64 << 62) - 1) } else { num(&v["max_field"]) },
            wt: v["wt"].as_bool().unwrap_or(false),
            ext_connect: v["ext_connect"].as_bool().unwrap_or(false),
            datagram: v["datagram"].as_bool().unwrap_or(false),
            max_wt_sessions: num(&v["max_wt_sessions"]),
        }
    }
    pub fn server_builder(&self) -> h3::server::Builder {
        let mut b = h3::server::builder();
        b.send_grease(self.grease);
        if let Some(m) = self.max_field {
            b.max_field_section_size(m);
        }
        b.enable_webtransport(self.wt);
        b.enable_extended_connect(self.ext_connect);
        b.enable_datagram(self.datagram);
        if let Some(m) = self.max_wt_sessions {
            b.max_webtransport_sessions(m);
        }
        b
    }
    pub fn client_builder(&self) -> h3::client::Builder {
        let mut b = h3::client::builder();
        b.send_grease(self.grease);
        if let Some(m) = self.max_field {
            b.max_field_section_size(m);
        }
        b.enable_extended_connect(self.ext_connect);
        b.enable_datagram(self.datagram);
        b
    }
}

type SrvHandle = Handle<SrvW, SrvS, SrvR>;
type CliHandle = Handle<CliW, CliS, CliR>;

fn handler_task(tc: TaskCtx, resolver: h3::server::RequestResolver<SimConn, Bytes>, prog: Vec<Value>) -> Pin<Box<dyn Future<Output = ()>>> {
    Box::pin(async move {
        let sid = resolver.frame_stream.id().into_inner();
        let mut prog: VecDeque<Value> = prog.into();
        let mut resolver = Some(resolver);
        // operations before "resolve" act on the resolver
        while let Some(op) = prog.front().cloned() {
            match op["op"].as_str().unwrap_or("") {
                "pause" => {
                    prog.pop_front();
                    tc.pause().await;
                }
                "drop" => {
                    resolver = None;
                    tc.ret("drop", json!({"k": "ok"}));
                    return;
                }
                "hold" => {
                    tc.status.set("hold", "script");
                    std::future::pending::<()>().await;
                }
                "resolve" => {
                    prog.pop_front();
                    break;
                }
                _ => break, // implicit resolve
            }
        }
        let Some(res) = resolver.take() else { return };
        let r = tc.call("resolve_request", &format!("rx:{sid}"), res.resolve_request()).await;
        match r {
            Ok((req, stream)) => {
                tc.ret("resolve_request", proj::request(&req));
                run_stream_ops::<SrvW, SrvS, SrvR>(tc.clone(), prog.into(), SrvHandle::Whole(stream)).await;
            }
            Err(e) => tc.ret("resolve_request", proj::stream_err(&e)),
        }
    })
}

/// The server driver task: builds the connection, then accepts requests (spawning one handler task per
/// request) and executes commands from the scenario (shutdown(n), drop) by cancelling the pending accept.
fn server_task(tc: TaskCtx, net: Net, cfg: Cfg, cmds: CmdQueue, handlers: Vec<Value>, default_handler: Vec<Value>, auto_accept: bool, by_sid: Vec<Value>) -> Pin<Box<dyn Future<Output = ()>>> {
    Box::pin(async move {
        let built = tc.call("build", "conn", cfg.server_builder().build::<SimConn, Bytes>(net.conn())).await;
        let mut conn = match built {
            Ok(c) => {
                tc.ret("build", json!({"k": "ok"}));
                c
            }
            Err(e) => {
                tc.ret("build", proj::conn_err(&e));
                return;
            }
        };
        let mut accepting = auto_accept;
        let mut accepted = 0usize;
        loop {
            // commands first
            while let Some(c) = cmds.pop() {
                match c {
                    Cmd::Shutdown(n) => {
                        let r = tc.call("shutdown", "tx:control", conn.shutdown(n)).await;
                        match r {
                            Ok(()) => tc.ret("shutdown", json!({"k": "ok", "n": if n > (1 << 30) { -1i64 } else { n as i64 }})),
                            Err(e) => tc.ret("shutdown", proj::conn_err(&e)),
                        }
                    }
                    Cmd::DropConn => {
                        drop(conn);
                        tc.ret("drop_conn", json!({"k": "ok"}));
                        return;
                    }
                    Cmd::StopAccept => accepting = false,
                    Cmd::StartAccept => accepting = true,
                }
            }
            if !accepting {
                tc.status.set("idle", "script");
                let c2 = cmds.clone();
                std::future::poll_fn(|cx| {
                    if c2.has() {
                        Poll::Ready(())
                    } else {
                        c2.park(cx);
                        Poll::Pending
                    }
                })
                .await;
                continue;
            }
            // accept, cancellable by a command
            tc.status.set("accept", "conn");
            let res = {
                let mut fut = Box::pin(conn.accept());
                let c2 = cmds.clone();
                std::future::poll_fn(|cx| {
                    if c2.has() {
                        return Poll::Ready(None);
                    }
                    c2.park(cx);
                    fut.as_mut().poll(cx).map(Some)
                })
                .await
            };
            tc.status.clear();
            match res {
                None => tc.ret("accept", json!({"k": "cancelled"})),
                Some(Ok(Some(resolver))) => {
                    let sid = resolver.frame_stream.id().into_inner();
                    tc.ret("accept", json!({"k": "some", "sid": sid}));
                    let prog = by_sid
                        .get((sid / 4) as usize)
                        .and_then(|h| h.as_array().cloned())
                        .or_else(|| handlers.get(accepted).and_then(|h| h.as_array().cloned()))
                        .unwrap_or(default_handler.clone());
                    accepted += 1;
                    let htc = tc.child(&format!("h{}", sid));
                    if cfg.inline_handlers {
                        // a server that answers each request before it asks for the next one (accept() is not polled meanwhile)
                        tc.log.push(json!({"ev": "task_start", "task": htc.name}));
                        handler_task(htc.clone(), resolver, prog).await;
                        tc.log.push(json!({"ev": "task_end", "task": htc.name}));
                    } else {
                        tc.spawn(&htc, handler_task(htc.clone(), resolver, prog));
                    }
                }
                Some(Ok(None)) => {
                    tc.ret("accept", json!({"k": "none"}));
                    accepting = false;
                }
                Some(Err(e)) => {
                    tc.ret("accept", proj::conn_err(&e));
                    // the driver reports the error on every later call: probe twice more
                    for _ in 0..2 {
                        let r = tc.call("accept", "conn", conn.accept()).await;
                        match r {
                            Err(e) => tc.ret("accept", proj::conn_err(&e)),
                            Ok(Some(_)) => tc.ret("accept", json!({"k": "some_after_error"})),
                            Ok(None) => tc.ret("accept", json!({"k": "none"})),
                        }
                    }
                    accepting = false;
                }
            }
        }
    })
}

type Sender = h3::client::SendRequest<SimOpener, Bytes>;

fn client_task(tc: TaskCtx, net: Net, cfg: Cfg, cmds: CmdQueue, sender_slot: Rc<RefCell<Option<Sender>>>) -> Pin<Box<dyn Future<Output = ()>>> {
    Box::pin(async move {
        let built = tc.call("build", "conn", cfg.client_builder().build::<SimConn, SimOpener, Bytes>(net.conn())).await;
        let mut conn = match built {
            Ok((c, s)) => {
                tc.ret("build", json!({"k": "ok"}));
                *sender_slot.borrow_mut() = Some(s);
                c
            }
            Err(e) => {
                tc.ret("build", proj::conn_err(&e));
                return;
            }
        };
        let mut driving = true;
        loop {
            while let Some(c) = cmds.pop() {
                match c {
                    Cmd::Shutdown(n) => {
                        let r = tc.call("shutdown", "tx:control", conn.shutdown(n)).await;
                        match r {
                            Ok(()) => tc.ret("shutdown", json!({"k": "ok", "n": if n > (1 << 30) { -1i64 } else { n as i64 }})),
                            Err(e) => tc.ret("shutdown", proj::conn_err(&e)),
                        }
                    }
                    Cmd::DropConn => {
                        drop(conn);
                        tc.ret("drop_conn", json!({"k": "ok"}));
                        return;
                    }
                    Cmd::StopAccept => driving = false,
                    Cmd::StartAccept => driving = true,
                }
            }
            if !driving {
                tc.status.set("idle", "script");
                let c2 = cmds.clone();
                std::future::poll_fn(|cx| {
                    if c2.has() {
                        Poll::Ready(())
                    } else {
                        c2.park(cx);
                        Poll::Pending
                    }
                })
                .await;
                continue;
            }
            tc.status.set("wait_idle", "conn");
            let res = {
                let c2 = cmds.clone();
                let connr = &mut conn;
                std::future::poll_fn(|cx| {
                    if c2.has() {
                        return Poll::Ready(None);
                    }
                    c2.park(cx);
                    connr.poll_close(cx).map(Some)
                })
                .await
            };
            tc.status.clear();
            match res {
                None => tc.ret("wait_idle", json!({"k": "cancelled"})),
                Some(e) => {
                    tc.ret("wait_idle", proj::conn_err(&e));
                    for _ in 0..2 {
                        let e = tc.call("wait_idle", "conn", conn.wait_idle()).await;
                        tc.ret("wait_idle", proj::conn_err(&e));
                    }
                    driving = false;
                }
            }
        }
    })
}

pub fn build_request(op: &Value) -> Result<http::Request<()>, String> {
    let method = http::Method::from_bytes(&bytes_of(&op["method"])).map_err(|e| e.to_string())?;
    let uri: http::Uri = http::Uri::try_from(bytes_of(&op["uri"])).map_err(|e| e.to_string())?;
    let mut b = http::Request::builder().method(method).uri(uri);
    for (n, v) in fields_to_map(&op["fields"]).iter() {
        b = b.header(n, v);
    }
    let mut req = b.body(()).map_err(|e| e.to_string())?;
    let p = bytes_of(&op["protocol"]);
    if !p.is_empty() {
        if let Ok(p) = String::from_utf8_lossy(&p).parse::<h3::ext::Protocol>() {
            req.extensions_mut().insert(p);
        }
    }
    Ok(req)
}

fn request_task(tc: TaskCtx, sender_slot: Rc<RefCell<Option<Sender>>>, prog: Vec<Value>) -> Pin<Box<dyn Future<Output = ()>>> {
    Box::pin(async move {
        let mut prog: VecDeque<Value> = prog.into();
        // the clone this task holds; its creation and its end are events (the client closes the connection with the last handle)
        struct Held {
            tc: TaskCtx,
            s: Sender,
        }
        impl Drop for Held {
            fn drop(&mut self) {
                // logged before the field `s` is dropped
                self.tc.log.push(json!({"ev": "sender_dropped", "task": self.tc.name}));
            }
        }
        let mut sender = match sender_slot.borrow().as_ref() {
            Some(s) => {
                tc.log.push(json!({"ev": "sender_cloned", "task": tc.name}));
                Held { tc: tc.clone(), s: s.clone() }
            }
            None => {
                tc.ret("send_request", json!({"k": "no_sender"}));
                return;
            }
        };
        while let Some(op) = prog.pop_front() {
            match op["op"].as_str().unwrap_or("") {
                "pause" => tc.pause().await,
                "send_request" => {
                    let req = match build_request(&op) {
                        Ok(r) => r,
                        Err(e) => {
                            tc.ret("send_request", json!({"k": "unbuildable", "why": e}));
                            return;
                        }
                    };
                    let r = tc.call("send_request", "open_bidi", sender.s.send_request(req)).await;
                    match r {
                        Ok(stream) => {
                            let sid = stream.id().into_inner();
                            tc.ret("send_request", json!({"k": "ok", "sid": sid}));
                            if op["keep_sender"] != true {
                                drop(sender);
                            }
                            run_stream_ops::<CliW, CliS, CliR>(tc.clone(), prog.into(), CliHandle::Whole(stream)).await;
                            return;
                        }
                        Err(e) => {
                            tc.ret("send_request", proj::stream_err(&e));
                            if op["on_err"] != "continue" {
                                return;
                            }
                        }
                    }
                }
                other => tc.ret(other, json!({"k": "unknown_op"})),
            }
        }
    })
}

// ---------------------------------------------------------------------------------------------- the runner
struct World {
    exec: Exec,
    log: Log,
    nets: Vec<(String, Net)>, // "s" / "c"
    srv_cmds: CmdQueue,
    cli_cmds: CmdQueue,
    sender_slot: Rc<RefCell<Option<Sender>>>,
    root: TaskCtx,
    pair: bool,
    /// pair mode: carry at most this many bytes per stream per round (0 = everything); random sizes up to it when pump_random
    pump_chunk: usize,
    pump_random: bool,
    log_xfer: bool,
}

impl World {
    fn net(&self, step: &Value) -> Net {
        let tag = step["net"].as_str().unwrap_or("");
        for (t, n) in self.nets.iter() {
            if t == tag {
                return n.clone();
            }
        }
        self.nets[0].1.clone()
    }

    /// pair mode: carry everything one endpoint did over to the other; returns true if anything moved
    fn pump(&mut self, only_from: Option<&str>, only_sid: Option<u64>, max: Option<usize>) -> bool {
        if !self.pair {
            return false;
        }
        let mut moved = false;
        for dir in 0..2 {
            let (from, to) = if dir == 0 { (&self.nets[0], &self.nets[1]) } else { (&self.nets[1], &self.nets[0]) };
            if let Some(f) = only_from {
                if f != from.0 {
                    continue;
                }
            }
            let pend = from.1.take_pending(only_sid, max);
            for (sid, bytes, fin, reset, stop) in pend {
                moved = true;
                if !to.1.knows(sid) {
                    if sid & 2 == 0 {
                        to.1.peer_open_bidi(sid);
                    } else {
                        to.1.peer_open_uni(sid);
                    }
                }
                if !bytes.is_empty() {
                    if self.log_xfer {
                        self.log.push(json!({"ev": "xfer", "from": from.0, "sid": sid, "len": bytes.len()}));
                    }
                    to.1.deliver(sid, &bytes);
                }
                if fin {
                    self.log.push(json!({"ev": "xfer_fin", "from": from.0, "sid": sid}));
                    to.1.peer_fin(sid);
                }
                if let Some(c) = reset {
                    self.log.push(json!({"ev": "xfer_reset", "from": from.0, "sid": sid, "code": c}));
                    to.1.peer_reset(sid, c);
                }
                if let Some(c) = stop {
                    self.log.push(json!({"ev": "xfer_stop", "from": from.0, "sid": sid, "code": c}));
                    to.1.peer_stop(sid, c);
                }
            }
            if let Some(code) = from.1.first_local_close() {
                if !to.1.peer_closed() {
                    moved = true;
                    self.log.push(json!({"ev": "xfer_close", "from": from.0, "code": code}));
                    to.1.peer_close(PeerClose::App(code));
                }
            }
        }
        moved
    }

    fn settle(&mut self) {
        for _ in 0..1_000_000 {
            self.exec.run();
            let max = match self.pump_chunk {
                0 => None,
                n => Some(if self.pump_random { 1 + (fastrand::usize(..) % n) } else { n }),
            };
            if !self.pump(None, None, max) {
                break;
            }
        }
    }
}

fn write_mode(v: &Value) -> WriteMode {
    if v == "manual" {
        WriteMode::Manual
    } else if let Some(n) = v.as_u64().or_else(|| v.as_str().and_then(|s| s.parse::<u64>().ok())) {
        WriteMode::PerPoll(n as usize)
    } else {
        WriteMode::All
    }
}

pub fn run_one(scn: &Value) -> Vec<Value> {
    let log = Log::default();
    let role = scn["role"].as_str().unwrap_or("server").to_string();
    let cfg = &scn["cfg"];
    if let Some(s) = cfg["fastrand_seed"].as_u64() {
        fastrand::seed(s);
    } else {
        fastrand::seed(7);
    }
    let mut exec = Exec::new(log.clone());
    exec.policy = match cfg["sched"].as_str() {
        Some("hi") => crate::exec::Policy::Hi,
        Some(x) if x.starts_with("rand:") => crate::exec::Policy::Rand(x[5..].parse::<u64>().unwrap_or(1).wrapping_mul(0x9E3779B97F4A7C15) | 1),
        _ => crate::exec::Policy::Lo,
    };
    let root = TaskCtx {
        name: "root".into(),
        status: Status::default(),
        log: log.clone(),
        spawnq: exec.spawnq.clone(),
        pokes: Rc::new(RefCell::new(Default::default())),
    };
    let mut w = World {
        exec,
        log: log.clone(),
        nets: vec![],
        srv_cmds: CmdQueue::default(),
        cli_cmds: CmdQueue::default(),
        sender_slot: Rc::new(RefCell::new(None)),
        root,
        pair: role == "pair",
        pump_chunk: cfg["pump_chunk"].as_u64().unwrap_or(0) as usize,
        pump_random: cfg["pump_random"].as_bool().unwrap_or(false),
        log_xfer: cfg["log_xfer"].as_bool().unwrap_or(false),
    };
    // everything the generator says about the scenario except the step list travels with the reset event
    let mut meta = serde_json::Map::new();
    if let Some(o) = scn.as_object() {
        for (k, v) in o.iter() {
            if !["steps", "handlers", "handlers_by_sid", "default_handler", "wt_prog", "cfg", "id", "role"].contains(&k.as_str()) {
                meta.insert(k.clone(), v.clone());
            }
        }
    }
    log.push(json!({"ev": "reset", "scn": scn["id"], "role": role, "cfg": cfg, "meta": meta, "wt": cfg["wt"].as_bool().unwrap_or(false)}));
    let mk_net = |r: Role, tag: &'static str, c: &Value| {
        let n = Net::new(r, tag, log.clone());
        {
            let mut g = n.lock();
            g.write_mode = write_mode(&c["write"]);
            if let Some(u) = c["uni_credit"].as_u64() {
                g.uni_credit = u;
            }
            if let Some(b) = c["bidi_credit"].as_u64() {
                g.bidi_credit = b;
            }
            g.keep_tx = role == "pair";
            g.log_wrote = cfg["log_wrote"].as_bool().unwrap_or(true);
            if let Some(a) = c["dgram_avail"].as_bool() {
                g.dgram_avail = a;
            }
        }
        n
    };
    if role == "server" || role == "pair" {
        let c = if role == "pair" { &cfg["server"] } else { cfg };
        let n = mk_net(Role::Server, "s", c);
        w.nets.push(("s".into(), n.clone()));
        let tc = w.root.child("srv");
        let handlers = scn["handlers"].as_array().cloned().unwrap_or_default();
        let default_handler = scn["default_handler"].as_array().cloned().unwrap_or_else(|| {
            vec![json!({"op": "resolve"}), json!({"op": "recv_body"}), json!({"op": "recv_trailers"})]
        });
        let auto = c["auto_accept"].as_bool().unwrap_or(true);
        let by_sid = scn["handlers_by_sid"].as_array().cloned().unwrap_or_default();
        let fut = if let Some(wp) = scn["wt_prog"].as_array() {
            crate::wt::wt_server_task(tc.clone(), n, Cfg::from(c), wp.clone(), default_handler.clone())
        } else {
            server_task(tc.clone(), n, Cfg::from(c), w.srv_cmds.clone(), handlers, default_handler, auto, by_sid)
        };
        w.exec.spawn("srv", tc.status.clone(), fut);
    }
    if role == "client" || role == "pair" {
        let c = if role == "pair" { &cfg["client"] } else { cfg };
        let n = mk_net(Role::Client, "c", c);
        if let Some(b) = c["first_bidi"].as_u64() {
            n.set_next_bidi(b);
        }
        w.nets.push(("c".into(), n.clone()));
        let tc = w.root.child("cli");
        let fut = client_task(tc.clone(), n, Cfg::from(c), w.cli_cmds.clone(), w.sender_slot.clone());
        w.exec.spawn("cli", tc.status.clone(), fut);
    }
    let auto_run = cfg["auto_run"].as_bool().unwrap_or(true);
    if auto_run {
        w.settle();
    }
    if cfg["setup_log"].as_bool() != Some(true) {
        // connection setup (control/QPACK streams, SETTINGS) is the same in every scenario: keep only the verdict
        let evs = log.take();
        for e in evs {
            if e["ev"] == "reset" || (e["ev"] == "ret" && e["api"] == "build") || e["ev"] == "panic" || e["ev"] == "h3_close" {
                log.push(e);
            }
        }
    }
    let steps = scn["steps"].as_array().cloned().unwrap_or_default();
    for (i, st) in steps.iter().enumerate() {
        let op = st["op"].as_str().unwrap_or("");
        let mut echo = st.clone();
        echo["ev"] = json!("step");
        echo["i"] = json!(i + 1);
        log.push(echo);
        let sid = st["sid"].as_u64().unwrap_or(0);
        let code = st["code"].as_u64().unwrap_or(0);
        match op {
            "open_uni" => w.net(st).peer_open_uni(sid),
            "open_bidi" => w.net(st).peer_open_bidi(sid),
            "deliver" => {
                let n = w.net(st);
                if !n.knows(sid) {
                    if sid & 2 == 0 {
                        n.peer_open_bidi(sid)
                    } else {
                        n.peer_open_uni(sid)
                    }
                }
                n.deliver(sid, &bytes_of(&st["bytes"]));
            }
            "fin" => {
                let n = w.net(st);
                if !n.knows(sid) {
                    if sid & 2 == 0 {
                        n.peer_open_bidi(sid)
                    } else {
                        n.peer_open_uni(sid)
                    }
                }
                n.peer_fin(sid)
            }
            "reset" => {
                let n = w.net(st);
                if !n.knows(sid) {
                    if sid & 2 == 0 {
                        n.peer_open_bidi(sid)
                    } else {
                        n.peer_open_uni(sid)
                    }
                }
                n.peer_reset(sid, code)
            }
            "stop" => w.net(st).peer_stop(sid, code),
            "close" => w.net(st).peer_close(if st["kind"] == "timeout" { PeerClose::Timeout } else { PeerClose::App(code) }),
            "grant" => w.net(st).grant(st["uni"].as_u64().unwrap_or(0), st["bidi"].as_u64().unwrap_or(0)),
            "accept_write" => w.net(st).accept_write(st.get("sid").and_then(|x| x.as_u64()), st["n"].as_u64().unwrap_or(u64::MAX / 2)),
            "datagram" => w.net(st).peer_datagram(&bytes_of(&st["bytes"])),
            "run" => {
                w.exec.run();
            }
            "settle" => w.settle(),
            "pump" => {
                let from = st["from"].as_str();
                let only_sid = st.get("sid").and_then(|x| x.as_u64());
                let max = st.get("n").and_then(|x| x.as_u64()).map(|x| x as usize);
                w.pump(from, only_sid, max);
            }
            "step" => {
                if let Some(i) = w.exec.find(st["task"].as_str().unwrap_or("")) {
                    w.exec.step(i);
                }
            }
            "poke" => {
                let name = st["task"].as_str().unwrap_or("").to_string();
                let mut p = w.root.pokes.borrow_mut();
                let e = p.entry(name).or_insert((0, None));
                e.0 += 1;
                if let Some(wk) = e.1.take() {
                    wk.wake();
                }
            }
            "shutdown" => {
                let q = if st["net"] == "c" { &w.cli_cmds } else { &w.srv_cmds };
                // (n_max: usize::MAX, n_pow: a power of two beyond what a scenario can write as a number)
                let n = if st["n_max"] == true {
                    usize::MAX
                } else if let Some(p) = st["n_pow"].as_u64() {
                    1usize << p
                } else {
                    st["n"].as_u64().unwrap_or(0) as usize
                };
                q.push(Cmd::Shutdown(n));
            }
            "drop_conn" => {
                let q = if st["net"] == "c" || role == "client" { &w.cli_cmds } else { &w.srv_cmds };
                q.push(Cmd::DropConn);
            }
            "stop_accept" => {
                let q = if st["net"] == "c" || role == "client" { &w.cli_cmds } else { &w.srv_cmds };
                q.push(Cmd::StopAccept);
            }
            "start_accept" => {
                let q = if st["net"] == "c" || role == "client" { &w.cli_cmds } else { &w.srv_cmds };
                q.push(Cmd::StartAccept);
            }
            "request" => {
                let name = st["task"].as_str().unwrap_or("req").to_string();
                let tc = w.root.child(&name);
                let prog = st["prog"].as_array().cloned().unwrap_or_default();
                let fut = request_task(tc.clone(), w.sender_slot.clone(), prog);
                w.exec.spawn(&name, tc.status.clone(), fut);
            }
            "drop_sender" => {
                let s = w.sender_slot.borrow_mut().take();
                drop(s);
            }
            _ => log.push(json!({"ev": "unknown_step", "op": op})),
        }
        if auto_run && op != "run" && op != "step" {
            if st["no_run"] != true {
                if w.pair && st["no_pump"] != true && cfg["auto_pump"].as_bool().unwrap_or(true) {
                    w.settle();
                } else {
                    w.exec.run();
                }
            }
        }
    }
    // final quiescence
    if w.pair && cfg["auto_pump"].as_bool().unwrap_or(true) {
        w.settle();
    } else {
        w.exec.run();
    }
    // lost wake-up probe: a spurious poll of every pending task must not make progress
    let before = log.len();
    let pending_before = w.exec.pending();
    for i in 0..w.exec.tasks.len() {
        if w.exec.alive(i) {
            let name = w.exec.tasks[i].name.clone();
            let l0 = log.len();
            w.exec.step(i);
            if log.len() != l0 {
                // something happened that no wake-up announced
                let mut g = log.0.lock().unwrap();
                g.insert(l0, json!({"ev": "late", "task": name}));
            }
        }
    }
    if log.len() != before {
        w.exec.run();
    }
    let _ = pending_before;
    let closes: Vec<Value> = w.nets.iter().map(|(t, n)| json!({"net": t, "codes": n.lock().local_close.clone()})).collect();
    // bytes the peer sent that the endpoint has neither read nor refused (STOP_SENDING): they stay charged to the connection
    let unread: Vec<Value> = w.nets.iter().flat_map(|(t, n)| n.unread().into_iter().map(move |(sid, k)| json!({"net": t, "sid": sid, "n": k}))).collect();
    log.push(json!({"ev": "quiesce", "pending": w.exec.pending(), "closes": closes, "unread": unread}));
    // tear down quietly (drops produce transport effects that are not part of the scenario)
    let evs = log.take();
    w.exec.drop_all();
    *w.sender_slot.borrow_mut() = None;
    evs
}

pub fn run_scenarios(inp: &str, out: &str) -> Result<(), String> {
    let r = BufReader::new(std::fs::File::open(inp).map_err(|e| format!("{inp}: {e}"))?);
    let mut wr = BufWriter::new(std::fs::File::create(out).map_err(|e| format!("{out}: {e}"))?);
    for (i, line) in r.lines().enumerate() {
        let line = line.map_err(|e| e.to_string())?;
        if line.trim().is_empty() {
            continue;
        }
        let scn: Value = serde_json::from_str(&line).map_err(|e| format!("line {}: {e}", i + 1))?;
        let evs = match std::panic::catch_unwind(std::panic::AssertUnwindSafe(|| run_one(&scn))) {
            Ok(e) => e,
            Err(_) => vec![json!({"ev": "reset", "scn": scn["id"], "wt": false}), json!({"ev": "harness_panic"})],
        };
        for e in evs {
            writeln!(wr, "{}", e).map_err(|e| e.to_string())?;
        }
    }
    Ok(())
}
