//! h3sched — replays TLC-generated thread schedules on the real connection-error machinery (C05).
//!
//! The driver (`client::Connection::poll_close`) and each request task run on their own OS thread. Every thread
//! blocks at the named pre-emption points (`h3::verif::yield_point`, hook commit) until the controller, following
//! the schedule, releases it for one step, so exactly one thread runs at a time and the interleaving of the
//! shared-state operations (error cell, AtomicWaker, driver-local state) is the scheduled one.
//! Request tasks raise REAL connection errors through the public API (invalid frame on a request stream,
//! truncated frame, undecodable field section); the driver may detect one of its own (bad control stream) or see
//! a remote close.
use crate::proj;
use crate::simquic::{Log, Net, PeerClose, Role, SimBidi, SimConn, SimOpener};
use bytes::Bytes;
use serde_json::{json, Value};
use std::future::Future;
use std::io::{BufRead, BufReader, BufWriter, Write};
use std::pin::Pin;
use std::sync::atomic::{AtomicBool, Ordering};
use std::sync::{Arc, Condvar, Mutex};
use std::task::{Context, Poll, Wake, Waker};

struct St {
    turn: Option<usize>,
    at: Vec<Option<String>>,
    done: Vec<bool>,
    events: Vec<Value>,
}
struct Ctl {
    m: Mutex<St>,
    cv: Condvar,
}

impl Ctl {
    /// called by a worker: park at `point` until released
    fn gate(&self, me: usize, point: &str) {
        let mut g = self.m.lock().unwrap();
        g.at[me] = Some(point.to_string());
        g.turn = None;
        self.cv.notify_all();
        while g.turn != Some(me) {
            g = self.cv.wait(g).unwrap();
        }
        g.at[me] = None;
    }
    fn finish(&self, me: usize) {
        let mut g = self.m.lock().unwrap();
        g.done[me] = true;
        g.at[me] = None;
        g.turn = None;
        self.cv.notify_all();
    }
    /// controller: let thread t run until it parks again or finishes; returns where it stopped
    fn release(&self, t: usize) -> Option<String> {
        let mut g = self.m.lock().unwrap();
        if g.done[t] || g.at[t].is_none() {
            return None;
        }
        g.turn = Some(t);
        self.cv.notify_all();
        while g.turn == Some(t) {
            g = self.cv.wait(g).unwrap();
        }
        Some(if g.done[t] { "done".to_string() } else { g.at[t].clone().unwrap_or_default() })
    }
    fn wait_parked(&self, n: usize) {
        let mut g = self.m.lock().unwrap();
        while (0..n).any(|i| !g.done[i] && g.at[i].is_none()) {
            g = self.cv.wait(g).unwrap();
        }
    }
    fn ev(&self, v: Value) {
        self.m.lock().unwrap().events.push(v);
    }
}

struct FlagWaker(AtomicBool);
impl Wake for FlagWaker {
    fn wake(self: Arc<Self>) {
        self.0.store(true, Ordering::SeqCst);
    }
    fn wake_by_ref(self: &Arc<Self>) {
        self.0.store(true, Ordering::SeqCst);
    }
}

fn block_on<F: Future>(mut f: Pin<Box<F>>) -> Option<F::Output> {
    let w = Arc::new(FlagWaker(AtomicBool::new(false)));
    let waker = Waker::from(w);
    let mut cx = Context::from_waker(&waker);
    for _ in 0..1000 {
        if let Poll::Ready(v) = f.as_mut().poll(&mut cx) {
            return Some(v);
        }
    }
    None
}

fn stream_bytes(kind: &str) -> (Vec<u8>, bool) {
    match kind {
        "settings" => (vec![4, 0], false),            // SETTINGS on a request stream: H3_FRAME_UNEXPECTED
        "truncated" => (vec![1], true),               // truncated frame at a clean end: H3_FRAME_ERROR
        "qpack" => (vec![1, 3, 0, 0, 0x80], false),   // dynamic table reference: QPACK_DECOMPRESSION_FAILED
        _ => (vec![6, 0], false),                     // HTTP/2-reserved frame type: H3_FRAME_UNEXPECTED
    }
}

/// One poll of the driver: `Ready(projected connection error or "none")` or `Pending`.
type Drive = Box<dyn FnMut(&mut Context<'_>) -> Poll<Value> + Send>;
/// A request task's call: `true` = the call that runs into the primed error, `false` = a later call on the same handle.
type StreamCall = Box<dyn FnMut(bool) -> Value + Send>;

struct Parts {
    drive: Drive,
    streams: Vec<StreamCall>,
    keep: Box<dyn std::any::Any>,
}

fn stream_res<T>(r: Option<Result<T, h3::error::StreamError>>, okk: &str) -> Value {
    match r {
        None => json!({"k": "pending"}),
        Some(Ok(_)) => json!({"k": okk}),
        Some(Err(e)) => proj::stream_err(&e),
    }
}

fn client_parts(scn: &Value, net: &Net) -> Option<Parts> {
    fastrand::seed(7);
    let mut b = h3::client::builder();
    b.send_grease(false);
    let (mut conn, mut sender) = block_on(Box::pin(b.build::<SimConn, SimOpener, Bytes>(net.conn())))?.ok()?;
    let kinds: Vec<String> = scn["streams"].as_array().map(|a| a.iter().map(|x| x.as_str().unwrap_or("").to_string()).collect()).unwrap_or_default();
    let mut streams: Vec<StreamCall> = vec![];
    for k in kinds.iter() {
        let req = http::Request::get("https://a/").body(()).unwrap();
        let mut s: h3::client::RequestStream<SimBidi, Bytes> = block_on(Box::pin(sender.send_request(req))).and_then(|r| r.ok())?;
        let sid = s.id().into_inner();
        if k == "quic_internal" || k == "quic_timeout" {
            // the QUIC layer reports a connection-level error to this request task only
            net.fault_stream_reads(sid, &k[5..]);
        } else {
            let (bytes, fin) = stream_bytes(k);
            net.deliver(sid, &bytes);
            if fin {
                net.peer_fin(sid);
            }
        }
        streams.push(Box::new(move |first| {
            if first {
                stream_res(block_on(Box::pin(s.recv_response())), "response")
            } else {
                match block_on(Box::pin(s.recv_data())) {
                    None => json!({"k": "pending"}),
                    Some(Ok(Some(_))) => json!({"k": "data"}),
                    Some(Ok(None)) => json!({"k": "none"}),
                    Some(Err(e)) => proj::stream_err(&e),
                }
            }
        }));
    }
    match scn["driver"].as_str().unwrap_or("none") {
        "missing_settings" => {
            net.peer_open_uni(3);
            net.deliver(3, &[0, 7, 1, 0]); // control stream starting with GOAWAY: H3_MISSING_SETTINGS
        }
        "remote_close" => net.peer_close(PeerClose::App(0x4242)),
        _ => {}
    }
    let drive: Drive = Box::new(move |cx| conn.poll_close(cx).map(|e| proj::conn_err(&e)));
    Some(Parts { drive, streams, keep: Box::new(sender) })
}

fn server_parts(scn: &Value, net: &Net) -> Option<Parts> {
    fastrand::seed(7);
    let mut b = h3::server::builder();
    b.send_grease(false);
    let mut conn: h3::server::Connection<SimConn, Bytes> = block_on(Box::pin(b.build(net.conn())))?.ok()?;
    let kinds: Vec<String> = scn["streams"].as_array().map(|a| a.iter().map(|x| x.as_str().unwrap_or("").to_string()).collect()).unwrap_or_default();
    // the peer's control stream with SETTINGS, unless the driver is to find it missing
    let drv = scn["driver"].as_str().unwrap_or("none").to_string();
    if drv != "missing_settings" {
        net.peer_open_uni(2);
        net.deliver(2, &[0, 4, 0]);
    }
    let mut streams: Vec<StreamCall> = vec![];
    for (i, k) in kinds.iter().enumerate() {
        let sid = 4 * i as u64;
        net.peer_open_bidi(sid);
        // HEADERS { :method GET, :scheme https, :authority a, :path / }
        net.deliver(sid, &[1, 8, 0, 0, 209, 215, 80, 1, 97, 193]);
        let resolver = block_on(Box::pin(conn.accept()))?.ok()??;
        let (_req, mut s) = block_on(Box::pin(resolver.resolve_request()))?.ok()?;
        if k == "quic_internal" || k == "quic_timeout" {
            net.fault_stream_reads(sid, &k[5..]);
        } else {
            let (bytes, fin) = stream_bytes(k);
            net.deliver(sid, &bytes);
            // (on the server the undecodable section is a trailer section: it is examined once the stream has ended)
            if fin || k == "qpack" {
                net.peer_fin(sid);
            }
        }
        streams.push(Box::new(move |_first| {
            // the body read runs into the primed bytes (an undecodable trailer section is met by recv_trailers)
            match block_on(Box::pin(s.recv_data())) {
                None => json!({"k": "pending"}),
                Some(Ok(Some(_))) => json!({"k": "data"}),
                Some(Ok(None)) => stream_res(block_on(Box::pin(s.recv_trailers())), "trailers"),
                Some(Err(e)) => proj::stream_err(&e),
            }
        }));
    }
    match drv.as_str() {
        "missing_settings" => {
            net.peer_open_uni(2);
            net.deliver(2, &[0, 7, 1, 0]);
        }
        "remote_close" => net.peer_close(PeerClose::App(0x4242)),
        _ => {}
    }
    let drive: Drive = Box::new(move |cx| {
        let mut fut = Box::pin(conn.accept());
        match fut.as_mut().poll(cx) {
            Poll::Pending => Poll::Pending,
            Poll::Ready(Err(e)) => Poll::Ready(proj::conn_err(&e)),
            Poll::Ready(Ok(None)) => Poll::Ready(json!({"k": "none"})),
            Poll::Ready(Ok(Some(_))) => Poll::Ready(json!({"k": "unexpected_request"})),
        }
    });
    Some(Parts { drive, streams, keep: Box::new(()) })
}

pub fn run_one(scn: &Value) -> Vec<Value> {
    let log = Log::default();
    let is_server = scn["role"].as_str() == Some("server");
    let net = Net::new(if is_server { Role::Server } else { Role::Client }, if is_server { "s" } else { "c" }, log.clone());
    let parts = if is_server { server_parts(scn, &net) } else { client_parts(scn, &net) };
    let Some(Parts { mut drive, streams, keep }) = parts else {
        return vec![json!({"ev": "reset", "scn": scn["id"], "streams": scn["streams"], "driver": scn["driver"]}), json!({"ev": "harness_panic"}), json!({"ev": "quiesce"})];
    };
    let n = streams.len();
    let _ = log.take();
    let total = n + 1;
    let ctl = Arc::new(Ctl { m: Mutex::new(St { turn: None, at: vec![None; total], done: vec![false; total], events: vec![] }), cv: Condvar::new() });
    let woken = Arc::new(FlagWaker(AtomicBool::new(false)));
    let max_polls = scn["max_polls"].as_u64().unwrap_or(4);
    // ---- driver thread (index 0)
    let dctl = ctl.clone();
    let dwoken = woken.clone();
    let driver = std::thread::spawn(move || {
        let c2 = dctl.clone();
        h3::verif::set_hook(Some(Box::new(move |name| c2.gate(0, name))));
        dctl.gate(0, "d:start");
        let waker = Waker::from(dwoken.clone());
        let mut polls = 0;
        let mut last = json!({"k": "pending"});
        loop {
            polls += 1;
            dwoken.0.store(false, Ordering::SeqCst);
            let mut cx = Context::from_waker(&waker);
            let r = std::panic::catch_unwind(std::panic::AssertUnwindSafe(|| drive(&mut cx)));
            match r {
                Err(_) => {
                    dctl.ev(json!({"ev": "panic", "who": "driver"}));
                    break;
                }
                Ok(Poll::Ready(e)) => {
                    last = e;
                    dctl.ev(json!({"ev": "driver_poll", "n": polls, "res": last.clone()}));
                    break;
                }
                Ok(Poll::Pending) => {
                    last = json!({"k": "pending"});
                    dctl.ev(json!({"ev": "driver_poll", "n": polls, "res": last.clone()}));
                    if polls >= max_polls {
                        break;
                    }
                    // parked: may only run again once its waker has fired (the controller checks the flag)
                    dctl.gate(0, "d:parked");
                }
            }
        }
        h3::verif::set_hook(None);
        dctl.finish(0);
        (drive, last)
    });
    // ---- request task threads (1..=n)
    let mut handles = vec![];
    for (i, mut s) in streams.into_iter().enumerate() {
        let sctl = ctl.clone();
        let me = i + 1;
        handles.push(std::thread::spawn(move || {
            let c2 = sctl.clone();
            h3::verif::set_hook(Some(Box::new(move |name| c2.gate(me, name))));
            sctl.gate(me, "s:start");
            let r = std::panic::catch_unwind(std::panic::AssertUnwindSafe(|| s(true)));
            let res = match r {
                Err(_) => json!({"k": "panic"}),
                Ok(v) => v,
            };
            sctl.ev(json!({"ev": "result", "who": format!("s{me}"), "res": res}));
            h3::verif::set_hook(None);
            sctl.finish(me);
            s
        }));
    }
    ctl.wait_parked(total);
    // ---- the schedule
    let runnable = |t: usize| -> bool {
        let g = ctl.m.lock().unwrap();
        if g.done[t] {
            return false;
        }
        match g.at[t].as_deref() {
            Some("d:parked") => woken.0.load(Ordering::SeqCst),
            Some(_) => true,
            None => false,
        }
    };
    let mut yields: Vec<Value> = vec![];
    let sched: Vec<usize> = scn["schedule"].as_array().map(|a| a.iter().map(|x| x.as_u64().unwrap_or(0) as usize).collect()).unwrap_or_default();
    for t in sched {
        if t < total && runnable(t) {
            if let Some(p) = ctl.release(t) {
                yields.push(json!({"ev": "yield", "t": t, "at": p}));
            }
        }
    }
    // drain: whatever can still run, runs (lowest index first) until nothing is runnable
    let mut guard = 0;
    loop {
        guard += 1;
        let next = (0..total).find(|t| runnable(*t));
        match next {
            Some(t) if guard < 10_000 => {
                if let Some(p) = ctl.release(t) {
                    yields.push(json!({"ev": "yield", "t": t, "at": p, "drain": true}));
                }
            }
            _ => break,
        }
    }
    let parked = {
        let g = ctl.m.lock().unwrap();
        !g.done[0] && g.at[0].as_deref() == Some("d:parked")
    };
    let woken_now = woken.0.load(Ordering::SeqCst);
    let mut evs = vec![json!({"ev": "reset", "scn": scn["id"], "streams": scn["streams"], "driver": scn["driver"]})];
    evs.extend(yields);
    evs.extend(ctl.m.lock().unwrap().events.drain(..));
    evs.push(json!({"ev": "final", "driver_parked": parked, "woken": woken_now}));
    // ---- afterwards (single-threaded): release a parked driver for spurious polls, then the later calls
    if parked {
        // let it finish its loop: force the flag so that the controller may release it (these are the "later polls")
        for _ in 0..3 {
            woken.0.store(true, Ordering::SeqCst);
            let mut hops = 0;
            while runnable(0) && hops < 200 {
                ctl.release(0);
                hops += 1;
                let g = ctl.m.lock().unwrap();
                if g.done[0] || g.at[0].as_deref() == Some("d:parked") {
                    break;
                }
            }
        }
        evs.extend(ctl.m.lock().unwrap().events.drain(..).map(|mut e| {
            e["late"] = json!(true);
            e
        }));
        // if it is still parked after max_polls it has ended its loop by now
        let mut hops = 0;
        loop {
            let done = ctl.m.lock().unwrap().done[0];
            if done || hops > 1000 {
                break;
            }
            woken.0.store(true, Ordering::SeqCst);
            ctl.release(0);
            hops += 1;
        }
    }
    let (mut drive, _last) = driver.join().expect("driver thread");
    let mut later = vec![];
    for k in 0..2 {
        let e = block_on(Box::pin(std::future::poll_fn(|cx| drive(cx))));
        later.push(json!({"ev": "later", "who": "driver", "n": k + 1, "res": e.unwrap_or(json!({"k": "pending"}))}));
    }
    for (i, h) in handles.into_iter().enumerate() {
        let mut s = h.join().expect("stream thread");
        for k in 0..2 {
            let res = s(false);
            later.push(json!({"ev": "later", "who": format!("s{}", i + 1), "n": k + 1, "res": res}));
        }
    }
    evs.extend(later);
    for e in log.take() {
        if e["ev"] == "h3_close" {
            evs.push(e);
        }
    }
    evs.push(json!({"ev": "quiesce"}));
    drop(keep);
    evs
}

pub fn run(inp: &str, out: &str) -> Result<(), String> {
    let r = BufReader::new(std::fs::File::open(inp).map_err(|e| format!("{inp}: {e}"))?);
    let mut w = BufWriter::new(std::fs::File::create(out).map_err(|e| format!("{out}: {e}"))?);
    for line in r.lines() {
        let line = line.map_err(|e| e.to_string())?;
        if line.trim().is_empty() {
            continue;
        }
        let scn: Value = serde_json::from_str(&line).map_err(|e| e.to_string())?;
        for e in run_one(&scn) {
            writeln!(w, "{}", e).map_err(|e| e.to_string())?;
        }
    }
    Ok(())
}
