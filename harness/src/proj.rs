//! Projections of h3 API results onto the abstract values the TLA+ specifications talk about.
use crate::util::jbytes;
use h3::error::{ConnectionError, LocalError, StreamError};
use h3::quic::ConnectionErrorIncoming;
use serde_json::{json, Value};

pub fn conn_err(e: &ConnectionError) -> Value {
    match e {
        ConnectionError::Local { error } => match error {
            LocalError::Application { code, .. } => json!({"k": "conn_err", "origin": "local", "code": code.value()}),
            _ => json!({"k": "conn_err", "origin": "local", "code": -1, "other": format!("{:?}", error)}),
        },
        ConnectionError::Remote(inc) => match inc {
            ConnectionErrorIncoming::ApplicationClose { error_code } => json!({"k": "conn_err", "origin": "remote", "code": error_code}),
            // (`class`: the same QUIC condition can surface as ConnectionError::Timeout or wrapped in Remote; C17 tells them apart)
            ConnectionErrorIncoming::Timeout => json!({"k": "conn_err", "origin": "timeout", "code": -1, "class": "remote"}),
            ConnectionErrorIncoming::InternalError(s) => json!({"k": "conn_err", "origin": "transport_internal", "code": -1, "other": s}),
            ConnectionErrorIncoming::Undefined(_) => json!({"k": "conn_err", "origin": "undefined", "code": -1}),
        },
        ConnectionError::Timeout => json!({"k": "conn_err", "origin": "timeout", "code": -1, "class": "timeout"}),
        _ => json!({"k": "conn_err", "origin": "unknown", "code": -1}),
    }
}

pub fn stream_err(e: &StreamError) -> Value {
    match e {
        StreamError::StreamError { code, .. } => json!({"k": "stream_err", "code": code.value()}),
        StreamError::RemoteTerminate { code } => json!({"k": "remote_terminate", "code": code.value()}),
        StreamError::ConnectionError(c) => conn_err(c),
        StreamError::HeaderTooBig { actual_size, max_size } => {
            json!({"k": "too_big", "actual": crate::util::b8(*actual_size), "max": crate::util::b8(*max_size)})
        }
        StreamError::RemoteClosing => json!({"k": "remote_closing"}),
        StreamError::Undefined(_) => json!({"k": "undefined"}),
        _ => json!({"k": "unknown_stream_error"}),
    }
}

pub fn header_map(h: &http::HeaderMap) -> Value {
    // iteration order of HeaderMap: names in order of first insertion, values of one name in insertion order
    let mut out = Vec::new();
    for (n, v) in h.iter() {
        out.push(json!([jbytes(n.as_str().as_bytes()), jbytes(v.as_bytes())]));
    }
    json!(out)
}

pub fn request(req: &http::Request<()>) -> Value {
    let uri = req.uri();
    json!({
        "k": "request",
        "method": jbytes(req.method().as_str().as_bytes()),
        "has_scheme": uri.scheme().is_some(),
        "scheme": jbytes(uri.scheme_str().unwrap_or("").as_bytes()),
        "has_authority": uri.authority().is_some(),
        "authority": jbytes(uri.authority().map(|a| a.as_str()).unwrap_or("").as_bytes()),
        "has_path": uri.path_and_query().is_some(),
        "path": jbytes(uri.path_and_query().map(|p| p.as_str()).unwrap_or("").as_bytes()),
        "protocol": jbytes(req.extensions().get::<h3::ext::Protocol>().map(|p| p.as_str()).unwrap_or("").as_bytes()),
        "fields": header_map(req.headers()),
        "version3": req.version() == http::Version::HTTP_3,
    })
}

pub fn response(resp: &http::Response<()>) -> Value {
    json!({
        "k": "response",
        "status": resp.status().as_u16(),
        "fields": header_map(resp.headers()),
        "version3": resp.version() == http::Version::HTTP_3,
    })
}
