//! h3quinn — drives the real `h3-quinn` adapter over real Quinn loopback connections (C17).
//!
//! One side of every connection is the adapter under test ("A": `h3_quinn::Connection` and the streams it
//! hands out, driven through the `h3::quic` traits exactly as h3 drives them); the other side is a raw
//! Quinn peer ("P") that reads and writes bytes, resets, stops and closes through Quinn's own API.
//! The harness only executes the scenario's operations and records what both sides observed; every
//! judgement is made afterwards by the TLA+ trace specification C17_Trace.
//!
//! Real sockets mean real timing: operations that wait do so on conditions (with a generous cap that is
//! logged as a `timeout` event), and single polls (`*_once`) log whichever of ready/pending happened.
use crate::util::{b8, jbytes};
use bytes::{Buf, Bytes};
use h3::proto::frame::Frame;
use h3::quic::{self, ConnectionErrorIncoming, StreamErrorIncoming};
use quinn::crypto::rustls::{QuicClientConfig, QuicServerConfig};
use quinn::{TransportConfig, VarInt};
use rustls::pki_types::{CertificateDer, PrivateKeyDer};
use serde_json::{json, Value};
use std::collections::{HashMap, VecDeque};
use std::future::poll_fn;
use std::io::{BufRead, BufReader, BufWriter, Write};
use std::panic::{catch_unwind, AssertUnwindSafe};
use std::sync::Arc;
use std::task::{Context, Poll};
use std::time::Duration;

type ABidi = h3_quinn::BidiStream<Bytes>;
type ASend = h3_quinn::SendStream<Bytes>;
type ARecv = h3_quinn::RecvStream;

const CAP: Duration = Duration::from_secs(5);

pub fn pat(tag: u64, i: usize) -> u8 {
    ((tag as usize * 37 + i * 7 + (i >> 8) * 13 + 1) & 0xff) as u8
}

fn payload(tag: u64, len: usize) -> Bytes {
    Bytes::from((0..len).map(|i| pat(tag, i)).collect::<Vec<u8>>())
}

fn conn_err(e: &ConnectionErrorIncoming) -> Value {
    match e {
        ConnectionErrorIncoming::ApplicationClose { error_code } => json!({"k": "conn", "c": "app_close", "code": b8(*error_code)}),
        ConnectionErrorIncoming::Timeout => json!({"k": "conn", "c": "timeout", "code": b8(0)}),
        ConnectionErrorIncoming::InternalError(_) => json!({"k": "conn", "c": "internal", "code": b8(0)}),
        ConnectionErrorIncoming::Undefined(e) => json!({"k": "conn", "c": "undefined", "code": b8(0), "dbg": format!("{e:?}")}),
    }
}

fn stream_err(e: &StreamErrorIncoming) -> Value {
    match e {
        StreamErrorIncoming::StreamTerminated { error_code } => json!({"k": "terminated", "c": "", "code": b8(*error_code)}),
        StreamErrorIncoming::ConnectionErrorIncoming { connection_error } => conn_err(connection_error),
        StreamErrorIncoming::Unknown(e) => json!({"k": "unknown", "c": "", "code": b8(0), "dbg": format!("{e:?}")}),
    }
}

fn ok(k: &str) -> Value {
    json!({"k": k, "c": "", "code": b8(0)})
}

fn panic_msg(e: Box<dyn std::any::Any + Send>) -> String {
    if let Some(s) = e.downcast_ref::<&str>() {
        s.to_string()
    } else if let Some(s) = e.downcast_ref::<String>() {
        s.clone()
    } else {
        "panic".to_string()
    }
}

/// The adapter side of one stream: either an unsplit bidirectional stream or its halves.
#[derive(Default)]
struct AStream {
    bidi: Option<ABidi>,
    send: Option<ASend>,
    recv: Option<ARecv>,
}

#[derive(Default)]
struct PStream {
    send: Option<quinn::SendStream>,
    recv: Option<quinn::RecvStream>,
}

struct Certs {
    cert: CertificateDer<'static>,
    key: PrivateKeyDer<'static>,
}

fn build_certs() -> Certs {
    let cert = rcgen::generate_simple_self_signed(vec!["localhost".into()]).unwrap();
    Certs { cert: cert.cert.into(), key: PrivateKeyDer::Pkcs8(cert.signing_key.serialize_der().into()) }
}

fn transport(win_stream: u64, win_conn: u64, send_window: u64, idle_ms: u64) -> Arc<TransportConfig> {
    let mut t = TransportConfig::default();
    if win_stream > 0 {
        t.stream_receive_window(VarInt::from_u64(win_stream).unwrap());
    }
    if win_conn > 0 {
        t.receive_window(VarInt::from_u64(win_conn).unwrap());
    }
    if send_window > 0 {
        t.send_window(send_window);
    }
    if idle_ms > 0 {
        t.max_idle_timeout(Some(Duration::from_millis(idle_ms).try_into().unwrap()));
        t.initial_rtt(Duration::from_millis(10));
    }
    t.datagram_receive_buffer_size(Some(1 << 16));
    Arc::new(t)
}

async fn connect(certs: &Certs, server_t: Arc<TransportConfig>, client_t: Arc<TransportConfig>) -> Result<(quinn::Connection, quinn::Connection, quinn::Endpoint, quinn::Endpoint), String> {
    let provider = Arc::new(rustls::crypto::ring::default_provider());
    let mut crypto = rustls::ServerConfig::builder_with_provider(provider.clone())
        .with_protocol_versions(&[&rustls::version::TLS13])
        .unwrap()
        .with_no_client_auth()
        .with_single_cert(vec![certs.cert.clone()], certs.key.clone_key())
        .unwrap();
    crypto.alpn_protocols = vec![b"h3".to_vec()];
    let mut sc = quinn::ServerConfig::with_crypto(Arc::new(QuicServerConfig::try_from(crypto).unwrap()));
    sc.transport = server_t;
    let sep = quinn::Endpoint::server(sc, "127.0.0.1:0".parse().unwrap()).map_err(|e| format!("bind: {e}"))?;
    let addr = sep.local_addr().unwrap();

    let mut roots = rustls::RootCertStore::empty();
    roots.add(certs.cert.clone()).unwrap();
    let mut ccrypto = rustls::ClientConfig::builder_with_provider(provider)
        .with_protocol_versions(&[&rustls::version::TLS13])
        .unwrap()
        .with_root_certificates(roots)
        .with_no_client_auth();
    ccrypto.alpn_protocols = vec![b"h3".to_vec()];
    let mut cc = quinn::ClientConfig::new(Arc::new(QuicClientConfig::try_from(ccrypto).unwrap()));
    cc.transport_config(client_t);
    let mut cep = quinn::Endpoint::client("127.0.0.1:0".parse().unwrap()).map_err(|e| format!("bind: {e}"))?;
    cep.set_default_client_config(cc);
    let connecting = cep.connect(addr, "localhost").map_err(|e| format!("connect: {e}"))?;
    let (c, s) = tokio::join!(connecting, async { sep.accept().await.unwrap().await });
    let c = c.map_err(|e| format!("client handshake: {e}"))?;
    let s = s.map_err(|e| format!("server handshake: {e}"))?;
    Ok((c, s, cep, sep))
}

struct Run {
    log: Vec<Value>,
    a: h3_quinn::Connection,
    a_opener: h3_quinn::OpenStreams,
    p: quinn::Connection,
    astreams: HashMap<String, AStream>,
    pstreams: HashMap<String, PStream>,
    /// streams opened by A that P has not accepted yet, per kind, in opening order
    a_opened_bidi: VecDeque<String>,
    a_opened_uni: VecDeque<String>,
    dg_send: Option<h3_quinn::datagram::SendDatagramHandler>,
    dg_recv: Option<h3_quinn::datagram::RecvDatagramHandler>,
    aborted: bool,
}

macro_rules! capped {
    ($self:ident, $op:expr, $fut:expr) => {
        match tokio::time::timeout(CAP, $fut).await {
            Ok(v) => Some(v),
            Err(_) => {
                $self.log.push(json!({"ev": "timeout", "op": $op}));
                $self.aborted = true;
                None
            }
        }
    };
}

fn noop_cx<R>(f: impl FnOnce(&mut Context<'_>) -> R) -> R {
    let w = futures_util::task::noop_waker();
    let mut cx = Context::from_waker(&w);
    f(&mut cx)
}

impl Run {
    fn s(op: &Value) -> String {
        op["s"].as_str().unwrap_or("s0").to_string()
    }

    fn a_poll_ready(st: &mut AStream, cx: &mut Context<'_>) -> Poll<Result<(), StreamErrorIncoming>> {
        if let Some(b) = st.bidi.as_mut() {
            quic::SendStream::<Bytes>::poll_ready(b, cx)
        } else {
            quic::SendStream::<Bytes>::poll_ready(st.send.as_mut().expect("no send half"), cx)
        }
    }

    fn a_poll_data(st: &mut AStream, cx: &mut Context<'_>) -> Poll<Result<Option<Bytes>, StreamErrorIncoming>> {
        if let Some(b) = st.bidi.as_mut() {
            quic::RecvStream::poll_data(b, cx)
        } else {
            quic::RecvStream::poll_data(st.recv.as_mut().expect("no recv half"), cx)
        }
    }

    fn ready_res(r: &Poll<Result<(), StreamErrorIncoming>>) -> Value {
        match r {
            Poll::Pending => ok("pending"),
            Poll::Ready(Ok(())) => ok("ready"),
            Poll::Ready(Err(e)) => stream_err(e),
        }
    }

    fn data_res(r: &Poll<Result<Option<Bytes>, StreamErrorIncoming>>) -> (Value, Value) {
        match r {
            Poll::Pending => (ok("pending"), json!([])),
            Poll::Ready(Ok(None)) => (ok("none"), json!([])),
            Poll::Ready(Ok(Some(b))) => (ok("chunk"), jbytes(b)),
            Poll::Ready(Err(e)) => (stream_err(e), json!([])),
        }
    }

    /// P's side of stream `s`, accepting streams opened by A (in id order) as far as needed
    async fn p_need(&mut self, s: &str) -> bool {
        if self.pstreams.contains_key(s) {
            return true;
        }
        if self.a_opened_bidi.contains(&s.to_string()) {
            while let Some(name) = self.a_opened_bidi.pop_front() {
                let Some(r) = capped!(self, "p_accept_bidi", self.p.accept_bi()) else { return false };
                match r {
                    Ok((send, recv)) => {
                        let id: u64 = recv.id().into();
                        self.log.push(json!({"ev": "p_accepted", "s": name, "id": id}));
                        self.pstreams.insert(name.clone(), PStream { send: Some(send), recv: Some(recv) });
                    }
                    Err(e) => {
                        self.log.push(json!({"ev": "p_accept_failed", "s": name, "dbg": format!("{e:?}")}));
                        return false;
                    }
                }
                if name == s {
                    return true;
                }
            }
        }
        if self.a_opened_uni.contains(&s.to_string()) {
            while let Some(name) = self.a_opened_uni.pop_front() {
                let Some(r) = capped!(self, "p_accept_uni", self.p.accept_uni()) else { return false };
                match r {
                    Ok(recv) => {
                        let id: u64 = recv.id().into();
                        self.log.push(json!({"ev": "p_accepted", "s": name, "id": id}));
                        self.pstreams.insert(name.clone(), PStream { send: None, recv: Some(recv) });
                    }
                    Err(e) => {
                        self.log.push(json!({"ev": "p_accept_failed", "s": name, "dbg": format!("{e:?}")}));
                        return false;
                    }
                }
                if name == s {
                    return true;
                }
            }
        }
        self.pstreams.contains_key(s)
    }

    /// one read by the raw peer of at most `n` bytes (waits for at least one byte, FIN or an error)
    async fn p_read_once(&mut self, s: &str, n: usize) -> Option<bool> {
        let mut buf = vec![0u8; n.max(1)];
        let recv = self.pstreams.get_mut(s)?.recv.as_mut()?;
        let r = match tokio::time::timeout(CAP, recv.read(&mut buf)).await {
            Ok(r) => r,
            Err(_) => {
                self.log.push(json!({"ev": "timeout", "op": "p_read", "s": s}));
                self.aborted = true;
                return None;
            }
        };
        match r {
            Ok(Some(k)) => {
                self.log.push(json!({"ev": "p_read", "s": s, "res": "bytes", "bytes": jbytes(&buf[..k]), "code": b8(0)}));
                Some(true)
            }
            Ok(None) => {
                self.log.push(json!({"ev": "p_read", "s": s, "res": "fin", "bytes": [], "code": b8(0)}));
                Some(false)
            }
            Err(quinn::ReadError::Reset(c)) => {
                self.log.push(json!({"ev": "p_read", "s": s, "res": "reset", "bytes": [], "code": b8(c.into_inner())}));
                Some(false)
            }
            Err(e) => {
                self.log.push(json!({"ev": "p_read", "s": s, "res": "error", "bytes": [], "code": b8(0), "dbg": format!("{e:?}")}));
                Some(false)
            }
        }
    }

    async fn op(&mut self, op: &Value) {
        let name = op["op"].as_str().unwrap_or("");
        let s = Self::s(op);
        match name {
            // ------------------------------------------------------------ opening and accepting
            "a_open_bidi" | "a_open_uni" => {
                let via_conn = op["via"].as_str() == Some("conn");
                if name == "a_open_bidi" {
                    let r = if via_conn {
                        capped!(self, name, poll_fn(|cx| quic::OpenStreams::<Bytes>::poll_open_bidi(&mut self.a, cx)))
                    } else {
                        capped!(self, name, poll_fn(|cx| quic::OpenStreams::<Bytes>::poll_open_bidi(&mut self.a_opener, cx)))
                    };
                    match r {
                        Some(Ok(b)) => {
                            let mut st = AStream::default();
                            if op["split"].as_bool().unwrap_or(true) {
                                let (snd, rcv) = quic::BidiStream::<Bytes>::split(b);
                                st.send = Some(snd);
                                st.recv = Some(rcv);
                            } else {
                                st.bidi = Some(b);
                            }
                            self.astreams.insert(s.clone(), st);
                            self.a_opened_bidi.push_back(s.clone());
                            self.log.push(json!({"ev": "a_opened", "s": s, "kind": "bidi", "res": ok("ok")}));
                        }
                        Some(Err(e)) => self.log.push(json!({"ev": "a_opened", "s": s, "kind": "bidi", "res": stream_err(&e)})),
                        None => {}
                    }
                } else {
                    let r = if via_conn {
                        capped!(self, name, poll_fn(|cx| quic::OpenStreams::<Bytes>::poll_open_send(&mut self.a, cx)))
                    } else {
                        capped!(self, name, poll_fn(|cx| quic::OpenStreams::<Bytes>::poll_open_send(&mut self.a_opener, cx)))
                    };
                    match r {
                        Some(Ok(snd)) => {
                            self.astreams.insert(s.clone(), AStream { bidi: None, send: Some(snd), recv: None });
                            self.a_opened_uni.push_back(s.clone());
                            self.log.push(json!({"ev": "a_opened", "s": s, "kind": "uni", "res": ok("ok")}));
                        }
                        Some(Err(e)) => self.log.push(json!({"ev": "a_opened", "s": s, "kind": "uni", "res": stream_err(&e)})),
                        None => {}
                    }
                }
            }
            "p_open_bidi" => match capped!(self, name, self.p.open_bi()) {
                Some(Ok((send, recv))) => {
                    let id: u64 = send.id().into();
                    self.pstreams.insert(s.clone(), PStream { send: Some(send), recv: Some(recv) });
                    self.log.push(json!({"ev": "p_opened", "s": s, "kind": "bidi", "id": id}));
                }
                Some(Err(e)) => self.log.push(json!({"ev": "p_open_failed", "s": s, "dbg": format!("{e:?}")})),
                None => {}
            },
            "p_open_uni" => match capped!(self, name, self.p.open_uni()) {
                Some(Ok(send)) => {
                    let id: u64 = send.id().into();
                    self.pstreams.insert(s.clone(), PStream { send: Some(send), recv: None });
                    self.log.push(json!({"ev": "p_opened", "s": s, "kind": "uni", "id": id}));
                }
                Some(Err(e)) => self.log.push(json!({"ev": "p_open_failed", "s": s, "dbg": format!("{e:?}")})),
                None => {}
            },
            "a_accept_bidi" => {
                let once = op["once"].as_bool().unwrap_or(false);
                let r = if once {
                    Some(noop_cx(|cx| quic::Connection::<Bytes>::poll_accept_bidi(&mut self.a, cx)))
                } else {
                    capped!(self, name, poll_fn(|cx| quic::Connection::<Bytes>::poll_accept_bidi(&mut self.a, cx))).map(Poll::Ready)
                };
                match r {
                    Some(Poll::Ready(Ok(b))) => {
                        let mut st = AStream::default();
                        if op["split"].as_bool().unwrap_or(true) {
                            let (snd, rcv) = quic::BidiStream::<Bytes>::split(b);
                            st.send = Some(snd);
                            st.recv = Some(rcv);
                        } else {
                            st.bidi = Some(b);
                        }
                        self.astreams.insert(s.clone(), st);
                        self.log.push(json!({"ev": "a_accepted", "s": s, "kind": "bidi", "res": ok("ok")}));
                    }
                    Some(Poll::Ready(Err(e))) => self.log.push(json!({"ev": "a_accepted", "s": s, "kind": "bidi", "res": conn_err(&e)})),
                    Some(Poll::Pending) => self.log.push(json!({"ev": "a_accepted", "s": s, "kind": "bidi", "res": ok("pending")})),
                    None => {}
                }
            }
            "a_accept_uni" => {
                let once = op["once"].as_bool().unwrap_or(false);
                let r = if once {
                    Some(noop_cx(|cx| quic::Connection::<Bytes>::poll_accept_recv(&mut self.a, cx)))
                } else {
                    capped!(self, name, poll_fn(|cx| quic::Connection::<Bytes>::poll_accept_recv(&mut self.a, cx))).map(Poll::Ready)
                };
                match r {
                    Some(Poll::Ready(Ok(rcv))) => {
                        self.astreams.insert(s.clone(), AStream { bidi: None, send: None, recv: Some(rcv) });
                        self.log.push(json!({"ev": "a_accepted", "s": s, "kind": "uni", "res": ok("ok")}));
                    }
                    Some(Poll::Ready(Err(e))) => self.log.push(json!({"ev": "a_accepted", "s": s, "kind": "uni", "res": conn_err(&e)})),
                    Some(Poll::Pending) => self.log.push(json!({"ev": "a_accepted", "s": s, "kind": "uni", "res": ok("pending")})),
                    None => {}
                }
            }
            // ------------------------------------------------------------ adapter: sending
            "a_send" => {
                let len = op["len"].as_u64().unwrap_or(0) as usize;
                let tag = op["tag"].as_u64().unwrap_or(0);
                let kind = op["kind"].as_str().unwrap_or("data");
                let Some(st) = self.astreams.get_mut(&s) else { return };
                let frame = if kind == "headers" { Frame::Headers(payload(tag, len)) } else { Frame::Data(payload(tag, len)) };
                let r = catch_unwind(AssertUnwindSafe(|| {
                    if let Some(b) = st.bidi.as_mut() {
                        quic::SendStream::<Bytes>::send_data(b, frame)
                    } else {
                        quic::SendStream::<Bytes>::send_data(st.send.as_mut().expect("no send half"), frame)
                    }
                }));
                let res = match r {
                    Ok(Ok(())) => ok("ok"),
                    Ok(Err(e)) => stream_err(&e),
                    Err(e) => json!({"k": "panic", "c": "", "code": b8(0), "dbg": panic_msg(e)}),
                };
                self.log.push(json!({"ev": "a_send", "s": s, "kind": kind, "len": len, "tag": tag, "res": res}));
            }
            "a_ready_once" => {
                let Some(st) = self.astreams.get_mut(&s) else { return };
                let r = noop_cx(|cx| Self::a_poll_ready(st, cx));
                self.log.push(json!({"ev": "a_ready", "s": s, "res": Self::ready_res(&r)}));
            }
            "a_ready" => {
                // wait until the adapter reports ready (or an error) while the raw peer keeps reading in steps of `step`
                let step = op["step"].as_u64().unwrap_or(0) as usize;
                let mut st = match self.astreams.remove(&s) {
                    Some(x) => x,
                    None => return,
                };
                // a first poll hands the first bytes to Quinn, which is what makes the stream visible to the peer
                let first = noop_cx(|cx| Self::a_poll_ready(&mut st, cx));
                let res = if let Poll::Ready(r) = first {
                    Some(Self::ready_res(&Poll::Ready(r)))
                } else if step == 0 || !self.p_need(&s).await {
                    capped!(self, "a_ready", poll_fn(|cx| Self::a_poll_ready(&mut st, cx))).map(|r| Self::ready_res(&Poll::Ready(r)))
                } else {
                    let mut buf = vec![0u8; step];
                    let mut reading = true;
                    let deadline = tokio::time::sleep(CAP);
                    tokio::pin!(deadline);
                    loop {
                        let recv = self.pstreams.get_mut(&s).and_then(|p| p.recv.as_mut());
                        let Some(recv) = recv else {
                            break capped!(self, "a_ready", poll_fn(|cx| Self::a_poll_ready(&mut st, cx))).map(|r| Self::ready_res(&Poll::Ready(r)));
                        };
                        tokio::select! {
                            biased;
                            r = poll_fn(|cx| Self::a_poll_ready(&mut st, cx)) => break Some(Self::ready_res(&Poll::Ready(r))),
                            k = recv.read(&mut buf), if reading => match k {
                                Ok(Some(k)) => self.log.push(json!({"ev": "p_read", "s": s, "res": "bytes", "bytes": jbytes(&buf[..k]), "code": b8(0)})),
                                Ok(None) => {
                                    self.log.push(json!({"ev": "p_read", "s": s, "res": "fin", "bytes": [], "code": b8(0)}));
                                    reading = false;
                                }
                                Err(quinn::ReadError::Reset(c)) => {
                                    self.log.push(json!({"ev": "p_read", "s": s, "res": "reset", "bytes": [], "code": b8(c.into_inner())}));
                                    reading = false;
                                }
                                Err(e) => {
                                    self.log.push(json!({"ev": "p_read", "s": s, "res": "error", "bytes": [], "code": b8(0), "dbg": format!("{e:?}")}));
                                    reading = false;
                                }
                            },
                            _ = &mut deadline => {
                                self.log.push(json!({"ev": "timeout", "op": "a_ready", "s": s}));
                                self.aborted = true;
                                break None;
                            }
                        }
                    }
                };
                self.astreams.insert(s.clone(), st);
                if let Some(res) = res {
                    self.log.push(json!({"ev": "a_ready", "s": s, "res": res}));
                }
            }
            "a_poll_send" => {
                // SendStreamUnframed::poll_send (used by WebTransport): one call, whatever it accepts
                let len = op["len"].as_u64().unwrap_or(0) as usize;
                let tag = op["tag"].as_u64().unwrap_or(0);
                let Some(st) = self.astreams.get_mut(&s) else { return };
                let mut buf = payload(tag, len);
                let r = catch_unwind(AssertUnwindSafe(|| {
                    noop_cx(|cx| {
                        if let Some(b) = st.bidi.as_mut() {
                            quic::SendStreamUnframed::<Bytes>::poll_send(b, cx, &mut buf)
                        } else {
                            quic::SendStreamUnframed::<Bytes>::poll_send(st.send.as_mut().expect("no send half"), cx, &mut buf)
                        }
                    })
                }));
                let (res, n) = match r {
                    Ok(Poll::Pending) => (ok("pending"), 0),
                    Ok(Poll::Ready(Ok(n))) => (ok("ok"), n),
                    Ok(Poll::Ready(Err(e))) => (stream_err(&e), 0),
                    Err(e) => (json!({"k": "panic", "c": "", "code": b8(0), "dbg": panic_msg(e)}), 0),
                };
                self.log.push(json!({"ev": "a_poll_send", "s": s, "len": len, "tag": tag, "n": n, "left": buf.remaining(), "res": res}));
            }
            "a_finish" => {
                let Some(st) = self.astreams.get_mut(&s) else { return };
                let r = noop_cx(|cx| {
                    if let Some(b) = st.bidi.as_mut() {
                        quic::SendStream::<Bytes>::poll_finish(b, cx)
                    } else {
                        quic::SendStream::<Bytes>::poll_finish(st.send.as_mut().expect("no send half"), cx)
                    }
                });
                self.log.push(json!({"ev": "a_finish", "s": s, "res": Self::ready_res(&r)}));
            }
            "a_reset" => {
                let code = crate::util::u64_of(&op["code"]);
                let Some(st) = self.astreams.get_mut(&s) else { return };
                let r = catch_unwind(AssertUnwindSafe(|| {
                    if let Some(b) = st.bidi.as_mut() {
                        quic::SendStream::<Bytes>::reset(b, code)
                    } else {
                        quic::SendStream::<Bytes>::reset(st.send.as_mut().expect("no send half"), code)
                    }
                }));
                self.log.push(json!({"ev": "a_reset", "s": s, "code": b8(code), "panic": r.is_err()}));
            }
            // ------------------------------------------------------------ adapter: receiving
            "a_poll_data_once" => {
                let Some(st) = self.astreams.get_mut(&s) else { return };
                let r = noop_cx(|cx| Self::a_poll_data(st, cx));
                let (res, bytes) = Self::data_res(&r);
                self.log.push(json!({"ev": "a_data", "s": s, "res": res, "bytes": bytes}));
            }
            "a_poll_data" => {
                let Some(mut st) = self.astreams.remove(&s) else { return };
                let r = capped!(self, name, poll_fn(|cx| Self::a_poll_data(&mut st, cx)));
                self.astreams.insert(s.clone(), st);
                if let Some(r) = r {
                    let (res, bytes) = Self::data_res(&Poll::Ready(r));
                    self.log.push(json!({"ev": "a_data", "s": s, "res": res, "bytes": bytes}));
                }
            }
            "a_read_to_end" => {
                // poll_data until end of stream or an error
                let Some(mut st) = self.astreams.remove(&s) else { return };
                loop {
                    let Some(r) = capped!(self, name, poll_fn(|cx| Self::a_poll_data(&mut st, cx))) else { break };
                    let done = !matches!(r, Ok(Some(_)));
                    let (res, bytes) = Self::data_res(&Poll::Ready(r));
                    self.log.push(json!({"ev": "a_data", "s": s, "res": res, "bytes": bytes}));
                    if done {
                        break;
                    }
                }
                self.astreams.insert(s.clone(), st);
            }
            "a_stop" => {
                let code = crate::util::u64_of(&op["code"]);
                let Some(st) = self.astreams.get_mut(&s) else { return };
                let r = catch_unwind(AssertUnwindSafe(|| {
                    if let Some(b) = st.bidi.as_mut() {
                        quic::RecvStream::stop_sending(b, code)
                    } else {
                        quic::RecvStream::stop_sending(st.recv.as_mut().expect("no recv half"), code)
                    }
                }));
                self.log.push(json!({"ev": "a_stop", "s": s, "code": b8(code), "panic": r.is_err()}));
            }
            // ------------------------------------------------------------ adapter: identifiers
            "a_send_id" | "a_recv_id" => {
                let Some(st) = self.astreams.get(&s) else { return };
                let r = catch_unwind(AssertUnwindSafe(|| -> u64 {
                    if name == "a_send_id" {
                        if let Some(b) = st.bidi.as_ref() {
                            quic::SendStream::<Bytes>::send_id(b).into_inner()
                        } else {
                            quic::SendStream::<Bytes>::send_id(st.send.as_ref().expect("no send half")).into_inner()
                        }
                    } else if let Some(b) = st.bidi.as_ref() {
                        quic::RecvStream::recv_id(b).into_inner()
                    } else {
                        quic::RecvStream::recv_id(st.recv.as_ref().expect("no recv half")).into_inner()
                    }
                }));
                match r {
                    Ok(id) => self.log.push(json!({"ev": "a_id", "s": s, "which": &name[2..], "res": "id", "id": b8(id)})),
                    Err(e) => self.log.push(json!({"ev": "a_id", "s": s, "which": &name[2..], "res": "panic", "id": b8(0), "dbg": panic_msg(e)})),
                }
            }
            "a_close" => {
                let code = crate::util::u64_of(&op["code"]);
                quic::OpenStreams::<Bytes>::close(&mut self.a_opener, h3::error::Code::from(code), b"bye");
                let r = capped!(self, name, self.p.closed());
                if let Some(e) = r {
                    let (k, c) = match &e {
                        quinn::ConnectionError::ApplicationClosed(ac) => ("app_close", ac.error_code.into_inner()),
                        _ => ("other", 0),
                    };
                    self.log.push(json!({"ev": "p_saw_close", "k": k, "code": b8(c), "sent": b8(code), "dbg": format!("{e:?}")}));
                }
            }
            // ------------------------------------------------------------ datagrams
            "a_send_datagram" => {
                use h3_datagram::quic_traits::SendDatagram;
                let len = op["len"].as_u64().unwrap_or(0) as usize;
                let tag = op["tag"].as_u64().unwrap_or(0);
                let sid = op["sid"].as_u64().unwrap_or(0);
                let dg = h3_datagram::datagram::Datagram::new(h3::quic::StreamId::try_from(sid).unwrap(), payload(tag, len));
                let r = SendDatagram::<Bytes>::send_datagram(self.dg_send.as_mut().unwrap(), dg.encode());
                let res = match r {
                    Ok(()) => "ok".to_string(),
                    Err(e) => format!("{e:?}"),
                };
                self.log.push(json!({"ev": "a_send_datagram", "sid": sid, "len": len, "tag": tag, "res": res}));
            }
            "p_read_datagram" => {
                if let Some(r) = capped!(self, name, self.p.read_datagram()) {
                    match r {
                        Ok(b) => self.log.push(json!({"ev": "p_datagram", "res": "bytes", "bytes": jbytes(&b)})),
                        Err(e) => self.log.push(json!({"ev": "p_datagram", "res": "error", "bytes": [], "dbg": format!("{e:?}")})),
                    }
                }
            }
            "p_send_datagram" => {
                let len = op["len"].as_u64().unwrap_or(0) as usize;
                let tag = op["tag"].as_u64().unwrap_or(0);
                let r = self.p.send_datagram(payload(tag, len));
                self.log.push(json!({"ev": "p_send_datagram", "len": len, "tag": tag, "ok": r.is_ok()}));
            }
            "a_read_datagram" => {
                use h3_datagram::quic_traits::RecvDatagram;
                let once = op["once"].as_bool().unwrap_or(false);
                let h = self.dg_recv.as_mut().unwrap();
                let r = if once {
                    Some(noop_cx(|cx| h.poll_incoming_datagram(cx)))
                } else {
                    capped!(self, name, poll_fn(|cx| h.poll_incoming_datagram(cx))).map(Poll::Ready)
                };
                match r {
                    Some(Poll::Ready(Ok(b))) => self.log.push(json!({"ev": "a_datagram", "res": ok("bytes"), "bytes": jbytes(&b)})),
                    Some(Poll::Ready(Err(e))) => self.log.push(json!({"ev": "a_datagram", "res": conn_err(&e), "bytes": []})),
                    Some(Poll::Pending) => self.log.push(json!({"ev": "a_datagram", "res": ok("pending"), "bytes": []})),
                    None => {}
                }
            }
            // ------------------------------------------------------------ raw peer
            "p_read" => {
                let n = op["n"].as_u64().unwrap_or(1) as usize;
                if self.p_need(&s).await {
                    self.p_read_once(&s, n).await;
                }
            }
            "p_read_to_end" => {
                let n = op["n"].as_u64().unwrap_or(65536) as usize;
                if self.p_need(&s).await {
                    while let Some(true) = self.p_read_once(&s, n).await {}
                }
            }
            "p_write" => {
                let len = op["len"].as_u64().unwrap_or(0) as usize;
                let tag = op["tag"].as_u64().unwrap_or(0);
                if !self.p_need(&s).await {
                    return;
                }
                let data = payload(tag, len);
                let Some(send) = self.pstreams.get_mut(&s).and_then(|p| p.send.as_mut()) else { return };
                let r = match tokio::time::timeout(CAP, send.write_all(&data)).await {
                    Ok(r) => r,
                    Err(_) => {
                        self.log.push(json!({"ev": "timeout", "op": "p_write", "s": s}));
                        self.aborted = true;
                        return;
                    }
                };
                let (res, code) = match &r {
                    Ok(()) => ("ok", 0),
                    Err(quinn::WriteError::Stopped(c)) => ("stopped", c.into_inner()),
                    Err(_) => ("error", 0),
                };
                self.log.push(json!({"ev": "p_write", "s": s, "len": len, "tag": tag, "res": res, "code": b8(code)}));
            }
            "p_fin" => {
                if !self.p_need(&s).await {
                    return;
                }
                let Some(send) = self.pstreams.get_mut(&s).and_then(|p| p.send.as_mut()) else { return };
                let r = send.finish();
                self.log.push(json!({"ev": "p_fin", "s": s, "ok": r.is_ok()}));
            }
            "p_reset" => {
                let code = crate::util::u64_of(&op["code"]);
                if !self.p_need(&s).await {
                    return;
                }
                let Some(send) = self.pstreams.get_mut(&s).and_then(|p| p.send.as_mut()) else { return };
                let r = send.reset(VarInt::from_u64(code).unwrap());
                self.log.push(json!({"ev": "p_reset", "s": s, "code": b8(code), "ok": r.is_ok()}));
            }
            "p_stop" => {
                let code = crate::util::u64_of(&op["code"]);
                if !self.p_need(&s).await {
                    return;
                }
                let Some(recv) = self.pstreams.get_mut(&s).and_then(|p| p.recv.as_mut()) else { return };
                let r = recv.stop(VarInt::from_u64(code).unwrap());
                self.log.push(json!({"ev": "p_stop", "s": s, "code": b8(code), "ok": r.is_ok()}));
            }
            "p_wait_stopped" => {
                // the raw peer waits until the adapter's STOP_SENDING reaches it
                if !self.p_need(&s).await {
                    return;
                }
                let Some(send) = self.pstreams.get_mut(&s).and_then(|p| p.send.as_mut()) else { return };
                let r = match tokio::time::timeout(CAP, send.stopped()).await {
                    Ok(r) => r,
                    Err(_) => {
                        self.log.push(json!({"ev": "p_stopped", "s": s, "res": "never", "code": b8(0)}));
                        return;
                    }
                };
                match r {
                    Ok(Some(c)) => self.log.push(json!({"ev": "p_stopped", "s": s, "res": "stopped", "code": b8(c.into_inner())})),
                    Ok(None) => self.log.push(json!({"ev": "p_stopped", "s": s, "res": "finished", "code": b8(0)})),
                    Err(e) => self.log.push(json!({"ev": "p_stopped", "s": s, "res": "error", "code": b8(0), "dbg": format!("{e:?}")})),
                }
            }
            "p_close" => {
                let code = crate::util::u64_of(&op["code"]);
                self.p.close(VarInt::from_u64(code).unwrap(), b"peer closes");
                self.log.push(json!({"ev": "p_close", "code": b8(code)}));
            }
            // write small units until the adapter reports an error (a peer STOP_SENDING / close must surface)
            "a_write_until_err" => {
                let len = op["len"].as_u64().unwrap_or(8) as usize;
                let max = op["max"].as_u64().unwrap_or(400);
                let Some(mut st) = self.astreams.remove(&s) else { return };
                let mut surfaced = false;
                for i in 0..max {
                    let frame = Frame::Data(payload(100 + i, len));
                    let r = if let Some(b) = st.bidi.as_mut() {
                        quic::SendStream::<Bytes>::send_data(b, frame)
                    } else {
                        quic::SendStream::<Bytes>::send_data(st.send.as_mut().expect("no send half"), frame)
                    };
                    match r {
                        Ok(()) => self.log.push(json!({"ev": "a_send", "s": s, "kind": "data", "len": len, "tag": 100 + i, "res": ok("ok")})),
                        Err(e) => {
                            self.log.push(json!({"ev": "a_send", "s": s, "kind": "data", "len": len, "tag": 100 + i, "res": stream_err(&e)}));
                            surfaced = true;
                            break;
                        }
                    }
                    let r = tokio::time::timeout(Duration::from_millis(50), poll_fn(|cx| Self::a_poll_ready(&mut st, cx))).await;
                    match r {
                        Ok(r) => {
                            let e = r.is_err();
                            self.log.push(json!({"ev": "a_ready", "s": s, "res": Self::ready_res(&Poll::Ready(r))}));
                            if e {
                                surfaced = true;
                                break;
                            }
                        }
                        Err(_) => {
                            // blocked on flow control: keep waiting on the same unit
                            self.log.push(json!({"ev": "a_ready", "s": s, "res": ok("pending")}));
                            let r = tokio::time::timeout(CAP, poll_fn(|cx| Self::a_poll_ready(&mut st, cx))).await;
                            match r {
                                Ok(r) => {
                                    let e = r.is_err();
                                    self.log.push(json!({"ev": "a_ready", "s": s, "res": Self::ready_res(&Poll::Ready(r))}));
                                    if e {
                                        surfaced = true;
                                    }
                                }
                                Err(_) => {}
                            }
                            break;
                        }
                    }
                    tokio::time::sleep(Duration::from_millis(1)).await;
                }
                self.astreams.insert(s.clone(), st);
                self.log.push(json!({"ev": "a_write_until_err_done", "s": s, "surfaced": surfaced}));
            }
            "sleep" => {
                tokio::time::sleep(Duration::from_millis(op["ms"].as_u64().unwrap_or(10))).await;
            }
            "a_drop" => {
                self.astreams.remove(&s);
                self.log.push(json!({"ev": "a_dropped", "s": s}));
            }
            other => {
                self.log.push(json!({"ev": "unknown_op", "op": other}));
            }
        }
    }

}

async fn run_scenario(certs: &Certs, scn: &Value) -> Result<Vec<Value>, String> {
    let win = &scn["win"];
    let idle = scn["idle_ms"].as_u64().unwrap_or(0);
    // the raw peer's receive windows limit what the adapter can write; the adapter's own windows stay large
    let p_t = transport(win["stream"].as_u64().unwrap_or(0), win["conn"].as_u64().unwrap_or(0), 0, idle);
    let a_t = transport(0, 0, win["send"].as_u64().unwrap_or(0), idle);
    let a_is_client = scn["a_role"].as_str().unwrap_or("client") == "client";
    let (c, s, cep, sep) = if a_is_client { connect(certs, p_t, a_t).await? } else { connect(certs, a_t, p_t).await? };
    let (aq, pq) = if a_is_client { (c, s) } else { (s, c) };
    let a = h3_quinn::Connection::new(aq);
    let a_opener = quic::Connection::<Bytes>::opener(&a);
    use h3_datagram::quic_traits::DatagramConnectionExt;
    let dg_send = DatagramConnectionExt::<Bytes>::send_datagram_handler(&a);
    let dg_recv = DatagramConnectionExt::<Bytes>::recv_datagram_handler(&a);
    let mut run = Run {
        log: vec![],
        a,
        a_opener,
        p: pq,
        astreams: HashMap::new(),
        pstreams: HashMap::new(),
        a_opened_bidi: VecDeque::new(),
        a_opened_uni: VecDeque::new(),
        dg_send: Some(dg_send),
        dg_recv: Some(dg_recv),
        aborted: false,
    };
    run.log.push(json!({"ev": "reset", "scn": scn["id"], "a_role": if a_is_client { "client" } else { "server" },
        "win": {"stream": win["stream"].as_u64().unwrap_or(0), "conn": win["conn"].as_u64().unwrap_or(0), "send": win["send"].as_u64().unwrap_or(0)}, "idle_ms": idle}));
    if let Some(ops) = scn["ops"].as_array() {
        for (i, op) in ops.iter().enumerate() {
            if run.aborted {
                break;
            }
            run.log.push(json!({"ev": "op", "i": i + 1, "op": op["op"]}));
            run.op(op).await;
        }
    }
    run.log.push(json!({"ev": "quiesce", "aborted": run.aborted}));
    let log = std::mem::take(&mut run.log);
    // tear down: close both sides and let the endpoints go
    run.p.close(VarInt::from_u32(0), b"done");
    drop(run);
    cep.close(VarInt::from_u32(0), b"done");
    sep.close(VarInt::from_u32(0), b"done");
    Ok(log)
}


// ------------------------------------------------------------------------------------------------ end to end over Quinn
/// C01 over the real transport: a real h3 client and a real h3 server joined by Quinn over loopback (through the h3-quinn
/// adapter on both sides), with flow-control windows from tiny to default.  The events have the vocabulary of the
/// simulator's pair mode (`ret` events of task "r1" = client, "h0" = server), so C01_Trace judges them unchanged.
mod e2e {
    use super::*;
    use crate::proj;
    use crate::sim::{build_request, fields_to_map, pat as spat};

    fn data_ev(off: &mut u64, d: &[u8]) -> Value {
        let o = *off;
        *off += d.len() as u64;
        let okk = d.iter().enumerate().all(|(i, b)| *b == spat(o + i as u64));
        json!({"k": "data", "off": o, "len": d.len(), "pat_ok": okk})
    }
    fn body(off: &mut u64, n: usize) -> Bytes {
        let o = *off;
        *off += n as u64;
        Bytes::from((0..n).map(|i| spat(o + i as u64)).collect::<Vec<u8>>())
    }
    fn ret(log: &Arc<std::sync::Mutex<Vec<Value>>>, task: &str, api: &str, res: Value) {
        log.lock().unwrap().push(json!({"ev": "ret", "task": task, "api": api, "res": res}));
    }
    fn okv() -> Value {
        json!({"k": "ok"})
    }

    pub async fn run_scenario(certs: &Certs, scn: &Value) -> Result<Vec<Value>, String> {
        let win = &scn["win"];
        let ws = win["stream"].as_u64().unwrap_or(0);
        let wc = win["conn"].as_u64().unwrap_or(0);
        // both directions get the same (possibly tiny) windows
        let (c, s, cep, sep) = connect(certs, transport(ws, wc, 0, 0), transport(ws, wc, 0, 0)).await?;
        let log: Arc<std::sync::Mutex<Vec<Value>>> = Arc::new(std::sync::Mutex::new(vec![]));
        let mut meta = serde_json::Map::new();
        if let Some(o) = scn.as_object() {
            for (k, v) in o.iter() {
                if !["id", "win"].contains(&k.as_str()) {
                    meta.insert(k.clone(), v.clone());
                }
            }
        }
        log.lock().unwrap().push(json!({"ev": "reset", "scn": scn["id"], "role": "pair", "cfg": {}, "meta": meta, "wt": false}));
        let req = scn["req"].clone();
        let resp = scn["resp"].clone();

        // ---- server
        let slog = log.clone();
        let sresp = resp.clone();
        let server = tokio::spawn(async move {
            let mut conn: h3::server::Connection<h3_quinn::Connection, Bytes> = match h3::server::builder().build(h3_quinn::Connection::new(s)).await {
                Ok(c) => c,
                Err(e) => {
                    ret(&slog, "srv", "build", proj::conn_err(&e));
                    return;
                }
            };
            let resolver = match conn.accept().await {
                Ok(Some(r)) => r,
                Ok(None) => return,
                Err(e) => {
                    ret(&slog, "srv", "accept", proj::conn_err(&e));
                    return;
                }
            };
            // the connection keeps being driven while the request is handled
            let hlog = slog.clone();
            let handler = tokio::spawn(async move {
                let (rq, mut st) = match resolver.resolve_request().await {
                    Ok(x) => x,
                    Err(e) => {
                        ret(&hlog, "h0", "resolve_request", proj::stream_err(&e));
                        return;
                    }
                };
                ret(&hlog, "h0", "resolve_request", proj::request(&rq));
                let mut off = 0u64;
                loop {
                    match st.recv_data().await {
                        Ok(Some(mut d)) => {
                            let b = d.copy_to_bytes(d.remaining());
                            ret(&hlog, "h0", "recv_data", data_ev(&mut off, &b));
                        }
                        Ok(None) => {
                            ret(&hlog, "h0", "recv_data", json!({"k": "none"}));
                            break;
                        }
                        Err(e) => {
                            ret(&hlog, "h0", "recv_data", proj::stream_err(&e));
                            return;
                        }
                    }
                }
                match st.recv_trailers().await {
                    Ok(Some(t)) => ret(&hlog, "h0", "recv_trailers", json!({"k": "trailers", "fields": proj::header_map(&t)})),
                    Ok(None) => ret(&hlog, "h0", "recv_trailers", json!({"k": "none"})),
                    Err(e) => ret(&hlog, "h0", "recv_trailers", proj::stream_err(&e)),
                }
                let mut b = http::Response::builder().status(sresp["status"].as_u64().unwrap_or(200) as u16);
                for (n, v) in fields_to_map(&sresp["fields"]).iter() {
                    b = b.header(n, v);
                }
                let r = st.send_response(b.body(()).expect("response")).await;
                ret(&hlog, "h0", "send_response", r.map(|_| okv()).unwrap_or_else(|e| proj::stream_err(&e)));
                let mut soff = 0u64;
                for n in sresp["body"].as_array().cloned().unwrap_or_default() {
                    let r = st.send_data(body(&mut soff, n.as_u64().unwrap_or(0) as usize)).await;
                    ret(&hlog, "h0", "send_data", r.map(|_| okv()).unwrap_or_else(|e| proj::stream_err(&e)));
                }
                if sresp["has_trailers"] == true {
                    let r = st.send_trailers(fields_to_map(&sresp["trailers"])).await;
                    ret(&hlog, "h0", "send_trailers", r.map(|_| okv()).unwrap_or_else(|e| proj::stream_err(&e)));
                }
                let r = st.finish().await;
                ret(&hlog, "h0", "finish", r.map(|_| okv()).unwrap_or_else(|e| proj::stream_err(&e)));
            });
            // drive until the client goes away
            loop {
                match conn.accept().await {
                    Ok(Some(_)) => {}
                    Ok(None) => break,
                    Err(_) => break,
                }
            }
            let _ = handler.await;
        });

        // ---- client
        let clog = log.clone();
        let client = tokio::spawn(async move {
            let (mut driver, mut sender) = match h3::client::builder().build::<_, _, Bytes>(h3_quinn::Connection::new(c)).await {
                Ok(x) => x,
                Err(e) => {
                    ret(&clog, "cli", "build", proj::conn_err(&e));
                    return;
                }
            };
            let drive = tokio::spawn(async move {
                let _ = std::future::poll_fn(|cx| driver.poll_close(cx)).await;
            });
            let rq = match build_request(&req) {
                Ok(r) => r,
                Err(_) => return,
            };
            let mut st = match sender.send_request(rq).await {
                Ok(s) => {
                    ret(&clog, "r1", "send_request", okv());
                    s
                }
                Err(e) => {
                    ret(&clog, "r1", "send_request", proj::stream_err(&e));
                    return;
                }
            };
            let mut soff = 0u64;
            for n in req["body"].as_array().cloned().unwrap_or_default() {
                let r = st.send_data(body(&mut soff, n.as_u64().unwrap_or(0) as usize)).await;
                ret(&clog, "r1", "send_data", r.map(|_| okv()).unwrap_or_else(|e| proj::stream_err(&e)));
            }
            if req["has_trailers"] == true {
                let r = st.send_trailers(fields_to_map(&req["trailers"])).await;
                ret(&clog, "r1", "send_trailers", r.map(|_| okv()).unwrap_or_else(|e| proj::stream_err(&e)));
            }
            let r = st.finish().await;
            ret(&clog, "r1", "finish", r.map(|_| okv()).unwrap_or_else(|e| proj::stream_err(&e)));
            match st.recv_response().await {
                Ok(rp) => ret(&clog, "r1", "recv_response", proj::response(&rp)),
                Err(e) => {
                    ret(&clog, "r1", "recv_response", proj::stream_err(&e));
                    return;
                }
            }
            let mut off = 0u64;
            loop {
                match st.recv_data().await {
                    Ok(Some(mut d)) => {
                        let b = d.copy_to_bytes(d.remaining());
                        ret(&clog, "r1", "recv_data", data_ev(&mut off, &b));
                    }
                    Ok(None) => {
                        ret(&clog, "r1", "recv_data", json!({"k": "none"}));
                        break;
                    }
                    Err(e) => {
                        ret(&clog, "r1", "recv_data", proj::stream_err(&e));
                        return;
                    }
                }
            }
            match st.recv_trailers().await {
                Ok(Some(t)) => ret(&clog, "r1", "recv_trailers", json!({"k": "trailers", "fields": proj::header_map(&t)})),
                Ok(None) => ret(&clog, "r1", "recv_trailers", json!({"k": "none"})),
                Err(e) => ret(&clog, "r1", "recv_trailers", proj::stream_err(&e)),
            }
            drop(st);
            drop(sender);
            let _ = drive.await;
        });

        let done = tokio::time::timeout(Duration::from_secs(20), async {
            let _ = client.await;
            let _ = server.await;
        })
        .await;
        if done.is_err() {
            log.lock().unwrap().push(json!({"ev": "livelock"}));
        }
        log.lock().unwrap().push(json!({"ev": "quiesce", "pending": [], "closes": [], "unread": []}));
        cep.close(VarInt::from_u32(0), b"done");
        sep.close(VarInt::from_u32(0), b"done");
        let out = std::mem::take(&mut *log.lock().unwrap());
        Ok(out)
    }
}

// ------------------------------------------------------------------------------------------------ h3 against a raw peer
/// C14 over the real adapter: a real h3 endpoint (client or server, over h3-quinn) talks to a RAW Quinn peer whose flow-control
/// windows are tiny, so that Quinn takes h3's writes a few bytes at a time and blocks in the middle of frames.  The raw peer
/// records every byte it reads per stream; the events are the simulator's `wrote` / `h3_fin`, judged by C14_Trace.
mod h3raw {
    use super::*;
    use crate::sim::pat as spat;

    fn body(off: &mut u64, n: usize) -> Bytes {
        let o = *off;
        *off += n as u64;
        Bytes::from((0..n).map(|i| spat(o + i as u64)).collect::<Vec<u8>>())
    }

    /// reads a stream until FIN (or until nothing arrives for `idle`): (bytes, fin)
    async fn drain(mut r: quinn::RecvStream, idle: Duration) -> (Vec<u8>, bool) {
        let mut out = vec![];
        let mut buf = vec![0u8; 4096];
        loop {
            match tokio::time::timeout(idle, r.read(&mut buf)).await {
                Ok(Ok(Some(k))) => {
                    out.extend_from_slice(&buf[..k]);
                    // (an endpoint that writes without end: what was read is judged, it is far beyond any scenario's output)
                    if out.len() > (1 << 20) {
                        return (out, false);
                    }
                }
                Ok(Ok(None)) => return (out, true),
                Ok(Err(_)) => return (out, false),
                Err(_) => return (out, false),
            }
        }
    }

    pub async fn run_scenario(certs: &Certs, scn: &Value) -> Result<Vec<Value>, String> {
        let w = scn["win"]["stream"].as_u64().unwrap_or(64);
        let is_client = scn["role"].as_str().unwrap_or("client") == "client";
        // the raw peer's windows are the tiny ones
        let raw_t = transport(w, 0, 0, 0);
        let h3_t = transport(0, 0, 0, 0);
        let (c, s, cep, sep) = if is_client { connect(certs, raw_t, h3_t).await? } else { connect(certs, h3_t, raw_t).await? };
        let (h3q, raw) = if is_client { (c, s) } else { (s, c) };
        let pieces: Vec<usize> = scn["body"].as_array().map(|a| a.iter().map(|x| x.as_u64().unwrap_or(0) as usize).collect()).unwrap_or_default();
        let net = if is_client { "c" } else { "s" };
        let mut log = vec![json!({"ev": "reset", "scn": scn["id"], "role": if is_client { "client" } else { "server" }, "cfg": {}, "meta": {}, "wt": false})];
        let mut streams: Vec<(u64, Vec<u8>, bool)> = vec![];
        if is_client {
            let mut h3task = tokio::spawn(async move {
                let (mut driver, mut sender) = h3::client::builder().build::<_, _, Bytes>(h3_quinn::Connection::new(h3q)).await.ok()?;
                let drive = tokio::spawn(async move {
                    let _ = std::future::poll_fn(|cx| driver.poll_close(cx)).await;
                });
                let mut st = sender.send_request(http::Request::post("https://a/").body(()).unwrap()).await.ok()?;
                let mut off = 0u64;
                for n in pieces {
                    st.send_data(body(&mut off, n)).await.ok()?;
                }
                st.finish().await.ok()?;
                // keep everything alive until the raw peer is done
                tokio::time::sleep(Duration::from_millis(300)).await;
                drop(st);
                drop(sender);
                drive.abort();
                Some(())
            });
            // raw server: the request stream first (to FIN), then whatever the unidirectional streams carried
            if let Ok(Ok((_snd, rcv))) = tokio::time::timeout(CAP, raw.accept_bi()).await {
                let id: u64 = rcv.id().into();
                let (b, fin) = drain(rcv, CAP).await;
                streams.push((id, b, fin));
            }
            while let Ok(Ok(rcv)) = tokio::time::timeout(Duration::from_millis(50), raw.accept_uni()).await {
                let id: u64 = rcv.id().into();
                let (b, fin) = drain(rcv, Duration::from_millis(50)).await;
                streams.push((id, b, fin));
            }
            if tokio::time::timeout(CAP * 2, &mut h3task).await.is_err() {
                h3task.abort();
            }
        } else {
            let mut h3task = tokio::spawn(async move {
                let mut conn: h3::server::Connection<h3_quinn::Connection, Bytes> = h3::server::builder().build(h3_quinn::Connection::new(h3q)).await.ok()?;
                let resolver = conn.accept().await.ok()??;
                let handler = tokio::spawn(async move {
                    let (_rq, mut st) = resolver.resolve_request().await.ok()?;
                    st.send_response(http::Response::builder().status(200).body(()).unwrap()).await.ok()?;
                    let mut off = 0u64;
                    for n in pieces {
                        st.send_data(body(&mut off, n)).await.ok()?;
                    }
                    st.finish().await.ok()?;
                    tokio::time::sleep(Duration::from_millis(300)).await;
                    Some(())
                });
                let _ = tokio::time::timeout(Duration::from_secs(10), async {
                    loop {
                        match conn.accept().await {
                            Ok(Some(_)) => {}
                            _ => break,
                        }
                    }
                })
                .await;
                let _ = handler.await;
                Some(())
            });
            // raw client: control stream with SETTINGS, one request, then read the response to FIN
            if let Ok(mut ctl) = raw.open_uni().await {
                let _ = ctl.write_all(&[0, 4, 0]).await;
                std::mem::forget(ctl); // never closed
            }
            if let Ok((mut snd, rcv)) = raw.open_bi().await {
                // HEADERS { :method GET, :scheme https, :authority a, :path / }
                let _ = snd.write_all(&[1, 8, 0, 0, 209, 215, 80, 1, 97, 193]).await;
                let _ = snd.finish();
                let id: u64 = rcv.id().into();
                let (b, fin) = drain(rcv, CAP).await;
                streams.push((id, b, fin));
            }
            while let Ok(Ok(rcv)) = tokio::time::timeout(Duration::from_millis(50), raw.accept_uni()).await {
                let id: u64 = rcv.id().into();
                let (b, fin) = drain(rcv, Duration::from_millis(50)).await;
                streams.push((id, b, fin));
            }
            raw.close(VarInt::from_u32(0x100), b"done");
            if tokio::time::timeout(CAP * 2, &mut h3task).await.is_err() {
                h3task.abort();
            }
        }
        for (id, b, fin) in streams {
            if !b.is_empty() {
                log.push(json!({"ev": "wrote", "net": net, "sid": id, "bytes": jbytes(&b), "ut": b[0]}));
            }
            if fin {
                log.push(json!({"ev": "h3_fin", "net": net, "sid": id, "implicit": false}));
            }
        }
        log.push(json!({"ev": "quiesce", "pending": [], "closes": [], "unread": []}));
        cep.close(VarInt::from_u32(0), b"done");
        sep.close(VarInt::from_u32(0), b"done");
        Ok(log)
    }
}

/// Family "H3ERR" (C06): h3 over h3-quinn against a raw Quinn peer that ends a request stream, or the connection, in every way the
/// transport offers (FIN, RESET_STREAM, STOP_SENDING, CONNECTION_CLOSE) after a prefix of a message; the application follows the
/// documented call pattern and RETRIES the first call that fails.  Every call is recorded with its result; a call that has not
/// returned CAP after the peer's last act is recorded as `pending`, a panic of the h3 task as `panic`.  Judged by C06Q_Trace.
mod h3err {
    use super::*;
    use crate::proj;
    use crate::util::bytes_of;

    type Log = Arc<std::sync::Mutex<Vec<Value>>>;
    fn ev(log: &Log, kind: &str, api: &str, res: Value) {
        log.lock().unwrap().push(json!({"ev": kind, "api": api, "res": res}));
    }
    fn is_err(res: &Value) -> bool {
        !["request", "response", "data", "none", "trailers", "ok"].contains(&res["k"].as_str().unwrap_or(""))
    }

    // One operation on a request stream (the same for both roles' streams): Some(result), or None when the call did not return within CAP.
    // `recv_body` is the documented loop: recv_data until it hands out no more data (the pieces are logged as `piece` events).
    macro_rules! stream_op {
        ($log:expr, $st:expr, $name:expr) => {{
            let name: &str = $name;
            let r: Option<Value> = match name {
                "recv_data" | "recv_body" => loop {
                    match tokio::time::timeout(CAP, $st.recv_data()).await {
                        Err(_) => break None,
                        Ok(Ok(Some(d))) => {
                            if name == "recv_data" {
                                break Some(json!({"k": "data", "len": d.remaining()}));
                            }
                            ev(&$log, "piece", "recv_data", json!({"k": "data", "len": d.remaining()}));
                        }
                        Ok(Ok(None)) => break Some(json!({"k": "none"})),
                        Ok(Err(e)) => break Some(proj::stream_err(&e)),
                    }
                },
                "recv_trailers" => match tokio::time::timeout(CAP, $st.recv_trailers()).await {
                    Err(_) => None,
                    Ok(Ok(Some(_))) => Some(json!({"k": "trailers"})),
                    Ok(Ok(None)) => Some(json!({"k": "none"})),
                    Ok(Err(e)) => Some(proj::stream_err(&e)),
                },
                "send_data" => match tokio::time::timeout(CAP, $st.send_data(Bytes::from_static(b"hello"))).await {
                    Err(_) => None,
                    Ok(Ok(())) => Some(json!({"k": "ok"})),
                    Ok(Err(e)) => Some(proj::stream_err(&e)),
                },
                "finish" => match tokio::time::timeout(CAP, $st.finish()).await {
                    Err(_) => None,
                    Ok(Ok(())) => Some(json!({"k": "ok"})),
                    Ok(Err(e)) => Some(proj::stream_err(&e)),
                },
                _ => Some(json!({"k": "unknown_op"})),
            };
            r
        }};
    }

    // The program: receive operations in order until the first that fails; that one is repeated `again` times (a retry loop), the
    // remaining receive operations are skipped (calling on after an error is no documented pattern); the send operations follow.
    macro_rules! stream_prog {
        ($log:expr, $st:expr, $ops:expr, $again:expr, $failed:expr) => {{
            let mut failed: bool = $failed;
            let mut dead = false;
            for op in $ops.iter() {
                let name = op.as_str().unwrap_or("");
                let is_recv = name.starts_with("recv");
                if dead || (failed && is_recv) {
                    ev(&$log, "skipped", name, json!({"after_error": failed}));
                    continue;
                }
                match stream_op!($log, $st, name) {
                    None => {
                        ev(&$log, "pending", name, json!({}));
                        dead = true;
                    }
                    Some(res) => {
                        let e = is_err(&res);
                        ev(&$log, "ret", name, res);
                        if e && is_recv {
                            failed = true;
                            let rname = if name == "recv_body" { "recv_data" } else { name };
                            for _ in 0..$again {
                                match stream_op!($log, $st, rname) {
                                    None => {
                                        ev(&$log, "pending", rname, json!({"retry": true}));
                                        dead = true;
                                        break;
                                    }
                                    Some(res) => ev(&$log, "retry", rname, res),
                                }
                            }
                        }
                    }
                }
            }
        }};
    }

    async fn peer_end(raw: &quinn::Connection, snd: &mut quinn::SendStream, rcv: &mut quinn::RecvStream, end: &Value) {
        let code = VarInt::from_u32(end["code"].as_u64().unwrap_or(0) as u32);
        match end["k"].as_str().unwrap_or("") {
            "fin" => {
                let _ = snd.finish();
            }
            "reset" => {
                let _ = snd.reset(code);
            }
            "stop_reset" => {
                let _ = rcv.stop(code);
                let _ = snd.reset(code);
            }
            "stop_fin" => {
                let _ = rcv.stop(code);
                let _ = snd.finish();
            }
            "close" => {
                // (usually after what was written has gone out; either way is a legal history)
                tokio::time::sleep(Duration::from_millis(20)).await;
                raw.close(code, b"bye")
            }
            _ => {}
        }
    }

    pub async fn run_scenario(certs: &Certs, scn: &Value) -> Result<Vec<Value>, String> {
        let is_client = scn["role"].as_str().unwrap_or("client") == "client";
        let t = transport(0, 0, 0, 0);
        let (c, s, cep, sep) = connect(certs, t.clone(), t).await?;
        let (h3q, raw) = if is_client { (c, s) } else { (s, c) };
        let log: Log = Arc::new(std::sync::Mutex::new(vec![]));
        log.lock()
            .unwrap()
            .push(json!({"ev": "reset", "scn": scn["id"], "role": scn["role"], "prog": scn["prog"], "end": scn["end"], "again": scn["again"]}));
        let prog: Vec<Value> = scn["prog"].as_array().cloned().unwrap_or_default();
        let sent = bytes_of(&scn["sent"]);
        let end = scn["end"].clone();
        let again = scn["again"].as_u64().unwrap_or(1);
        let hl = log.clone();
        let h3task = if is_client {
            tokio::spawn(async move {
                let (mut driver, mut sender) = match h3::client::builder().build::<_, _, Bytes>(h3_quinn::Connection::new(h3q)).await {
                    Ok(x) => x,
                    Err(e) => {
                        ev(&hl, "ret", "build", proj::conn_err(&e));
                        return;
                    }
                };
                let dl = hl.clone();
                let drive = tokio::spawn(async move {
                    match tokio::time::timeout(CAP * 3, poll_fn(|cx| driver.poll_close(cx))).await {
                        Err(_) => ev(&dl, "pending", "driver", json!({})),
                        Ok(_) => ev(&dl, "ret", "driver", json!({"k": "done"})),
                    }
                });
                let mut st = match sender.send_request(http::Request::get("https://a/").body(()).unwrap()).await {
                    Ok(st) => st,
                    Err(e) => {
                        ev(&hl, "ret", "send_request", proj::stream_err(&e));
                        for op in prog.iter() {
                            ev(&hl, "skipped", op.as_str().unwrap_or(""), json!({"no_request": true}));
                        }
                        return;
                    }
                };
                // the head, retried like every other receive operation
                let mut failed = false;
                match tokio::time::timeout(CAP, st.recv_response()).await {
                    Err(_) => ev(&hl, "pending", "head", json!({})),
                    Ok(Ok(_)) => ev(&hl, "ret", "head", json!({"k": "response"})),
                    Ok(Err(e)) => {
                        ev(&hl, "ret", "head", proj::stream_err(&e));
                        failed = true;
                        for _ in 0..again {
                            match tokio::time::timeout(CAP, st.recv_response()).await {
                                Err(_) => {
                                    ev(&hl, "pending", "head", json!({"retry": true}));
                                    break;
                                }
                                Ok(Ok(_)) => ev(&hl, "retry", "head", json!({"k": "response"})),
                                Ok(Err(e)) => ev(&hl, "retry", "head", proj::stream_err(&e)),
                            }
                        }
                    }
                }
                let rest: Vec<Value> = prog.iter().skip(1).cloned().collect();
                stream_prog!(hl, st, rest, again, failed);
                drop(st);
                drop(sender);
                if let Err(e) = drive.await {
                    if e.is_panic() {
                        ev(&hl, "panic", "driver", json!({"msg": panic_msg(e.into_panic())}));
                    }
                }
            })
        } else {
            tokio::spawn(async move {
                let mut conn: h3::server::Connection<h3_quinn::Connection, Bytes> = match h3::server::builder().build(h3_quinn::Connection::new(h3q)).await {
                    Ok(c) => c,
                    Err(e) => {
                        ev(&hl, "ret", "build", proj::conn_err(&e));
                        for op in prog.iter() {
                            ev(&hl, "skipped", op.as_str().unwrap_or(""), json!({"no_request": true}));
                        }
                        return;
                    }
                };
                let mut handler = None;
                // the accept loop ends when the peer closes the connection (it does, at the latest when it has seen the program end)
                loop {
                    match tokio::time::timeout(CAP * 3, conn.accept()).await {
                        Err(_) => {
                            ev(&hl, "pending", "accept", json!({}));
                            break;
                        }
                        Ok(Ok(Some(resolver))) => {
                            let hl2 = hl.clone();
                            let prog = prog.clone();
                            let hl3 = hl.clone();
                            // (a panic of the handler is recorded at once, so that the peer does not wait for it)
                            handler = Some(tokio::spawn(async move {
                                let inner = tokio::spawn(async move {
                                    let mut st = match tokio::time::timeout(CAP, resolver.resolve_request()).await {
                                        Err(_) => {
                                            ev(&hl2, "pending", "head", json!({}));
                                            return;
                                        }
                                        Ok(Ok((_rq, st))) => {
                                            ev(&hl2, "ret", "head", json!({"k": "request"}));
                                            st
                                        }
                                        Ok(Err(e)) => {
                                            // the resolver is consumed: there is nothing to retry on and no stream to go on with
                                            ev(&hl2, "ret", "head", proj::stream_err(&e));
                                            for op in prog.iter().skip(1) {
                                                ev(&hl2, "skipped", op.as_str().unwrap_or(""), json!({"no_stream": true}));
                                            }
                                            ev(&hl2, "ret", "handler_done", json!({"k": "ok"}));
                                            return;
                                        }
                                    };
                                    let rest: Vec<Value> = prog.iter().skip(1).cloned().collect();
                                    stream_prog!(hl2, st, rest, again, false);
                                    ev(&hl2, "ret", "handler_done", json!({"k": "ok"}));
                                });
                                if let Err(e) = inner.await {
                                    if e.is_panic() {
                                        ev(&hl3, "panic", "handler", json!({"msg": panic_msg(e.into_panic())}));
                                    }
                                }
                            }));
                        }
                        Ok(Ok(None)) => {
                            ev(&hl, "ret", "accept", json!({"k": "none"}));
                            break;
                        }
                        Ok(Err(e)) => {
                            ev(&hl, "ret", "accept", proj::conn_err(&e));
                            break;
                        }
                    }
                }
                match handler {
                    Some(h) => {
                        if let Err(e) = h.await {
                            if e.is_panic() {
                                ev(&hl, "panic", "handler", json!({"msg": panic_msg(e.into_panic())}));
                            }
                        }
                    }
                    // the connection ended before the request stream was heard of
                    None => {
                        for op in prog.iter() {
                            ev(&hl, "skipped", op.as_str().unwrap_or(""), json!({"no_request": true}));
                        }
                    }
                }
            })
        };
        // ---- the raw peer
        let mut keep: Vec<Box<dyn std::any::Any + Send>> = vec![];
        if let Ok(mut ctl) = raw.open_uni().await {
            let _ = ctl.write_all(&[0, 4, 0]).await;
            keep.push(Box::new(ctl));
        }
        let bi = if is_client {
            match tokio::time::timeout(CAP, raw.accept_bi()).await {
                Ok(Ok(x)) => Some(x),
                _ => None,
            }
        } else {
            raw.open_bi().await.ok()
        };
        match bi {
            Some((mut snd, mut rcv)) => {
                if !sent.is_empty() {
                    let _ = snd.write_all(&sent).await;
                }
                // (with a wait the h3 side has usually consumed what was written before the end arrives: a RESET_STREAM sent at once
                //  overtakes and discards it)
                let wait = scn["wait_ms"].as_u64().unwrap_or(0);
                if wait > 0 {
                    tokio::time::sleep(Duration::from_millis(wait)).await;
                }
                peer_end(&raw, &mut snd, &mut rcv, &end).await;
                keep.push(Box::new(snd));
                keep.push(Box::new(rcv));
            }
            None => return Err("H3ERR: the raw peer got no request stream".into()),
        }
        // the server's accept loop waits for the end of the connection: the peer closes once the handler is through (or after a while)
        if !is_client {
            let t0 = std::time::Instant::now();
            loop {
                let done = log
                    .lock()
                    .unwrap()
                    .iter()
                    .any(|e| e["ev"] == "pending" || e["ev"] == "panic" || e["api"] == "handler_done" || e["api"] == "accept" || e["api"] == "build");
                if done || t0.elapsed() > CAP * 2 || h3task.is_finished() {
                    break;
                }
                tokio::time::sleep(Duration::from_millis(2)).await;
            }
            raw.close(VarInt::from_u32(0x100), b"done");
        }
        match tokio::time::timeout(CAP * 4, h3task).await {
            Err(_) => ev(&log, "pending", "task", json!({})),
            Ok(Err(e)) if e.is_panic() => ev(&log, "panic", "task", json!({"msg": panic_msg(e.into_panic())})),
            Ok(_) => {}
        }
        drop(keep);
        raw.close(VarInt::from_u32(0x100), b"done");
        cep.close(VarInt::from_u32(0), b"done");
        sep.close(VarInt::from_u32(0), b"done");
        let mut out = log.lock().unwrap().clone();
        out.push(json!({"ev": "quiesce", "pending": []}));
        Ok(out)
    }
}

/// Family "H3DG" (C18 at connection level): h3 with h3-datagram over h3-quinn against a raw Quinn peer.  Sending: `DatagramSender` for
/// the scenario's stream ids and payloads, the raw peer records the datagrams it reads byte for byte.  Receiving: the raw peer sends the
/// scenario's raw datagrams (valid and invalid), `DatagramReader::read_datagram` results are recorded; after an error the driver's next
/// result and the close the raw peer sees are recorded too.  Judged by C18D_Trace with the operators of Datagram.tla.
mod h3dg {
    use super::*;
    use crate::proj;
    use crate::util::bytes_of;
    use h3_datagram::datagram_handler::HandleDatagramsExt;

    const WAIT: Duration = Duration::from_secs(2);
    type Log = Arc<std::sync::Mutex<Vec<Value>>>;
    fn push(log: &Log, v: Value) {
        log.lock().unwrap().push(v);
    }
    fn send_err(e: &h3_datagram::datagram_handler::SendDatagramError) -> Value {
        use h3_datagram::datagram_handler::SendDatagramError as E;
        match e {
            E::NotAvailable { .. } => json!({"k": "not_available"}),
            E::TooLarge { .. } => json!({"k": "too_large"}),
            E::ConnectionError { 0: c, .. } => proj::conn_err(c),
            _ => json!({"k": "unknown"}),
        }
    }

    // what both roles do with the sender / reader they got from their connection object
    macro_rules! datagram_io {
        ($log:expr, $conn:expr, $sends:expr, $go:expr, $expect:expr, $done:expr) => {{
            for s in $sends.iter() {
                let sid = crate::util::u64_of(&s["sid"]);
                let payload = bytes_of(&s["payload"]);
                let mut tx = $conn.get_datagram_sender(h3::quic::StreamId::try_from(sid).expect("stream id"));
                let res = match tx.send_datagram(Bytes::from(payload.clone())) {
                    Ok(()) => json!({"k": "ok"}),
                    Err(e) => send_err(&e),
                };
                push(&$log, json!({"ev": "dg_sent", "sid": s["sid"], "payload": jbytes(&payload), "res": res}));
            }
            // (the peer is told how many datagrams to expect, reads them, then sends its own)
            let n_ok = $log.lock().unwrap().iter().filter(|e| e["ev"] == "dg_sent" && e["res"]["k"] == "ok").count();
            let _ = $go.send(n_ok);
            let mut rx = $conn.get_datagram_reader();
            let mut failed = false;
            for _ in 0..$expect {
                match tokio::time::timeout(WAIT, rx.read_datagram()).await {
                    Err(_) => {
                        push(&$log, json!({"ev": "dg_read", "res": {"k": "missing"}}));
                        break;
                    }
                    Ok(Ok(d)) => {
                        let sid: u64 = d.stream_id().into_inner();
                        let p = d.into_payload();
                        push(&$log, json!({"ev": "dg_read", "res": {"k": "datagram", "sid": b8(sid), "payload": jbytes(&p)}}));
                    }
                    Ok(Err(e)) => {
                        push(&$log, json!({"ev": "dg_read", "res": proj::stream_err(&e)}));
                        failed = true;
                        break;
                    }
                }
            }
            // (the connection stays up until the peer has read what was sent to it)
            let _ = tokio::time::timeout(CAP, $done).await;
            failed
        }};
    }

    pub async fn run_scenario(certs: &Certs, scn: &Value) -> Result<Vec<Value>, String> {
        let is_client = scn["role"].as_str().unwrap_or("client") == "client";
        let t = transport(0, 0, 0, 0);
        let (c, s, cep, sep) = connect(certs, t.clone(), t).await?;
        let (h3q, raw) = if is_client { (c, s) } else { (s, c) };
        let log: Log = Arc::new(std::sync::Mutex::new(vec![]));
        push(&log, json!({"ev": "reset", "scn": scn["id"], "role": scn["role"]}));
        let sends: Vec<Value> = scn["sends"].as_array().cloned().unwrap_or_default();
        let raws: Vec<Vec<u8>> = scn["raws"].as_array().map(|a| a.iter().map(bytes_of).collect()).unwrap_or_default();
        let n_raws = raws.len();
        let pre_error = scn["pre_error"] == true;
        let ctl_bytes = if scn["ctl"].is_array() { bytes_of(&scn["ctl"]) } else { vec![0, 4, 2, 0x33, 1] };
        let expect_close = scn["expect_close"] == true;
        let (done_tx, done_rx) = tokio::sync::oneshot::channel::<()>();
        let (go_tx, go_rx) = tokio::sync::oneshot::channel::<usize>();
        let hl = log.clone();
        let h3task = if is_client {
            tokio::spawn(async move {
                let mut b = h3::client::builder();
                b.enable_datagram(true);
                let (mut driver, sender) = match b.build::<_, _, Bytes>(h3_quinn::Connection::new(h3q)).await {
                    Ok(x) => x,
                    Err(e) => {
                        push(&hl, json!({"ev": "driver", "res": proj::conn_err(&e)}));
                        return;
                    }
                };
                if pre_error {
                    // (C05) the connection already has its outcome when the datagram reader is asked: it has to report that one
                    match tokio::time::timeout(CAP, poll_fn(|cx| driver.poll_close(cx))).await {
                        Err(_) => push(&hl, json!({"ev": "driver", "res": {"k": "pending"}})),
                        Ok(e) => push(&hl, json!({"ev": "driver", "res": proj::conn_err(&e)})),
                    }
                    let mut rx = driver.get_datagram_reader();
                    match tokio::time::timeout(WAIT, rx.read_datagram()).await {
                        Err(_) => push(&hl, json!({"ev": "dg_read", "res": {"k": "pending"}})),
                        Ok(Ok(_)) => push(&hl, json!({"ev": "dg_read", "res": {"k": "datagram"}})),
                        Ok(Err(e)) => push(&hl, json!({"ev": "dg_read", "res": proj::stream_err(&e)})),
                    }
                    let _ = go_tx.send(0);
                    drop(sender);
                    return;
                }
                let failed = datagram_io!(hl, driver, sends, go_tx, n_raws, done_rx);
                if failed {
                    match tokio::time::timeout(CAP, poll_fn(|cx| driver.poll_close(cx))).await {
                        Err(_) => push(&hl, json!({"ev": "driver", "res": {"k": "pending"}})),
                        Ok(e) => push(&hl, json!({"ev": "driver", "res": proj::conn_err(&e)})),
                    }
                }
                drop(sender);
            })
        } else {
            tokio::spawn(async move {
                let mut b = h3::server::builder();
                b.enable_datagram(true);
                let mut conn: h3::server::Connection<h3_quinn::Connection, Bytes> = match b.build(h3_quinn::Connection::new(h3q)).await {
                    Ok(c) => c,
                    Err(e) => {
                        push(&hl, json!({"ev": "driver", "res": proj::conn_err(&e)}));
                        return;
                    }
                };
                if pre_error {
                    match tokio::time::timeout(CAP, conn.accept()).await {
                        Err(_) => push(&hl, json!({"ev": "driver", "res": {"k": "pending"}})),
                        Ok(Ok(_)) => push(&hl, json!({"ev": "driver", "res": {"k": "no_error"}})),
                        Ok(Err(e)) => push(&hl, json!({"ev": "driver", "res": proj::conn_err(&e)})),
                    }
                    let mut rx = conn.get_datagram_reader();
                    match tokio::time::timeout(WAIT, rx.read_datagram()).await {
                        Err(_) => push(&hl, json!({"ev": "dg_read", "res": {"k": "pending"}})),
                        Ok(Ok(_)) => push(&hl, json!({"ev": "dg_read", "res": {"k": "datagram"}})),
                        Ok(Err(e)) => push(&hl, json!({"ev": "dg_read", "res": proj::stream_err(&e)})),
                    }
                    let _ = go_tx.send(0);
                    return;
                }
                let failed = datagram_io!(hl, conn, sends, go_tx, n_raws, done_rx);
                if failed {
                    match tokio::time::timeout(CAP, conn.accept()).await {
                        Err(_) => push(&hl, json!({"ev": "driver", "res": {"k": "pending"}})),
                        Ok(Ok(_)) => push(&hl, json!({"ev": "driver", "res": {"k": "no_error"}})),
                        Ok(Err(e)) => push(&hl, json!({"ev": "driver", "res": proj::conn_err(&e)})),
                    }
                }
            })
        };
        // ---- the raw peer: a control stream with SETTINGS (H3_DATAGRAM = 1), then it reads, then it sends
        let mut keep: Vec<Box<dyn std::any::Any + Send>> = vec![];
        if let Ok(mut ctl) = raw.open_uni().await {
            let _ = ctl.write_all(&ctl_bytes).await;
            keep.push(Box::new(ctl));
        }
        let n_ok = tokio::time::timeout(CAP, go_rx).await.ok().and_then(|r| r.ok()).unwrap_or(0);
        for _ in 0..n_ok {
            match tokio::time::timeout(WAIT, raw.read_datagram()).await {
                Ok(Ok(b)) => push(&log, json!({"ev": "peer_got", "bytes": jbytes(&b)})),
                _ => break,
            }
        }
        let _ = done_tx.send(());
        for r in raws.iter() {
            let ok = raw.send_datagram(Bytes::from(r.clone())).is_ok();
            push(&log, json!({"ev": "peer_sent", "bytes": jbytes(r), "ok": ok}));
        }
        // what the connection ended with, as the peer sees it (when the scenario holds a datagram h3 has to refuse)
        if expect_close {
            match tokio::time::timeout(WAIT, raw.closed()).await {
                Ok(quinn::ConnectionError::ApplicationClosed(a)) => push(&log, json!({"ev": "peer_closed", "code": a.error_code.into_inner()})),
                Ok(e) => push(&log, json!({"ev": "peer_closed", "code": -1, "dbg": format!("{e:?}")})),
                Err(_) => {}
            }
        } else {
            // the h3 side is through when it has read everything
            let t0 = std::time::Instant::now();
            while !h3task.is_finished() && t0.elapsed() < WAIT * 2 {
                tokio::time::sleep(Duration::from_millis(1)).await;
            }
        }
        raw.close(VarInt::from_u32(0x100), b"done");
        match tokio::time::timeout(CAP * 2, h3task).await {
            Err(_) => push(&log, json!({"ev": "pending", "api": "task"})),
            Ok(Err(e)) if e.is_panic() => push(&log, json!({"ev": "panic", "msg": panic_msg(e.into_panic())})),
            Ok(_) => {}
        }
        drop(keep);
        cep.close(VarInt::from_u32(0), b"done");
        sep.close(VarInt::from_u32(0), b"done");
        let mut out = log.lock().unwrap().clone();
        out.push(json!({"ev": "quiesce", "pending": []}));
        Ok(out)
    }
}

/// Family "H3CLS" (C17, error classes as they surface THROUGH h3): h3 over h3-quinn against a raw Quinn peer; a QUIC-level condition
/// (idle timeout, application close with a code) arrives either while h3 is still building the connection (the peer grants no
/// unidirectional streams, so the control stream cannot be opened) or once it is established.  Every h3 result is recorded with its
/// class (`proj::conn_err`: ConnectionError::Timeout / Remote / Local) and judged by C17H_Trace.
mod h3cls {
    use super::*;
    use crate::proj;

    type Log = Arc<std::sync::Mutex<Vec<Value>>>;
    fn res(log: &Log, api: &str, r: Value) {
        log.lock().unwrap().push(json!({"ev": "h3_result", "api": api, "res": r}));
    }
    fn tcfg(no_uni: bool, idle_ms: u64) -> Arc<TransportConfig> {
        let mut t = TransportConfig::default();
        if no_uni {
            t.max_concurrent_uni_streams(VarInt::from_u32(0));
        }
        if idle_ms > 0 {
            t.max_idle_timeout(Some(Duration::from_millis(idle_ms).try_into().unwrap()));
            t.initial_rtt(Duration::from_millis(10));
        }
        Arc::new(t)
    }

    pub async fn run_scenario(certs: &Certs, scn: &Value) -> Result<Vec<Value>, String> {
        let is_client = scn["role"].as_str().unwrap_or("client") == "client";
        let at_build = scn["when"] == "build";
        let timeout = scn["cond"]["k"] == "timeout";
        let idle = if timeout { 200 } else { 0 };
        // the raw peer's configuration decides what h3 may open; the idle timeout is the minimum of both sides'
        let raw_t = tcfg(at_build, idle);
        let h3_t = tcfg(false, idle);
        let (c, s, cep, sep) = if is_client { connect(certs, raw_t, h3_t).await? } else { connect(certs, h3_t, raw_t).await? };
        let (h3q, raw) = if is_client { (c, s) } else { (s, c) };
        let log: Log = Arc::new(std::sync::Mutex::new(vec![]));
        log.lock().unwrap().push(json!({"ev": "reset", "scn": scn["id"], "role": scn["role"], "when": scn["when"], "cond": scn["cond"]}));
        let hl = log.clone();
        let h3task = if is_client {
            tokio::spawn(async move {
                let built = tokio::time::timeout(CAP, h3::client::builder().build::<_, _, Bytes>(h3_quinn::Connection::new(h3q))).await;
                let (mut driver, mut sender) = match built {
                    Err(_) => return res(&hl, "build", json!({"k": "pending"})),
                    Ok(Err(e)) => return res(&hl, "build", proj::conn_err(&e)),
                    Ok(Ok(x)) => {
                        res(&hl, "build", json!({"k": "ok"}));
                        x
                    }
                };
                let dl = hl.clone();
                let drive = tokio::spawn(async move {
                    match tokio::time::timeout(CAP, poll_fn(|cx| driver.poll_close(cx))).await {
                        Err(_) => res(&dl, "driver", json!({"k": "pending"})),
                        Ok(e) => res(&dl, "driver", proj::conn_err(&e)),
                    }
                });
                match sender.send_request(http::Request::get("https://a/").body(()).unwrap()).await {
                    Err(e) => res(&hl, "send_request", proj::stream_err(&e)),
                    Ok(mut st) => {
                        let _ = st.finish().await;
                        match tokio::time::timeout(CAP, st.recv_response()).await {
                            Err(_) => res(&hl, "recv_response", json!({"k": "pending"})),
                            Ok(Ok(_)) => res(&hl, "recv_response", json!({"k": "response"})),
                            Ok(Err(e)) => res(&hl, "recv_response", proj::stream_err(&e)),
                        }
                    }
                }
                let _ = drive.await;
            })
        } else {
            tokio::spawn(async move {
                let built = tokio::time::timeout(CAP, h3::server::builder().build::<_, Bytes>(h3_quinn::Connection::new(h3q))).await;
                let mut conn = match built {
                    Err(_) => return res(&hl, "build", json!({"k": "pending"})),
                    Ok(Err(e)) => return res(&hl, "build", proj::conn_err(&e)),
                    Ok(Ok(x)) => {
                        res(&hl, "build", json!({"k": "ok"}));
                        x
                    }
                };
                match tokio::time::timeout(CAP, conn.accept()).await {
                    Err(_) => res(&hl, "driver", json!({"k": "pending"})),
                    Ok(Ok(Some(_))) => res(&hl, "driver", json!({"k": "request"})),
                    Ok(Ok(None)) => res(&hl, "driver", json!({"k": "none"})),
                    Ok(Err(e)) => res(&hl, "driver", proj::conn_err(&e)),
                }
            })
        };
        // ---- the raw peer: silent (timeout) or closing with the scenario's code after a moment
        let mut keep: Vec<Box<dyn std::any::Any + Send>> = vec![];
        if !at_build {
            if let Ok(mut ctl) = raw.open_uni().await {
                let _ = ctl.write_all(&[0, 4, 0]).await;
                keep.push(Box::new(ctl));
            }
        }
        if !timeout {
            tokio::time::sleep(Duration::from_millis(40)).await;
            raw.close(VarInt::from_u64(scn["cond"]["code"].as_u64().unwrap_or(0)).unwrap_or(VarInt::from_u32(0)), b"bye");
        }
        match tokio::time::timeout(CAP * 3, h3task).await {
            Err(_) => log.lock().unwrap().push(json!({"ev": "pending", "api": "task"})),
            Ok(Err(e)) if e.is_panic() => log.lock().unwrap().push(json!({"ev": "panic", "msg": panic_msg(e.into_panic())})),
            Ok(_) => {}
        }
        drop(keep);
        raw.close(VarInt::from_u32(0x100), b"done");
        cep.close(VarInt::from_u32(0), b"done");
        sep.close(VarInt::from_u32(0), b"done");
        let mut out = log.lock().unwrap().clone();
        out.push(json!({"ev": "quiesce", "pending": []}));
        Ok(out)
    }
}

/// No scenario takes anywhere near this long; one that does is a livelock of the code under test (it is reported as a panic of
/// the scenario, which no trace specification can explain), not a reason for the check to hang.
async fn limited<F: std::future::Future<Output = Result<Vec<Value>, String>>>(f: F) -> Result<Vec<Value>, String> {
    match tokio::time::timeout(Duration::from_secs(90), f).await {
        Ok(r) => r,
        Err(_) => panic!("the scenario did not end within 90 s (livelock)"),
    }
}

pub fn run(inp: &str, out: &str) -> Result<(), String> {
    let r = BufReader::new(std::fs::File::open(inp).map_err(|e| format!("{inp}: {e}"))?);
    let mut w = BufWriter::new(std::fs::File::create(out).map_err(|e| format!("{out}: {e}"))?);
    let mut rt = tokio::runtime::Builder::new_current_thread().enable_all().build().map_err(|e| e.to_string())?;
    let certs = build_certs();
    for line in r.lines() {
        let line = line.map_err(|e| e.to_string())?;
        if line.trim().is_empty() {
            continue;
        }
        let scn: Value = serde_json::from_str(&line).map_err(|e| format!("scenario: {e}"))?;
        // a panic inside the adapter (outside the calls that are guarded individually) is data, not a tool failure
        let r = catch_unwind(AssertUnwindSafe(|| {
            if scn["fam"] == "H3CLS" {
                rt.block_on(limited(h3cls::run_scenario(&certs, &scn)))
            } else if scn["fam"] == "H3DG" {
                rt.block_on(limited(h3dg::run_scenario(&certs, &scn)))
            } else if scn["fam"] == "H3ERR" {
                rt.block_on(limited(h3err::run_scenario(&certs, &scn)))
            } else if scn["fam"] == "H3RAW" {
                rt.block_on(limited(h3raw::run_scenario(&certs, &scn)))
            } else if scn["fam"] == "E2E" {
                rt.block_on(limited(e2e::run_scenario(&certs, &scn)))
            } else {
                rt.block_on(limited(run_scenario(&certs, &scn)))
            }
        }));
        let log = match r {
            Ok(l) => l?,
            Err(e) => {
                rt = tokio::runtime::Builder::new_current_thread().enable_all().build().map_err(|e| e.to_string())?;
                vec![
                    if scn["fam"] == "H3CLS" {
                        json!({"ev": "reset", "scn": scn["id"], "role": scn["role"], "when": scn["when"], "cond": scn["cond"]})
                    } else if scn["fam"] == "H3DG" {
                        json!({"ev": "reset", "scn": scn["id"], "role": scn["role"]})
                    } else if scn["fam"] == "H3ERR" {
                        json!({"ev": "reset", "scn": scn["id"], "role": scn["role"], "prog": scn["prog"], "end": scn["end"], "again": scn["again"]})
                    } else if scn["fam"] == "H3RAW" {
                        json!({"ev": "reset", "scn": scn["id"], "role": scn["role"], "cfg": {}, "meta": {}, "wt": false})
                    } else if scn["fam"] == "E2E" {
                        json!({"ev": "reset", "scn": scn["id"], "role": "pair", "cfg": {}, "meta": {"req": scn["req"], "resp": scn["resp"]}, "wt": false})
                    } else {
                        json!({"ev": "reset", "scn": scn["id"], "a_role": scn["a_role"].as_str().unwrap_or("client"), "win": {"stream": 0, "conn": 0, "send": 0}, "idle_ms": 0})
                    },
                    json!({"ev": "panic", "msg": panic_msg(e)}),
                    json!({"ev": "quiesce", "aborted": true}),
                ]
            }
        };
        for e in log {
            writeln!(w, "{}", e).map_err(|e| e.to_string())?;
        }
    }
    Ok(())
}
