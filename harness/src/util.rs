use serde_json::{json, Value};
use std::panic::{catch_unwind, AssertUnwindSafe};

pub fn bytes_of(v: &Value) -> Vec<u8> {
    v.as_array()
        .map(|a| a.iter().map(|x| x.as_u64().unwrap_or(0) as u8).collect())
        .unwrap_or_default()
}

pub fn u64_of(v: &Value) -> u64 {
    let b = bytes_of(v);
    let mut x = 0u64;
    for y in b.iter() {
        x = (x << 8) | (*y as u64);
    }
    x
}

pub fn b8(x: u64) -> Value {
    json!(x.to_be_bytes().to_vec())
}

pub fn jbytes(b: &[u8]) -> Value {
    json!(b.to_vec())
}

/// Run `f`, turning a panic into a JSON value `{"panic": msg}`.
pub fn guarded<F: FnOnce() -> Value>(f: F) -> Value {
    match catch_unwind(AssertUnwindSafe(f)) {
        Ok(v) => v,
        Err(e) => {
            let msg = if let Some(s) = e.downcast_ref::<&str>() {
                s.to_string()
            } else if let Some(s) = e.downcast_ref::<String>() {
                s.clone()
            } else {
                "panic".to_string()
            };
            json!({ "panic": msg })
        }
    }
}
