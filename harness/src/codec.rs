//! Codec vector runner: executes one public (or hook re-exported) codec entry point per vector and
//! projects the result onto the JSON shape the TLA+ definition produces.
use crate::util::*;
use bytes::Buf;
use h3::proto::varint::VarInt;
use h3::quic::StreamId;
use serde_json::{json, Value};
use std::convert::TryFrom;
use std::io::{BufRead, BufReader, BufWriter, Write};

fn vdec(input: &[u8]) -> Value {
    let mut buf = &input[..];
    match VarInt::decode(&mut buf) {
        Ok(v) => json!({"ok": true, "len": input.len() - buf.remaining(), "value": b8(v.into_inner()), "rest": jbytes(buf)}),
        Err(_) => json!({"ok": false}),
    }
}

fn venc(x: u64) -> Value {
    let a = VarInt::from_u64(x);
    let tf = VarInt::try_from(x).is_ok();
    let push = h3::proto::push::PushId::try_from(x).is_ok();
    let sess = h3::webtransport::SessionId::try_from(x).is_ok();
    match a {
        Ok(v) => {
            let mut out = Vec::new();
            v.encode(&mut out);
            json!({"ok": true, "bytes": jbytes(&out), "size": v.size(), "tf": tf, "push": push, "sess": sess})
        }
        Err(_) => json!({"ok": false, "tf": tf, "push": push, "sess": sess}),
    }
}

fn sid(x: u64) -> Value {
    match StreamId::try_from(x) {
        Err(_) => json!({"ok": false}),
        Ok(id) => {
            // initiator and direction are only observable through Display
            let s = format!("{}", id);
            let initiator = if s.starts_with("client ") { "client" } else if s.starts_with("server ") { "server" } else { "?" };
            let dir = if s.contains(" bidirectional ") { "bi" } else if s.contains(" unidirectional ") { "uni" } else { "?" };
            json!({"ok": true, "initiator": initiator, "dir": dir, "index": b8(id.index()),
                   "is_request": id.is_request(), "is_push": id.is_push(), "inner": b8(id.into_inner())})
        }
    }
}

fn sidadd(x: u64, n: u64) -> Value {
    match StreamId::try_from(x) {
        Err(_) => json!({"panic": "invalid id in vector"}),
        Ok(id) => b8((id + (n as usize)).into_inner()),
    }
}

pub fn exec(v: &Value) -> Value {
    let f = v["fn"].as_str().unwrap_or("");
    guarded(|| match f {
        "vdec" => vdec(&bytes_of(&v["in"])),
        "venc" => venc(u64_of(&v["in"])),
        "esize" => json!(VarInt::encoded_size(v["in"].as_u64().unwrap_or(0) as u8)),
        "sid" => sid(u64_of(&v["in"])),
        "sidadd" => sidadd(u64_of(&v["in"]), u64_of(&v["n"])),
        _ => json!({"unknown_fn": f}),
    })
}

/// Binding A: every vector carries `exp`; output one line per vector `{i, ok}` (mismatches carry everything).
pub fn run_vectors(inp: &str, out: &str) -> Result<(), String> {
    let r = BufReader::new(std::fs::File::open(inp).map_err(|e| format!("{inp}: {e}"))?);
    let mut w = BufWriter::new(std::fs::File::create(out).map_err(|e| format!("{out}: {e}"))?);
    let mut n = 0u64;
    let mut bad = 0u64;
    for (i, line) in r.lines().enumerate() {
        let line = line.map_err(|e| e.to_string())?;
        if line.trim().is_empty() {
            continue;
        }
        let v: Value = serde_json::from_str(&line).map_err(|e| format!("line {}: {e}", i + 1))?;
        let got = exec(&v);
        n += 1;
        if got.get("unknown_fn").is_some() {
            return Err(format!("vector {}: unknown fn {}", i + 1, v["fn"]));
        }
        if got != v["exp"] {
            bad += 1;
            writeln!(w, "{}", json!({"i": i + 1, "ok": false, "vec": v, "got": got})).map_err(|e| e.to_string())?;
        }
    }
    writeln!(w, "{}", json!({"summary": true, "vectors": n, "mismatches": bad})).map_err(|e| e.to_string())?;
    Ok(())
}

/// Binding B: the harness drives random inputs and records `(fn, in, out)`; TLC judges each record.
pub fn run_random(prop: &str, seed: u64, n: usize, out: &str) -> Result<(), String> {
    use rand::{Rng, SeedableRng};
    let mut rng = rand::rngs::StdRng::seed_from_u64(seed);
    let mut w = BufWriter::new(std::fs::File::create(out).map_err(|e| format!("{out}: {e}"))?);
    for _ in 0..n {
        let v = match prop {
            "C16" => {
                // random 62/64-bit values, biased towards every magnitude
                let bits = rng.random_range(0..=64u32);
                let x: u64 = if bits == 0 { 0 } else { rng.random::<u64>() >> (64 - bits) };
                match rng.random_range(0..4u32) {
                    0 => json!({"fn": "venc", "in": b8(x)}),
                    1 => {
                        let mut b = x.to_be_bytes().to_vec();
                        let cut = rng.random_range(0..=8usize);
                        b.truncate(cut);
                        let extra = rng.random_range(0..3usize);
                        for _ in 0..extra { b.push(rng.random()); }
                        json!({"fn": "vdec", "in": jbytes(&b)})
                    }
                    2 => json!({"fn": "sid", "in": b8(x)}),
                    _ => json!({"fn": "sidadd", "in": b8(x & ((1u64 << 62) - 1)), "n": b8(rng.random::<u64>() >> rng.random_range(0..64u32))}),
                }
            }
            _ => return Err(format!("no random driver for {prop}")),
        };
        let got = exec(&v);
        let mut rec = v.clone();
        rec["out"] = got;
        writeln!(w, "{}", rec).map_err(|e| e.to_string())?;
    }
    Ok(())
}
