//! Codec vector runner: executes one public (or hook re-exported) codec entry point per vector and
//! projects the result onto the JSON shape the TLA+ definition produces.
use crate::util::*;
use bytes::Buf;
use h3::proto::varint::VarInt;
use h3::quic::StreamId;
use serde_json::{json, Value};
use std::convert::TryFrom;
use std::io::{BufRead, BufReader, BufWriter, Write};

fn vdec(input: &[u8]) -> Value {
    let mut buf = &input[..];
    match VarInt::decode(&mut buf) {
        Ok(v) => json!({"ok": true, "len": input.len() - buf.remaining(), "value": b8(v.into_inner()), "rest": jbytes(buf)}),
        Err(_) => json!({"ok": false}),
    }
}

fn venc(x: u64) -> Value {
    let a = VarInt::from_u64(x);
    let tf = VarInt::try_from(x).is_ok();
    let push = h3::proto::push::PushId::try_from(x).is_ok();
    let sess = h3::webtransport::SessionId::try_from(x).is_ok();
    match a {
        Ok(v) => {
            let mut out = Vec::new();
            v.encode(&mut out);
            json!({"ok": true, "bytes": jbytes(&out), "size": v.size(), "tf": tf, "push": push, "sess": sess})
        }
        Err(_) => json!({"ok": false, "tf": tf, "push": push, "sess": sess}),
    }
}

fn sid(x: u64) -> Value {
    match StreamId::try_from(x) {
        Err(_) => json!({"ok": false}),
        Ok(id) => {
            // initiator and direction are only observable through Display
            let s = format!("{}", id);
            let initiator = if s.starts_with("client ") { "client" } else if s.starts_with("server ") { "server" } else { "?" };
            let dir = if s.contains(" bidirectional ") { "bi" } else if s.contains(" unidirectional ") { "uni" } else { "?" };
            json!({"ok": true, "initiator": initiator, "dir": dir, "index": b8(id.index()),
                   "is_request": id.is_request(), "is_push": id.is_push(), "inner": b8(id.into_inner())})
        }
    }
}

fn sidadd(x: u64, n: u64) -> Value {
    match StreamId::try_from(x) {
        Err(_) => json!({"panic": "invalid id in vector"}),
        Ok(id) => b8((id + (n as usize)).into_inner()),
    }
}

// ---------------------------------------------------------------- C18: HTTP datagrams
fn read_all<B: Buf>(mut b: B) -> Vec<u8> {
    // chunk-wise read through the Buf interface, the way a QUIC stack consumes the datagram
    let mut out = Vec::new();
    let mut guard = 0;
    while b.has_remaining() {
        let c = b.chunk().to_vec();
        if c.is_empty() {
            guard += 1;
            if guard > 3 { out.extend_from_slice(b"<empty chunk with bytes remaining>"); break; }
            continue;
        }
        out.extend_from_slice(&c);
        b.advance(c.len());
    }
    out
}

fn dgenc(sid: u64, payload: &[u8]) -> Value {
    let id = match StreamId::try_from(sid) { Ok(i) => i, Err(_) => return json!({"panic": "bad sid in vector"}) };
    let d = h3_datagram::datagram::Datagram::new(id, bytes::Bytes::copy_from_slice(payload));
    json!({"bytes": jbytes(&read_all(d.encode()))})
}

fn code_name_of_debug(s: &str) -> String {
    // InternalConnectionError derives Debug: `InternalConnectionError { code: H3_DATAGRAM_ERROR, message: ".." }`
    s.split("code: ").nth(1).and_then(|r| r.split(|c| c == ',' || c == ' ' || c == '}').next()).unwrap_or("?").to_string()
}

fn dgdec(input: &[u8]) -> Value {
    match h3_datagram::datagram::Datagram::decode(bytes::Bytes::copy_from_slice(input)) {
        Ok(d) => json!({"ok": true, "sid": b8(d.stream_id().into_inner()), "payload": jbytes(&d.payload()[..])}),
        Err(e) => json!({"ok": false, "code": code_name_of_debug(&format!("{:?}", e))}),
    }
}

fn dgcons(sid: u64, payload: &[u8], pattern: &[u64]) -> Value {
    let id = match StreamId::try_from(sid) { Ok(i) => i, Err(_) => return json!({"panic": "bad sid in vector"}) };
    let mut e = h3_datagram::datagram::Datagram::new(id, bytes::Bytes::copy_from_slice(payload)).encode();
    let mut steps = Vec::new();
    for a in pattern {
        let rem = e.remaining();
        let chunk = e.chunk().to_vec();
        steps.push(json!({"rem": rem, "chunk": jbytes(&chunk), "adv": a}));
        if (*a as usize) > rem {
            break; // the spec will reject this record; never call advance beyond remaining
        }
        e.advance(*a as usize);
    }
    json!({"steps": steps, "final_rem": e.remaining(), "final_chunk": jbytes(e.chunk())})
}

pub fn exec(v: &Value) -> Value {
    let f = v["fn"].as_str().unwrap_or("");
    guarded(|| match f {
        "vdec" => vdec(&bytes_of(&v["in"])),
        "venc" => venc(u64_of(&v["in"])),
        "esize" => json!(VarInt::encoded_size(v["in"].as_u64().unwrap_or(0) as u8)),
        "sid" => sid(u64_of(&v["in"])),
        "sidadd" => sidadd(u64_of(&v["in"]), u64_of(&v["n"])),
        "dgenc" => dgenc(u64_of(&v["sid"]), &bytes_of(&v["payload"])),
        "dgdec" => dgdec(&bytes_of(&v["in"])),
        "dgcons" => dgcons(u64_of(&v["sid"]), &bytes_of(&v["payload"]), &v["pattern"].as_array().map(|a| a.iter().map(|x| x.as_u64().unwrap_or(0)).collect::<Vec<_>>()).unwrap_or_default()),
        _ => json!({"unknown_fn": f}),
    })
}

/// Binding A: every vector carries `exp`; output one line per vector `{i, ok}` (mismatches carry everything).
pub fn run_vectors(inp: &str, out: &str) -> Result<(), String> {
    let r = BufReader::new(std::fs::File::open(inp).map_err(|e| format!("{inp}: {e}"))?);
    let mut w = BufWriter::new(std::fs::File::create(out).map_err(|e| format!("{out}: {e}"))?);
    let mut n = 0u64;
    let mut bad = 0u64;
    for (i, line) in r.lines().enumerate() {
        let line = line.map_err(|e| e.to_string())?;
        if line.trim().is_empty() {
            continue;
        }
        let v: Value = serde_json::from_str(&line).map_err(|e| format!("line {}: {e}", i + 1))?;
        let got = exec(&v);
        n += 1;
        if got.get("unknown_fn").is_some() {
            return Err(format!("vector {}: unknown fn {}", i + 1, v["fn"]));
        }
        if v.get("exp").is_none() {
            let mut rec = v.clone();
            rec["out"] = got;
            writeln!(w, "{}", json!({"rec": rec})).map_err(|e| e.to_string())?;
            continue;
        }
        if got != v["exp"] {
            bad += 1;
            writeln!(w, "{}", json!({"i": i + 1, "ok": false, "vec": v, "got": got})).map_err(|e| e.to_string())?;
        }
    }
    writeln!(w, "{}", json!({"summary": true, "vectors": n, "mismatches": bad})).map_err(|e| e.to_string())?;
    Ok(())
}

/// Binding B: the harness drives random inputs and records `(fn, in, out)`; TLC judges each record.
pub fn run_random(prop: &str, seed: u64, n: usize, out: &str) -> Result<(), String> {
    use rand::{Rng, SeedableRng};
    let mut rng = rand::rngs::StdRng::seed_from_u64(seed);
    let mut w = BufWriter::new(std::fs::File::create(out).map_err(|e| format!("{out}: {e}"))?);
    for _ in 0..n {
        let v = match prop {
            "C16" => {
                // random 62/64-bit values, biased towards every magnitude
                let bits = rng.random_range(0..=64u32);
                let x: u64 = if bits == 0 { 0 } else { rng.random::<u64>() >> (64 - bits) };
                match rng.random_range(0..4u32) {
                    0 => json!({"fn": "venc", "in": b8(x)}),
                    1 => {
                        let mut b = x.to_be_bytes().to_vec();
                        let cut = rng.random_range(0..=8usize);
                        b.truncate(cut);
                        let extra = rng.random_range(0..3usize);
                        for _ in 0..extra { b.push(rng.random()); }
                        json!({"fn": "vdec", "in": jbytes(&b)})
                    }
                    2 => json!({"fn": "sid", "in": b8(x)}),
                    _ => json!({"fn": "sidadd", "in": b8(x & ((1u64 << 62) - 1)), "n": b8(rng.random::<u64>() >> rng.random_range(0..64u32))}),
                }
            }
            "C18" => {
                let k: u64 = { let bits = rng.random_range(0..=60u32); if bits == 0 { 0 } else { rng.random::<u64>() >> (64 - bits) } };
                let plen = rng.random_range(0..24usize);
                let payload: Vec<u8> = (0..plen).map(|_| rng.random()).collect();
                match rng.random_range(0..3u32) {
                    0 => json!({"fn": "dgenc", "sid": b8(k * 4), "payload": jbytes(&payload)}),
                    1 => {
                        let n = rng.random_range(0..=9usize);
                        let mut b: Vec<u8> = (0..n).map(|_| rng.random()).collect();
                        if !b.is_empty() && rng.random_bool(0.3) { b[0] |= 0xc0; }
                        json!({"fn": "dgdec", "in": jbytes(&b)})
                    }
                    _ => {
                        // random advance pattern over a random datagram
                        let total = VarInt::from_u64(k).map(|v| v.size()).unwrap_or(8) + plen;
                        let mut left = total as u64;
                        let mut pat = Vec::new();
                        while left > 0 { let a = rng.random_range(1..=left.min(9)); pat.push(a); left -= a; }
                        json!({"fn": "dgcons", "sid": b8(k * 4), "payload": jbytes(&payload), "pattern": pat})
                    }
                }
            }
            _ => return Err(format!("no random driver for {prop}")),
        };
        let got = exec(&v);
        let mut rec = v.clone();
        rec["out"] = got;
        writeln!(w, "{}", rec).map_err(|e| e.to_string())?;
    }
    Ok(())
}
