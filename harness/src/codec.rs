//! Codec vector runner: executes one public (or hook re-exported) codec entry point per vector and
//! projects the result onto the JSON shape the TLA+ definition produces.
use crate::util::*;
use bytes::Buf;
use h3::proto::varint::VarInt;
use h3::quic::StreamId;
use serde_json::{json, Value};
use std::convert::TryFrom;
use std::io::{BufRead, BufReader, BufWriter, Write};

fn vdec(input: &[u8]) -> Value {
    let mut buf = &input[..];
    match VarInt::decode(&mut buf) {
        Ok(v) => json!({"ok": true, "len": input.len() - buf.remaining(), "value": b8(v.into_inner()), "rest": jbytes(buf)}),
        Err(_) => json!({"ok": false}),
    }
}

fn venc(x: u64) -> Value {
    let a = VarInt::from_u64(x);
    let tf = VarInt::try_from(x).is_ok();
    let push = h3::proto::push::PushId::try_from(x).is_ok();
    let sess = h3::webtransport::SessionId::try_from(x).is_ok();
    match a {
        Ok(v) => {
            let mut out = Vec::new();
            v.encode(&mut out);
            json!({"ok": true, "bytes": jbytes(&out), "size": v.size(), "tf": tf, "push": push, "sess": sess})
        }
        Err(_) => json!({"ok": false, "tf": tf, "push": push, "sess": sess}),
    }
}

fn sid(x: u64) -> Value {
    match StreamId::try_from(x) {
        Err(_) => json!({"ok": false}),
        Ok(id) => {
            // initiator and direction are only observable through Display
            let s = format!("{}", id);
            let initiator = if s.starts_with("client ") { "client" } else if s.starts_with("server ") { "server" } else { "?" };
            let dir = if s.contains(" bidirectional ") { "bi" } else if s.contains(" unidirectional ") { "uni" } else { "?" };
            json!({"ok": true, "initiator": initiator, "dir": dir, "index": b8(id.index()),
                   "is_request": id.is_request(), "is_push": id.is_push(), "inner": b8(id.into_inner())})
        }
    }
}

fn sidadd(x: u64, n: u64) -> Value {
    match StreamId::try_from(x) {
        Err(_) => json!({"panic": "invalid id in vector"}),
        Ok(id) => b8((id + (n as usize)).into_inner()),
    }
}

// ---------------------------------------------------------------- C18: HTTP datagrams
fn read_all<B: Buf>(mut b: B) -> Vec<u8> {
    // chunk-wise read through the Buf interface, the way a QUIC stack consumes the datagram
    let mut out = Vec::new();
    let mut guard = 0;
    while b.has_remaining() {
        let c = b.chunk().to_vec();
        if c.is_empty() {
            guard += 1;
            if guard > 3 { out.extend_from_slice(b"<empty chunk with bytes remaining>"); break; }
            continue;
        }
        out.extend_from_slice(&c);
        b.advance(c.len());
    }
    out
}

fn dgenc(sid: u64, payload: &[u8]) -> Value {
    let id = match StreamId::try_from(sid) { Ok(i) => i, Err(_) => return json!({"panic": "bad sid in vector"}) };
    let d = h3_datagram::datagram::Datagram::new(id, bytes::Bytes::copy_from_slice(payload));
    json!({"bytes": jbytes(&read_all(d.encode()))})
}

fn code_name_of_debug(s: &str) -> String {
    // InternalConnectionError derives Debug: `InternalConnectionError { code: H3_DATAGRAM_ERROR, message: ".." }`
    s.split("code: ").nth(1).and_then(|r| r.split(|c| c == ',' || c == ' ' || c == '}').next()).unwrap_or("?").to_string()
}

fn dgdec(input: &[u8]) -> Value {
    match h3_datagram::datagram::Datagram::decode(bytes::Bytes::copy_from_slice(input)) {
        Ok(d) => json!({"ok": true, "sid": b8(d.stream_id().into_inner()), "payload": jbytes(&d.payload()[..])}),
        Err(e) => json!({"ok": false, "code": code_name_of_debug(&format!("{:?}", e))}),
    }
}

fn dgcons(sid: u64, payload: &[u8], pattern: &[u64]) -> Value {
    let id = match StreamId::try_from(sid) { Ok(i) => i, Err(_) => return json!({"panic": "bad sid in vector"}) };
    let mut e = h3_datagram::datagram::Datagram::new(id, bytes::Bytes::copy_from_slice(payload)).encode();
    let mut steps = Vec::new();
    for a in pattern {
        let rem = e.remaining();
        let chunk = e.chunk().to_vec();
        steps.push(json!({"rem": rem, "chunk": jbytes(&chunk), "adv": a}));
        if (*a as usize) > rem {
            break; // the spec will reject this record; never call advance beyond remaining
        }
        e.advance(*a as usize);
    }
    json!({"steps": steps, "final_rem": e.remaining(), "final_chunk": jbytes(e.chunk())})
}

// ---------------------------------------------------------------- C14: a DATA frame whose payload buffer is not contiguous
/// `WriteBuf` (what h3 hands to the transport) for `Frame::Data(a.chain(b))`, drained with the given advance pattern and then
/// to the end; reports what `remaining()` said first and every byte that came out.
fn wbuf(a: &[u8], b: &[u8], pattern: &[u64]) -> Value {
    use bytes::Bytes;
    let payload = Bytes::copy_from_slice(a).chain(Bytes::copy_from_slice(b));
    let mut w: h3::quic::WriteBuf<bytes::buf::Chain<Bytes, Bytes>> = h3::proto::frame::Frame::Data(payload).into();
    let first_rem = w.remaining();
    let mut out: Vec<u8> = vec![];
    let mut take = |w: &mut h3::quic::WriteBuf<bytes::buf::Chain<Bytes, Bytes>>, want: usize, out: &mut Vec<u8>| -> bool {
        let c = w.chunk();
        if c.is_empty() {
            return false;
        }
        let n = want.min(c.len()).max(1);
        out.extend_from_slice(&c[..n]);
        w.advance(n);
        true
    };
    for p in pattern {
        if !take(&mut w, *p as usize, &mut out) {
            break;
        }
    }
    let mut guard = 0;
    while w.has_remaining() && guard < 100000 {
        if !take(&mut w, usize::MAX, &mut out) {
            break;
        }
        guard += 1;
    }
    json!({"remaining": first_rem, "bytes": jbytes(&out), "left": w.remaining()})
}

// ---------------------------------------------------------------- C02: frame segmentation through FrameStream
pub fn code_of_name(n: &str) -> i64 {
    match n {
        "H3_DATAGRAM_ERROR" => 0x33, "H3_NO_ERROR" => 0x100, "H3_GENERAL_PROTOCOL_ERROR" => 0x101, "H3_INTERNAL_ERROR" => 0x102,
        "H3_STREAM_CREATION_ERROR" => 0x103, "H3_CLOSED_CRITICAL_STREAM" => 0x104, "H3_FRAME_UNEXPECTED" => 0x105,
        "H3_FRAME_ERROR" => 0x106, "H3_EXCESSIVE_LOAD" => 0x107, "H3_ID_ERROR" => 0x108, "H3_SETTINGS_ERROR" => 0x109,
        "H3_MISSING_SETTINGS" => 0x10a, "H3_REQUEST_REJECTED" => 0x10b, "H3_REQUEST_CANCELLED" => 0x10c,
        "H3_REQUEST_INCOMPLETE" => 0x10d, "H3_MESSAGE_ERROR" => 0x10e, "H3_CONNECT_ERROR" => 0x10f, "H3_VERSION_FALLBACK" => 0x110,
        "QPACK_DECOMPRESSION_FAILED" => 0x200, "QPACK_ENCODER_STREAM_ERROR" => 0x201, "QPACK_DECODER_STREAM_ERROR" => 0x202,
        _ => -1,
    }
}

fn frame_item(f: &h3::proto::frame::Frame<h3::proto::frame::PayloadLen>) -> Value {
    use h3::proto::frame::Frame;
    match f {
        Frame::Data(l) => json!({"c": "DATA", "len": l.0, "got": []}),
        Frame::Headers(b) => json!({"c": "HEADERS", "payload": jbytes(&b[..])}),
        Frame::CancelPush(id) => json!({"c": "CANCEL_PUSH", "v": b8(VarInt::from(*id).into_inner())}),
        Frame::Settings(_) => json!({"c": "SETTINGS"}),
        Frame::PushPromise(_) => json!({"c": "PUSH_PROMISE"}),
        Frame::Goaway(v) => json!({"c": "GOAWAY", "v": b8(v.into_inner())}),
        Frame::MaxPushId(id) => json!({"c": "MAX_PUSH_ID", "v": b8(VarInt::from(*id).into_inner())}),
        Frame::WebTransportStream(_) => json!({"c": "WT"}),
        Frame::Grease => json!({"c": "GREASE"}),
    }
}

fn fs_err_code(e: h3::frame::FrameStreamError) -> i64 {
    use h3::frame::FrameStreamError as E;
    match e {
        // the mapping every call site of FrameStream applies (connection.rs poll_control,
        // connection_error_creators.rs handle_frame_stream_error_on_request_stream)
        E::UnexpectedEnd => 0x106,
        E::Proto(p) => code_of_name(&code_name_of_debug(&format!("{:?}", h3::error::internal_error::InternalConnectionError::got_frame_error(p)))),
        E::Quic(_) => -2,
    }
}

/// Drives a FrameStream over a simulated receive stream: the wire is delivered chunk by chunk, after every
/// chunk the reader consumes everything it can; returns the cumulative observation after every chunk and at the end.
fn frames(wire: &[u8], cuts: &[u64], fin: bool) -> Value {
    use crate::simquic::{Log, Net, Role};
    use std::panic::{catch_unwind, AssertUnwindSafe};
    use std::task::{Context, Poll};
    let net = Net::new(Role::Server, "s", Log::default());
    let recv = net.raw_recv(0);
    let mut fs: h3::frame::FrameStream<crate::simquic::SimRecv, bytes::Bytes> = h3::frame::FrameStream::new(h3::stream::BufRecvStream::new(recv));
    let waker = futures_util::task::noop_waker();
    let mut cx = Context::from_waker(&waker);
    let mut items: Vec<Value> = vec![];
    let mut term = json!({"term": "more"});
    let mut in_data = false;
    let mut done = false;
    let mut drive = |fs: &mut h3::frame::FrameStream<crate::simquic::SimRecv, bytes::Bytes>, items: &mut Vec<Value>, term: &mut Value, in_data: &mut bool, done: &mut bool| {
        if *done {
            return;
        }
        let mut guard = 0;
        loop {
            guard += 1;
            if guard > 10_000 {
                *term = json!({"term": "livelock"});
                *done = true;
                return;
            }
            if *in_data {
                let r = catch_unwind(AssertUnwindSafe(|| match fs.poll_data(&mut cx) {
                    Poll::Ready(Ok(Some(mut b))) => {
                        let mut v = vec![];
                        while b.has_remaining() {
                            let c = b.chunk().to_vec();
                            b.advance(c.len());
                            v.extend(c);
                        }
                        Ok(Some(Some(v)))
                    }
                    Poll::Ready(Ok(None)) => Ok(Some(None)),
                    Poll::Ready(Err(e)) => Err(fs_err_code(e)),
                    Poll::Pending => Ok(None),
                }));
                match r {
                    Err(_) => {
                        *term = json!({"term": "panic", "at": "poll_data"});
                        *done = true;
                        return;
                    }
                    Ok(Ok(Some(Some(v)))) => {
                        if let Some(last) = items.last_mut() {
                            last["got"].as_array_mut().unwrap().extend(v.iter().map(|x| json!(x)));
                        }
                    }
                    Ok(Ok(Some(None))) => *in_data = false,
                    Ok(Ok(None)) => {
                        *term = json!({"term": "more"});
                        return;
                    }
                    Ok(Err(code)) => {
                        *term = json!({"term": "err", "code": code});
                        *done = true;
                        return;
                    }
                }
            } else {
                let r = catch_unwind(AssertUnwindSafe(|| match fs.poll_next(&mut cx) {
                    Poll::Ready(Ok(Some(f))) => Ok(Some(Some(frame_item(&f)))),
                    Poll::Ready(Ok(None)) => Ok(Some(None)),
                    Poll::Ready(Err(e)) => Err(fs_err_code(e)),
                    Poll::Pending => Ok(None),
                }));
                match r {
                    Err(_) => {
                        *term = json!({"term": "panic", "at": "poll_next"});
                        *done = true;
                        return;
                    }
                    Ok(Ok(Some(Some(it)))) => {
                        let c = it["c"].as_str().unwrap_or("").to_string();
                        items.push(it);
                        if c == "DATA" {
                            *in_data = true;
                        } else if c == "WT" {
                            *term = json!({"term": "wt"});
                            *done = true;
                            return;
                        }
                    }
                    Ok(Ok(Some(None))) => {
                        *term = json!({"term": "end"});
                        *done = true;
                        return;
                    }
                    Ok(Ok(None)) => {
                        *term = json!({"term": "more"});
                        return;
                    }
                    Ok(Err(code)) => {
                        *term = json!({"term": "err", "code": code});
                        *done = true;
                        return;
                    }
                }
            }
        }
    };
    let mut inter = vec![];
    let mut pos = 0usize;
    for c in cuts {
        let k = (*c as usize).min(wire.len() - pos);
        net.deliver(0, &wire[pos..pos + k]);
        pos += k;
        drive(&mut fs, &mut items, &mut term, &mut in_data, &mut done);
        inter.push(json!({"items": items.clone(), "t": term.clone()}));
    }
    if fin {
        net.peer_fin(0);
        drive(&mut fs, &mut items, &mut term, &mut in_data, &mut done);
    }
    std::mem::forget(fs); // a poisoned FrameStream must not run destructors that could panic again
    json!({"inter": inter, "final": {"items": items, "t": term}})
}

fn obs_matches(exp: &Value, got: &Value, exact: bool) -> bool {
    let (ei, gi) = (exp["items"].as_array().cloned().unwrap_or_default(), got["items"].as_array().cloned().unwrap_or_default());
    if ei.len() != gi.len() {
        return false;
    }
    for (e, g) in ei.iter().zip(gi.iter()) {
        if e["c"] == "DATA" && g["c"] == "DATA" {
            if e["len"] != g["len"] {
                return false;
            }
            let (eb, gb) = (bytes_of(&e["got"]), bytes_of(&g["got"]));
            // how eagerly a partly received DATA payload is handed out is not the property's business
            if exact { if eb != gb { return false; } } else if !eb.starts_with(&gb) { return false; }
        } else if e != g {
            return false;
        }
    }
    let codes: Vec<i64> = exp["codes"].as_array().map(|a| a.iter().map(|x| x.as_i64().unwrap_or(-9)).collect()).unwrap_or_default();
    let gt = got["t"]["term"].as_str().unwrap_or("");
    match exp["term"].as_str().unwrap_or("") {
        "err" => gt == "err" && codes.contains(&got["t"]["code"].as_i64().unwrap_or(-9)),
        "more" => gt == "more" || (gt == "err" && codes.contains(&got["t"]["code"].as_i64().unwrap_or(-9))),
        t => gt == t,
    }
}

/// comparison for fn "frames": expected and observed agree after every chunk and at the end
pub fn frames_agree(v: &Value, got: &Value) -> bool {
    let ei = v["exp"]["inter"].as_array().cloned().unwrap_or_default();
    let gi = got["inter"].as_array().cloned().unwrap_or_default();
    if ei.len() != gi.len() {
        return false;
    }
    for (e, g) in ei.iter().zip(gi.iter()) {
        if !obs_matches(e, g, false) {
            return false;
        }
    }
    obs_matches(&v["exp"]["final"], &got["final"], v["fin"] == true)
}

// ---------------------------------------------------------------- C15: string literals and prefixed integers (hook re-exports)
fn senc(size: u8, flags: u8, input: &[u8]) -> Value {
    let mut out = Vec::new();
    match h3::qpack::verif::prefix_string::encode(size, flags, input, &mut out) {
        Ok(()) => json!({"ok": true, "bytes": jbytes(&out)}),
        Err(e) => json!({"ok": false, "err": format!("{:?}", e)}),
    }
}

fn sdec(size: u8, input: &[u8]) -> Value {
    let mut buf = &input[..];
    match h3::qpack::verif::prefix_string::decode(size, &mut buf) {
        Ok(v) => json!({"ok": true, "bytes": jbytes(&v), "consumed": input.len() - buf.remaining()}),
        Err(_) => json!({"ok": false}),
    }
}

fn idec(size: u8, input: &[u8]) -> Value {
    let mut buf = &input[..];
    match h3::qpack::verif::prefix_int::decode(size, &mut buf) {
        Ok((flags, v)) => json!({"ok": true, "flags": flags, "value": b8(v), "consumed": input.len() - buf.remaining()}),
        Err(_) => json!({"ok": false}),
    }
}

fn ienc(size: u8, flags: u8, v: u64) -> Value {
    let mut out = Vec::new();
    h3::qpack::verif::prefix_int::encode(size, flags, v, &mut out);
    jbytes(&out)
}

// ---------------------------------------------------------------- C11: stateless QPACK field sections
fn fields_of(v: &Value) -> Vec<h3::qpack::HeaderField> {
    v.as_array().map(|a| a.iter().map(|f| h3::qpack::HeaderField::new(bytes_of(&f[0]), bytes_of(&f[1]))).collect()).unwrap_or_default()
}

fn jfields(f: &[h3::qpack::HeaderField]) -> Value {
    json!(f.iter().map(|x| json!([jbytes(&x.name[..]), jbytes(&x.value[..])])).collect::<Vec<_>>())
}

fn qenc(fields: &Value) -> Value {
    let mut out = bytes::BytesMut::new();
    match h3::qpack::encode_stateless(&mut out, fields_of(fields)) {
        Ok(size) => json!({"ok": true, "bytes": jbytes(&out[..]), "size": size}),
        Err(e) => json!({"ok": false, "err": format!("{:?}", e)}),
    }
}

fn qdec(input: &[u8], max: u64) -> Value {
    let mut buf = bytes::Bytes::copy_from_slice(input);
    match h3::qpack::decode_stateless(&mut buf, max) {
        Ok(d) => json!({"ok": true, "fields": jfields(&d.fields), "size": d.mem_size}),
        Err(h3::qpack::DecoderError::HeaderTooLong(n)) => json!({"ok": false, "too_long": n}),
        Err(_) => json!({"ok": false}),
    }
}

/// verdict-style expectations: {"v":"ok",...} must match; {"v":"reject"} must fail; {"v":"either",...} may fail, else must match
fn verdict_agree(exp: &Value, got: &Value) -> bool {
    // a panic is never an acceptable way of refusing an input
    if got.get("panic").is_some() {
        return false;
    }
    let ok = got["ok"] == true;
    let same = || exp.as_object().map(|m| m.iter().all(|(k, v)| k == "v" || &got[k] == v)).unwrap_or(false);
    match exp["v"].as_str().unwrap_or("") {
        "reject" => !ok,
        "ok" => ok && same(),
        "either" => !ok || same(),
        _ => false,
    }
}

pub fn exec(v: &Value) -> Value {
    let f = v["fn"].as_str().unwrap_or("");
    guarded(|| match f {
        "vdec" => vdec(&bytes_of(&v["in"])),
        "venc" => venc(u64_of(&v["in"])),
        "esize" => json!(VarInt::encoded_size(v["in"].as_u64().unwrap_or(0) as u8)),
        "sid" => sid(u64_of(&v["in"])),
        "sidadd" => sidadd(u64_of(&v["in"]), u64_of(&v["n"])),
        "frames" => frames(&bytes_of(&v["wire"]), &v["cuts"].as_array().map(|a| a.iter().map(|x| x.as_u64().unwrap_or(0)).collect::<Vec<_>>()).unwrap_or_default(), v["fin"] == true),
        "senc" => senc(v["size"].as_u64().unwrap_or(8) as u8, v["flags"].as_u64().unwrap_or(0) as u8, &bytes_of(&v["in"])),
        "sdec" => sdec(v["size"].as_u64().unwrap_or(8) as u8, &bytes_of(&v["in"])),
        "idec" => idec(v["size"].as_u64().unwrap_or(8) as u8, &bytes_of(&v["in"])),
        "ienc" => ienc(v["size"].as_u64().unwrap_or(8) as u8, v["flags"].as_u64().unwrap_or(0) as u8, u64_of(&v["in"])),
        "qenc" => qenc(&v["in"]),
        "qdec" => qdec(&bytes_of(&v["in"]), v.get("max").map(u64_of).unwrap_or(u64::MAX >> 2)),
        "wbuf" => wbuf(&bytes_of(&v["a"]), &bytes_of(&v["b"]), &v["pattern"].as_array().map(|a| a.iter().map(|x| x.as_u64().unwrap_or(0)).collect::<Vec<_>>()).unwrap_or_default()),
        "dgenc" => dgenc(u64_of(&v["sid"]), &bytes_of(&v["payload"])),
        "dgdec" => dgdec(&bytes_of(&v["in"])),
        "dgcons" => dgcons(u64_of(&v["sid"]), &bytes_of(&v["payload"]), &v["pattern"].as_array().map(|a| a.iter().map(|x| x.as_u64().unwrap_or(0)).collect::<Vec<_>>()).unwrap_or_default()),
        _ => json!({"unknown_fn": f}),
    })
}

/// Binding A: every vector carries `exp`; output one line per vector `{i, ok}` (mismatches carry everything).
pub fn run_vectors(inp: &str, out: &str) -> Result<(), String> {
    let r = BufReader::new(std::fs::File::open(inp).map_err(|e| format!("{inp}: {e}"))?);
    let mut w = BufWriter::new(std::fs::File::create(out).map_err(|e| format!("{out}: {e}"))?);
    let mut n = 0u64;
    let mut bad = 0u64;
    for (i, line) in r.lines().enumerate() {
        let line = line.map_err(|e| e.to_string())?;
        if line.trim().is_empty() {
            continue;
        }
        let v: Value = serde_json::from_str(&line).map_err(|e| format!("line {}: {e}", i + 1))?;
        let got = exec(&v);
        n += 1;
        if got.get("unknown_fn").is_some() {
            return Err(format!("vector {}: unknown fn {}", i + 1, v["fn"]));
        }
        if v.get("exp").is_none() {
            let mut rec = v.clone();
            rec["out"] = got;
            writeln!(w, "{}", json!({"rec": rec})).map_err(|e| e.to_string())?;
            continue;
        }
        let agree = if got.get("panic").is_some() { false } else if v["fn"] == "frames" { frames_agree(&v, &got) } else if v["exp"].get("v").is_some() { verdict_agree(&v["exp"], &got) } else { got == v["exp"] };
        if !agree {
            bad += 1;
            writeln!(w, "{}", json!({"i": i + 1, "ok": false, "vec": v, "got": got})).map_err(|e| e.to_string())?;
        }
    }
    writeln!(w, "{}", json!({"summary": true, "vectors": n, "mismatches": bad})).map_err(|e| e.to_string())?;
    Ok(())
}

/// Binding B: the harness drives random inputs and records `(fn, in, out)`; TLC judges each record.
pub fn run_random(prop: &str, seed: u64, n: usize, out: &str) -> Result<(), String> {
    use rand::{Rng, SeedableRng};
    let mut rng = rand::rngs::StdRng::seed_from_u64(seed);
    let mut w = BufWriter::new(std::fs::File::create(out).map_err(|e| format!("{out}: {e}"))?);
    for _ in 0..n {
        let v = match prop {
            "C16" => {
                // random 62/64-bit values, biased towards every magnitude
                let bits = rng.random_range(0..=64u32);
                let x: u64 = if bits == 0 { 0 } else { rng.random::<u64>() >> (64 - bits) };
                match rng.random_range(0..4u32) {
                    0 => json!({"fn": "venc", "in": b8(x)}),
                    1 => {
                        let mut b = x.to_be_bytes().to_vec();
                        let cut = rng.random_range(0..=8usize);
                        b.truncate(cut);
                        let extra = rng.random_range(0..3usize);
                        for _ in 0..extra { b.push(rng.random()); }
                        json!({"fn": "vdec", "in": jbytes(&b)})
                    }
                    2 => json!({"fn": "sid", "in": b8(x)}),
                    _ => json!({"fn": "sidadd", "in": b8(x & ((1u64 << 62) - 1)), "n": b8(rng.random::<u64>() >> rng.random_range(0..64u32))}),
                }
            }
            "C02" => {
                // grammar-directed random wire: frames of every class, random varint forms, valid and invalid payloads
                let mut wire: Vec<u8> = vec![];
                let vi = |rng: &mut rand::rngs::StdRng, x: u64, w: &mut Vec<u8>| {
                    let min = if x < 64 { 0 } else if x < 16384 { 1 } else if x < (1 << 30) { 2 } else { 3 };
                    let form = rng.random_range(min..=3u32.min(min + 2));
                    match form {
                        0 => w.push(x as u8),
                        1 => w.extend_from_slice(&(0x4000u16 | x as u16).to_be_bytes()),
                        2 => w.extend_from_slice(&(0x8000_0000u32 | x as u32).to_be_bytes()),
                        _ => w.extend_from_slice(&(0xc000_0000_0000_0000u64 | x).to_be_bytes()),
                    }
                };
                let nframes = rng.random_range(1..8usize);
                for _ in 0..nframes {
                    let ty: u64 = match rng.random_range(0..16u32) {
                        0..=4 => 0, 5..=6 => 1, 7 => 3, 8 => 7, 9 => 13, 10 => 4, 11 => 5,
                        12 => [2u64, 6, 8, 9][rng.random_range(0..4usize)],
                        13 => 0x21 + 0x1f * rng.random_range(0..1000u64),
                        14 => rng.random_range(14..64u64).max(14),
                        _ => rng.random_range(66..100000u64),
                    };
                    let mut payload: Vec<u8> = vec![];
                    match ty {
                        0 | 1 => { let n = if rng.random_bool(0.2) { rng.random_range(0..700usize) } else { rng.random_range(0..12usize) }; payload = (0..n).map(|_| rng.random()).collect(); }
                        3 | 7 | 13 => {
                            { let x = rng.random::<u64>() >> rng.random_range(2..64u32); vi(&mut rng, x, &mut payload); }
                            match rng.random_range(0..8u32) { 0 => payload.push(rng.random()), 1 => { payload.pop(); } _ => {} }
                        }
                        4 => {
                            for _ in 0..rng.random_range(0..4usize) {
                                let id = match rng.random_range(0..6u32) { 0 => 6, 1 => 8, 2 => 0x33, 3 => rng.random_range(0..6u64), 4 => 0x21 + 0x1f * rng.random_range(0..100u64), _ => rng.random_range(10..5000u64) };
                                { let idv = id; vi(&mut rng, idv, &mut payload); }
                                { let x = rng.random::<u64>() >> rng.random_range(2..64u32); vi(&mut rng, x, &mut payload); }
                            }
                            if rng.random_bool(0.15) { payload.push(rng.random_range(0..64u8)); }
                        }
                        5 => { let x = rng.random_range(0..100u64); vi(&mut rng, x, &mut payload); if rng.random_bool(0.3) { payload.clear(); } payload.extend((0..rng.random_range(0..5usize)).map(|_| rng.random::<u8>())); }
                        _ => { payload = (0..rng.random_range(0..20usize)).map(|_| rng.random()).collect(); }
                    }
                    vi(&mut rng, ty, &mut wire);
                    vi(&mut rng, payload.len() as u64, &mut wire);
                    wire.extend_from_slice(&payload);
                }
                if rng.random_bool(0.4) { let k = rng.random_range(0..=wire.len()); wire.truncate(k); }
                let mut cuts: Vec<u64> = vec![];
                let mut left = wire.len();
                while left > 0 { let c = if rng.random_bool(0.3) { left } else { rng.random_range(1..=left.min(40)) }; cuts.push(c as u64); left -= c; }
                json!({"fn": "frames", "wire": jbytes(&wire), "cuts": cuts, "fin": rng.random_bool(0.6)})
            }
            "C11" => {
                if rng.random_bool(0.5) {
                    let nf = rng.random_range(0..5usize);
                    let names: [&[u8]; 8] = [b":method", b":path", b"cookie", b"accept", b"x", b"content-type", b"x-custom-name", b""];
                    let mut fields = vec![];
                    for _ in 0..nf {
                        let name: Vec<u8> = if rng.random_bool(0.7) { names[rng.random_range(0..8usize)].to_vec() } else { (0..rng.random_range(0..20usize)).map(|_| rng.random()).collect() };
                        let vl = if rng.random_bool(0.1) { rng.random_range(0..300usize) } else { rng.random_range(0..12usize) };
                        let value: Vec<u8> = match rng.random_range(0..3u32) { 0 => (0..vl).map(|_| rng.random()).collect(), 1 => b"GET".to_vec(), _ => (0..vl).map(|_| rng.random_range(32..127u8)).collect() };
                        fields.push(json!([jbytes(&name), jbytes(&value)]));
                    }
                    json!({"fn": "qenc", "in": fields})
                } else {
                    let n = rng.random_range(0..12usize);
                    let mut b: Vec<u8> = vec![0, 0];
                    if rng.random_bool(0.1) { b[0] = rng.random(); }
                    if rng.random_bool(0.1) { b[1] = rng.random(); }
                    for _ in 0..n { b.push(if rng.random_bool(0.3) { [0x80u8, 0xc0, 0xd1, 0x50, 0x21, 0x29, 0x01, 0x81, 0xff, 0x10][rng.random_range(0..10usize)] } else { rng.random() }); }
                    json!({"fn": "qdec", "in": jbytes(&b)})
                }
            }
            "C15" => {
                match rng.random_range(0..4u32) {
                    0 => {
                        let n = if rng.random_bool(0.1) { rng.random_range(0..300usize) } else { rng.random_range(0..40usize) };
                        let s: Vec<u8> = if rng.random_bool(0.5) { (0..n).map(|_| rng.random()).collect() } else { (0..n).map(|_| rng.random_range(32..127u8)).collect() };
                        json!({"fn": "senc", "size": rng.random_range(2..=8u32), "flags": 0, "in": jbytes(&s)})
                    }
                    1 => {
                        // a valid Huffman literal produced by the reference route (h3 encode), then mutated
                        let n = rng.random_range(0..24usize);
                        let s: Vec<u8> = (0..n).map(|_| rng.random()).collect();
                        let mut out = Vec::new();
                        let _ = h3::qpack::verif::prefix_string::encode(8, 0, &s, &mut out);
                        match rng.random_range(0..5u32) {
                            0 => { if let Some(l) = out.last_mut() { *l ^= 1 << rng.random_range(0..8u32); } }
                            1 => { out.push(0xff); if !out.is_empty() && (out[0] & 0x7f) < 0x7e { out[0] += 1; } }
                            2 => { let k = rng.random_range(0..=out.len()); out.truncate(k); }
                            3 => { if out.len() > 1 { let i = rng.random_range(1..out.len()); out[i] = rng.random(); } }
                            _ => {}
                        }
                        json!({"fn": "sdec", "size": 8, "in": jbytes(&out)})
                    }
                    2 => {
                        let size = rng.random_range(1..=8u32);
                        let n = rng.random_range(0..12usize);
                        let mut b: Vec<u8> = vec![rng.random()];
                        if rng.random_bool(0.7) { b[0] |= (0xffu16 >> (8 - size)) as u8; }
                        for i in 0..n { let mut x: u8 = rng.random(); if i + 1 < n { x |= 0x80; } else { x &= 0x7f; } b.push(x); }
                        json!({"fn": "idec", "size": size, "in": jbytes(&b)})
                    }
                    _ => {
                        let bits = rng.random_range(0..=64u32);
                        let x: u64 = if bits == 0 { 0 } else { rng.random::<u64>() >> (64 - bits) };
                        let size = rng.random_range(1..=8u32);
                        json!({"fn": "ienc", "size": size, "flags": if size == 8 { 0 } else { 1 }, "in": b8(x)})
                    }
                }
            }
            "C18" => {
                let k: u64 = { let bits = rng.random_range(0..=60u32); if bits == 0 { 0 } else { rng.random::<u64>() >> (64 - bits) } };
                let plen = rng.random_range(0..24usize);
                let payload: Vec<u8> = (0..plen).map(|_| rng.random()).collect();
                match rng.random_range(0..3u32) {
                    0 => json!({"fn": "dgenc", "sid": b8(k * 4), "payload": jbytes(&payload)}),
                    1 => {
                        let n = rng.random_range(0..=9usize);
                        let mut b: Vec<u8> = (0..n).map(|_| rng.random()).collect();
                        if !b.is_empty() && rng.random_bool(0.3) { b[0] |= 0xc0; }
                        json!({"fn": "dgdec", "in": jbytes(&b)})
                    }
                    _ => {
                        // random advance pattern over a random datagram
                        let total = VarInt::from_u64(k).map(|v| v.size()).unwrap_or(8) + plen;
                        let mut left = total as u64;
                        let mut pat = Vec::new();
                        while left > 0 { let a = rng.random_range(1..=left.min(9)); pat.push(a); left -= a; }
                        json!({"fn": "dgcons", "sid": b8(k * 4), "payload": jbytes(&payload), "pattern": pat})
                    }
                }
            }
            _ => return Err(format!("no random driver for {prop}")),
        };
        let mut got = exec(&v);
        if v["fn"] == "ienc" {
            got = json!({"ok": !got.is_object(), "bytes": got});
        }
        let mut rec = v.clone();
        rec["out"] = got;
        writeln!(w, "{}", rec).map_err(|e| e.to_string())?;
    }
    Ok(())
}
