//! simquic — a deterministic, in-memory QUIC transport implementing `h3::quic::*` and the `h3-datagram` traits.
//!
//! Nothing happens spontaneously: every transport event is an explicit command issued by the scenario runner
//! (open a peer stream, deliver exactly one chunk, FIN, RESET, STOP_SENDING, close, grant credit, accept n bytes).
//! Everything h3 does to the transport is appended to an event log (bytes accepted per stream, finish, reset,
//! stop_sending, close(code), stream opens, datagrams).  Semantics follow Quinn as adapted by h3-quinn:
//!   * dropping a send half finishes it (or resets it with the peer's code when it was stopped),
//!     dropping a receive half that was not read to the end stops it with code 0 (logged `implicit: true`);
//!   * a second `send_data` while one is in flight is refused with `InternalError`;
//!   * a peer reset discards unread data; after a peer close every operation fails with the close reason;
//!   * `finish` on a stream the peer stopped is Ok; on a finished/reset stream it is an `Unknown` error.
use bytes::{Buf, Bytes};
use h3::quic::{self, ConnectionErrorIncoming, StreamErrorIncoming, StreamId, WriteBuf};
use serde_json::{json, Value};
use std::collections::{BTreeMap, VecDeque};
use std::sync::{Arc, Mutex};
use std::task::{Context, Poll, Waker};

#[derive(Clone, Copy, Debug, PartialEq)]
pub enum Role {
    Server,
    Client,
}

#[derive(Clone, Debug)]
pub enum PeerClose {
    App(u64),
    Timeout,
}

#[derive(Clone, Copy, Debug, PartialEq)]
pub enum WriteMode {
    /// every write is taken whole
    All,
    /// at most n bytes per poll_ready call, the task is re-woken so progress continues (Quinn partial writes)
    PerPoll(usize),
    /// only what the scenario grants with `accept_write`
    Manual,
}

#[derive(Debug)]
struct LocallyClosed;
impl std::fmt::Display for LocallyClosed {
    fn fmt(&self, f: &mut std::fmt::Formatter<'_>) -> std::fmt::Result {
        write!(f, "connection closed locally")
    }
}
impl std::error::Error for LocallyClosed {}

#[derive(Debug)]
struct ClosedStream;
impl std::fmt::Display for ClosedStream {
    fn fmt(&self, f: &mut std::fmt::Formatter<'_>) -> std::fmt::Result {
        write!(f, "closed stream")
    }
}
impl std::error::Error for ClosedStream {}

/// The single, ordered event log of one scenario (shared by both endpoints in pair mode and by the application tasks).
#[derive(Clone, Default)]
pub struct Log(pub Arc<Mutex<Vec<Value>>>, pub Arc<std::sync::atomic::AtomicBool>);

impl Log {
    pub fn push(&self, v: Value) {
        let mut g = match self.0.lock() { Ok(g) => g, Err(p) => p.into_inner() };
        // merge consecutive writes on the same stream into one event
        if v["ev"] == "wrote" {
            if let Some(last) = g.last_mut() {
                if last["ev"] == "wrote" && last["sid"] == v["sid"] && last["net"] == v["net"] {
                    // an endpoint that never stops writing must not make the trace unbounded: beyond 1 MiB in one run of
                    // writes the bytes are dropped and the event is marked (`runaway`: no message of any scenario is that long)
                    if last["runaway"] == true {
                        return;
                    }
                    if last["bytes"].as_array().map(|a| a.len()).unwrap_or(0) > (1 << 17) {
                        // keep the trace small: the verdict is "livelock", the bytes no longer matter
                        last["runaway"] = json!(true);
                        last["bytes"].as_array_mut().unwrap().truncate(1024);
                        self.1.store(true, std::sync::atomic::Ordering::SeqCst);
                        return;
                    }
                    let more = v["bytes"].as_array().cloned().unwrap_or_default();
                    last["bytes"].as_array_mut().unwrap().extend(more);
                    return;
                }
            }
        }
        if g.len() > 500_000 {
            self.1.store(true, std::sync::atomic::Ordering::SeqCst);
            return; // same guard for an endless sequence of distinct events
        }
        g.push(v);
    }
    pub fn take(&self) -> Vec<Value> {
        let mut g = match self.0.lock() { Ok(g) => g, Err(p) => p.into_inner() };
        std::mem::take(&mut *g)
    }
    pub fn len(&self) -> usize {
        match self.0.lock() { Ok(g) => g.len(), Err(p) => p.into_inner().len() }
    }
    /// the endpoint under test produced output without end (see `push`)
    pub fn runaway(&self) -> bool {
        self.1.load(std::sync::atomic::Ordering::SeqCst)
    }
}

#[derive(Default)]
struct Stream {
    // peer -> h3
    rx: VecDeque<Bytes>,
    rx_fin: bool,
    rx_fin_seen: bool,
    rx_reset: Option<u64>,
    rx_reset_seen: bool,
    rx_stopped: Option<u64>,
    /// the transport fails reads on THIS stream with a connection-level error while the connection itself looks healthy
    /// to every other call (what h3-quinn's own InternalError, or a timeout first noticed on one stream, looks like)
    rx_conn_fault: Option<String>,
    /// first byte the endpoint wrote on this stream (for its unidirectional streams: the stream type in its 1-byte form)
    tx_first: Option<u8>,
    rx_w: Vec<Waker>,
    // h3 -> peer
    tx_fin: bool,
    tx_reset: Option<u64>,
    tx_stop: Option<u64>,
    tx_allow: u64,
    tx_w: Vec<Waker>,
    /// bytes h3 wrote that the runner has not yet carried to the other endpoint (pair mode)
    tx_buf: Vec<u8>,
    tx_fin_xfer: bool,
    tx_reset_xfer: bool,
    rx_stop_xfer: bool,
    has_tx: bool,
    has_rx: bool,
}

pub struct NetState {
    pub tag: &'static str,
    role: Role,
    streams: BTreeMap<u64, Stream>,
    in_uni: VecDeque<u64>,
    in_bidi: VecDeque<u64>,
    w_in_uni: Vec<Waker>,
    w_in_bidi: Vec<Waker>,
    w_open: Vec<Waker>,
    pub uni_credit: u64,
    pub bidi_credit: u64,
    next_uni: u64,
    next_bidi: u64,
    peer_close: Option<PeerClose>,
    pub local_close: Vec<u64>,
    pub write_mode: WriteMode,
    pub log: Log,
    pub keep_tx: bool,
    pub log_wrote: bool,
    dgram_in: VecDeque<Bytes>,
    w_dgram: Vec<Waker>,
    pub dgram_avail: bool,
    pub dgram_max: usize,
    /// counts state changes caused by h3 (used by the runner to detect progress made by a spurious poll)
    pub effects: u64,
}

#[derive(Clone)]
pub struct Net(pub Arc<Mutex<NetState>>);

fn wake_all(v: &mut Vec<Waker>) {
    for w in v.drain(..) {
        w.wake();
    }
}

fn reg(v: &mut Vec<Waker>, cx: &Context<'_>) {
    if !v.iter().any(|w| w.will_wake(cx.waker())) {
        v.push(cx.waker().clone());
    }
}

impl Net {
    pub fn new(role: Role, tag: &'static str, log: Log) -> Net {
        let (next_uni, next_bidi) = match role {
            Role::Server => (3, 1),
            Role::Client => (2, 0),
        };
        Net(Arc::new(Mutex::new(NetState {
            tag,
            role,
            streams: BTreeMap::new(),
            in_uni: VecDeque::new(),
            in_bidi: VecDeque::new(),
            w_in_uni: vec![],
            w_in_bidi: vec![],
            w_open: vec![],
            uni_credit: 100,
            bidi_credit: 100,
            next_uni,
            next_bidi,
            peer_close: None,
            local_close: vec![],
            write_mode: WriteMode::All,
            log,
            keep_tx: false,
            log_wrote: true,
            dgram_in: VecDeque::new(),
            w_dgram: vec![],
            dgram_avail: true,
            dgram_max: 1200,
            effects: 0,
        })))
    }

    /// Streams on which bytes the peer sent are still unread by h3 (and were not discarded by a stop / reset): `(sid, bytes)`.
    pub fn unread(&self) -> Vec<(u64, usize)> {
        let g = self.lock();
        g.streams
            .iter()
            .filter(|(_, s)| s.rx_stopped.is_none())
            .map(|(id, s)| (*id, s.rx.iter().map(|b| b.len()).sum::<usize>()))
            .filter(|(_, n)| *n > 0)
            .collect()
    }

    /// Reads on stream `sid` fail from now on with a connection-level error of the given kind ("internal" | "timeout").
    pub fn fault_stream_reads(&self, sid: u64, kind: &str) {
        let mut g = self.lock();
        if let Some(s) = g.streams.get_mut(&sid) {
            s.rx_conn_fault = Some(kind.to_string());
            for w in s.rx_w.drain(..) {
                w.wake();
            }
        }
    }

    pub fn lock(&self) -> std::sync::MutexGuard<'_, NetState> {
        match self.0.lock() {
            Ok(g) => g,
            Err(p) => p.into_inner(),
        }
    }

    /// a bare receive stream (for driving FrameStream directly)
    pub fn raw_recv(&self, sid: u64) -> SimRecv {
        let mut n = self.lock();
        n.streams.entry(sid).or_default().has_rx = true;
        drop(n);
        SimRecv { net: self.clone(), id: sid }
    }

    pub fn conn(&self) -> SimConn {
        SimConn { net: self.clone() }
    }

    // ------------------------------------------------------------------ commands of the scenario (the peer)
    pub fn set_next_bidi(&self, id: u64) {
        self.lock().next_bidi = id;
    }

    pub fn peer_open_uni(&self, sid: u64) {
        let mut n = self.lock();
        let s = n.streams.entry(sid).or_default();
        s.has_rx = true;
        n.in_uni.push_back(sid);
        wake_all(&mut n.w_in_uni);
    }

    pub fn peer_open_bidi(&self, sid: u64) {
        let mut n = self.lock();
        let s = n.streams.entry(sid).or_default();
        s.has_rx = true;
        s.has_tx = true;
        n.in_bidi.push_back(sid);
        wake_all(&mut n.w_in_bidi);
    }

    pub fn knows(&self, sid: u64) -> bool {
        self.lock().streams.contains_key(&sid)
    }

    pub fn deliver(&self, sid: u64, data: &[u8]) {
        if data.is_empty() {
            return; // Quinn never yields an empty chunk
        }
        let mut n = self.lock();
        if let Some(s) = n.streams.get_mut(&sid) {
            if s.rx_reset.is_none() && !s.rx_fin {
                s.rx.push_back(Bytes::copy_from_slice(data));
                wake_all(&mut s.rx_w);
            }
        }
    }

    pub fn peer_fin(&self, sid: u64) {
        let mut n = self.lock();
        if let Some(s) = n.streams.get_mut(&sid) {
            if s.rx_reset.is_none() {
                s.rx_fin = true;
                wake_all(&mut s.rx_w);
            }
        }
    }

    pub fn peer_reset(&self, sid: u64, code: u64) {
        let mut n = self.lock();
        if let Some(s) = n.streams.get_mut(&sid) {
            if !(s.rx_fin && s.rx.is_empty() && s.rx_fin_seen) && s.rx_reset.is_none() {
                s.rx.clear();
                s.rx_fin = false;
                s.rx_reset = Some(code);
                wake_all(&mut s.rx_w);
            }
        }
    }

    pub fn peer_stop(&self, sid: u64, code: u64) {
        let mut n = self.lock();
        if let Some(s) = n.streams.get_mut(&sid) {
            if s.tx_stop.is_none() && !s.tx_fin && s.tx_reset.is_none() {
                s.tx_stop = Some(code);
                wake_all(&mut s.tx_w);
            }
        }
    }

    pub fn peer_close(&self, c: PeerClose) {
        let mut n = self.lock();
        if n.peer_close.is_some() {
            return;
        }
        n.peer_close = Some(c);
        let NetState { streams, w_in_uni, w_in_bidi, w_open, w_dgram, .. } = &mut *n;
        for s in streams.values_mut() {
            wake_all(&mut s.rx_w);
            wake_all(&mut s.tx_w);
        }
        wake_all(w_in_uni);
        wake_all(w_in_bidi);
        wake_all(w_open);
        wake_all(w_dgram);
    }

    pub fn grant(&self, uni: u64, bidi: u64) {
        let mut n = self.lock();
        n.uni_credit += uni;
        n.bidi_credit += bidi;
        wake_all(&mut n.w_open);
    }

    pub fn accept_write(&self, sid: Option<u64>, k: u64) {
        let mut n = self.lock();
        for (id, s) in n.streams.iter_mut() {
            if sid.is_none() || sid == Some(*id) {
                s.tx_allow = s.tx_allow.saturating_add(k);
                wake_all(&mut s.tx_w);
            }
        }
    }

    pub fn peer_datagram(&self, data: &[u8]) {
        let mut n = self.lock();
        n.dgram_in.push_back(Bytes::copy_from_slice(data));
        wake_all(&mut n.w_dgram);
    }

    /// pair mode: everything h3 did on its streams that has not been carried over yet
    /// returns (sid, bytes, fin, reset, stop) per stream with something pending
    pub fn take_pending(&self, only: Option<u64>, max: Option<usize>) -> Vec<(u64, Vec<u8>, bool, Option<u64>, Option<u64>)> {
        let mut n = self.lock();
        let mut out = vec![];
        for (id, s) in n.streams.iter_mut() {
            if only.is_some() && only != Some(*id) {
                continue;
            }
            let k = max.unwrap_or(usize::MAX).min(s.tx_buf.len());
            let bytes: Vec<u8> = s.tx_buf.drain(..k).collect();
            let drained = s.tx_buf.is_empty();
            let fin = drained && s.tx_fin && !s.tx_fin_xfer && s.tx_reset.is_none();
            if fin {
                s.tx_fin_xfer = true;
            }
            let reset = if s.tx_reset.is_some() && !s.tx_reset_xfer && !s.tx_fin_xfer { s.tx_reset_xfer = true; s.tx_buf.clear(); s.tx_reset } else { None };
            let stop = if s.rx_stopped.is_some() && !s.rx_stop_xfer { s.rx_stop_xfer = true; s.rx_stopped } else { None };
            if !bytes.is_empty() || fin || reset.is_some() || stop.is_some() {
                out.push((*id, bytes, fin, reset, stop));
            }
        }
        out
    }

    pub fn first_local_close(&self) -> Option<u64> {
        self.lock().local_close.first().copied()
    }

    pub fn peer_closed(&self) -> bool {
        self.lock().peer_close.is_some()
    }

    pub fn effects(&self) -> u64 {
        self.lock().effects
    }
}

impl NetState {
    fn ev(&mut self, mut v: Value) {
        v["net"] = json!(self.tag);
        self.effects += 1;
        if self.keep_tx && v["ev"] == "wrote" {
            let sid = v["sid"].as_u64().unwrap_or(0);
            let bytes: Vec<u8> = v["bytes"].as_array().map(|a| a.iter().map(|x| x.as_u64().unwrap_or(0) as u8).collect()).unwrap_or_default();
            if let Some(s) = self.streams.get_mut(&sid) {
                s.tx_buf.extend_from_slice(&bytes);
            }
        }
        if v["ev"] == "wrote" && !self.log_wrote {
            return;
        }
        self.log.push(v);
    }

    fn conn_err(&self) -> Option<ConnectionErrorIncoming> {
        if let Some(pc) = &self.peer_close {
            return Some(match pc {
                PeerClose::App(code) => ConnectionErrorIncoming::ApplicationClose { error_code: *code },
                PeerClose::Timeout => ConnectionErrorIncoming::Timeout,
            });
        }
        if !self.local_close.is_empty() {
            return Some(ConnectionErrorIncoming::Undefined(Arc::new(LocallyClosed)));
        }
        None
    }

    fn open(&mut self, bidi: bool, cx: &Context<'_>) -> Poll<Result<u64, StreamErrorIncoming>> {
        if let Some(e) = self.conn_err() {
            return Poll::Ready(Err(StreamErrorIncoming::ConnectionErrorIncoming { connection_error: e }));
        }
        let credit = if bidi { &mut self.bidi_credit } else { &mut self.uni_credit };
        if *credit == 0 {
            reg(&mut self.w_open, cx);
            return Poll::Pending;
        }
        *credit -= 1;
        let id = if bidi {
            let i = self.next_bidi;
            self.next_bidi += 4;
            i
        } else {
            let i = self.next_uni;
            self.next_uni += 4;
            i
        };
        let s = self.streams.entry(id).or_default();
        s.has_tx = true;
        s.has_rx = bidi;
        self.ev(json!({"ev": "h3_open", "sid": id, "kind": if bidi {"bidi"} else {"uni"}}));
        Poll::Ready(Ok(id))
    }

    fn close(&mut self, code: u64, reason: &[u8]) {
        let n = self.local_close.len() + 1;
        self.local_close.push(code);
        self.ev(json!({"ev": "h3_close", "code": code, "n": n, "reason": String::from_utf8_lossy(reason)}));
        if n == 1 {
            for s in self.streams.values_mut() {
                wake_all(&mut s.rx_w);
                wake_all(&mut s.tx_w);
            }
            wake_all(&mut self.w_in_uni);
            wake_all(&mut self.w_in_bidi);
            wake_all(&mut self.w_open);
            wake_all(&mut self.w_dgram);
        }
    }
}

// ---------------------------------------------------------------------------------------------- streams
pub struct SimRecv {
    net: Net,
    id: u64,
}

pub struct SimSend {
    net: Net,
    id: u64,
    writing: Option<WriteBuf<Bytes>>,
    /// mirror the pre-fix h3-quinn behaviour (keep the buffer of a failed write)
    keep_failed_write: bool,
}

pub struct SimBidi {
    s: SimSend,
    r: SimRecv,
}

fn sid(id: u64) -> StreamId {
    StreamId::try_from(id).expect("simquic stream id")
}

impl quic::RecvStream for SimRecv {
    type Buf = Bytes;

    fn poll_data(&mut self, cx: &mut Context<'_>) -> Poll<Result<Option<Bytes>, StreamErrorIncoming>> {
        // Order as in quinn::RecvStream::poll_read_generic: once the end (FIN or the reset error) has been
        // reported every later read is Ok(None); a reset discards unread data; buffered data and FIN are
        // still readable after the connection was closed; only a read that would block reports the close.
        let mut n = self.net.lock();
        let cerr = n.conn_err();
        let s = n.streams.get_mut(&self.id).expect("stream");
        if s.rx_fin_seen || s.rx_reset_seen {
            return Poll::Ready(Ok(None));
        }
        if s.rx_stopped.is_some() {
            return Poll::Ready(Err(StreamErrorIncoming::Unknown(Box::new(ClosedStream))));
        }
        if let Some(code) = s.rx_reset {
            s.rx_reset_seen = true;
            return Poll::Ready(Err(StreamErrorIncoming::StreamTerminated { error_code: code }));
        }
        if let Some(k) = s.rx_conn_fault.clone() {
            let e = match k.as_str() {
                "timeout" => ConnectionErrorIncoming::Timeout,
                _ => ConnectionErrorIncoming::InternalError("injected by the transport".to_string()),
            };
            return Poll::Ready(Err(StreamErrorIncoming::ConnectionErrorIncoming { connection_error: e }));
        }
        if let Some(c) = s.rx.pop_front() {
            return Poll::Ready(Ok(Some(c)));
        }
        if s.rx_fin {
            s.rx_fin_seen = true;
            return Poll::Ready(Ok(None));
        }
        if let Some(e) = cerr {
            return Poll::Ready(Err(StreamErrorIncoming::ConnectionErrorIncoming { connection_error: e }));
        }
        reg(&mut s.rx_w, cx);
        Poll::Pending
    }

    fn stop_sending(&mut self, error_code: u64) {
        let mut n = self.net.lock();
        let id = self.id;
        let s = n.streams.get_mut(&id).expect("stream");
        if s.rx_stopped.is_none() && !s.rx_fin_seen && !s.rx_reset_seen {
            s.rx_stopped = Some(error_code);
            n.ev(json!({"ev": "h3_stop", "sid": id, "code": error_code, "implicit": false}));
        }
    }

    fn recv_id(&self) -> StreamId {
        sid(self.id)
    }
}

impl Drop for SimRecv {
    fn drop(&mut self) {
        let mut n = self.net.lock();
        let id = self.id;
        if n.conn_err().is_some() {
            return;
        }
        if let Some(s) = n.streams.get_mut(&id) {
            if s.rx_stopped.is_none() && !s.rx_fin_seen && !s.rx_reset_seen {
                s.rx_stopped = Some(0);
                n.ev(json!({"ev": "h3_stop", "sid": id, "code": 0, "implicit": true}));
            }
        }
    }
}

impl quic::Is0rtt for SimRecv {
    fn is_0rtt(&self) -> bool {
        false
    }
}

impl SimSend {
    fn write_some<D: Buf>(&mut self, cx: &mut Context<'_>, data: &mut D, whole: bool) -> Poll<Result<usize, StreamErrorIncoming>> {
        // `whole`: poll_ready semantics (loop until the unit is gone); otherwise one poll_write
        let mut n = self.net.lock();
        let id = self.id;
        let mut total = 0usize;
        loop {
            if let Some(e) = n.conn_err() {
                return Poll::Ready(Err(StreamErrorIncoming::ConnectionErrorIncoming { connection_error: e }));
            }
            let mode = n.write_mode;
            let s = n.streams.get_mut(&id).expect("stream");
            if let Some(code) = s.tx_stop {
                return Poll::Ready(Err(StreamErrorIncoming::StreamTerminated { error_code: code }));
            }
            if s.tx_fin || s.tx_reset.is_some() {
                return Poll::Ready(Err(StreamErrorIncoming::Unknown(Box::new(ClosedStream))));
            }
            if !data.has_remaining() {
                return Poll::Ready(Ok(total));
            }
            let chunk = data.chunk();
            if chunk.is_empty() {
                // a Buf that claims remaining bytes but yields no chunk: report as a transport-level internal error
                return Poll::Ready(Err(StreamErrorIncoming::ConnectionErrorIncoming {
                    connection_error: ConnectionErrorIncoming::InternalError("empty chunk with bytes remaining".into()),
                }));
            }
            let k = match mode {
                WriteMode::All => chunk.len(),
                WriteMode::PerPoll(m) => {
                    if total >= m {
                        reg(&mut s.tx_w, cx);
                        cx.waker().wake_by_ref();
                        return if whole || total == 0 { Poll::Pending } else { Poll::Ready(Ok(total)) };
                    }
                    chunk.len().min(m - total)
                }
                WriteMode::Manual => {
                    if s.tx_allow == 0 {
                        reg(&mut s.tx_w, cx);
                        return if whole || total == 0 { Poll::Pending } else { Poll::Ready(Ok(total)) };
                    }
                    let k = chunk.len().min(s.tx_allow as usize);
                    s.tx_allow -= k as u64;
                    k
                }
            };
            let bytes = chunk[..k].to_vec();
            data.advance(k);
            total += k;
            // `ut`: the first byte ever written on this stream, so that a trace specification can tell the endpoint's control
            // stream (type 0x00) from its other unidirectional streams without relying on the order in which they were opened
            let ut = {
                let s = n.streams.get_mut(&id).expect("stream");
                if s.tx_first.is_none() && !bytes.is_empty() {
                    s.tx_first = Some(bytes[0]);
                }
                s.tx_first.map(|b| b as i64).unwrap_or(-1)
            };
            n.ev(json!({"ev": "wrote", "sid": id, "bytes": bytes, "ut": ut}));
            if !whole {
                return Poll::Ready(Ok(total));
            }
        }
    }
}

impl quic::SendStream<Bytes> for SimSend {
    fn poll_ready(&mut self, cx: &mut Context<'_>) -> Poll<Result<(), StreamErrorIncoming>> {
        if let Some(mut w) = self.writing.take() {
            match self.write_some(cx, &mut w, true) {
                Poll::Pending => {
                    self.writing = Some(w);
                    return Poll::Pending;
                }
                Poll::Ready(Err(e)) => {
                    // the write failed for good (stream stopped / connection gone): the unit is dropped.
                    // (h3-quinn kept it, which turned the next send_data into a connection-level InternalError:
                    //  finding D18, repaired in h3-quinn and checked against the real adapter by C17.)
                    if self.keep_failed_write {
                        self.writing = Some(w);
                    }
                    return Poll::Ready(Err(e));
                }
                Poll::Ready(Ok(_)) => {}
            }
        }
        Poll::Ready(Ok(()))
    }

    fn send_data<T: Into<WriteBuf<Bytes>>>(&mut self, data: T) -> Result<(), StreamErrorIncoming> {
        if self.writing.is_some() {
            return Err(StreamErrorIncoming::ConnectionErrorIncoming {
                connection_error: ConnectionErrorIncoming::InternalError("internal error in the http stack".to_string()),
            });
        }
        self.writing = Some(data.into());
        Ok(())
    }

    fn poll_finish(&mut self, _cx: &mut Context<'_>) -> Poll<Result<(), StreamErrorIncoming>> {
        let mut n = self.net.lock();
        let id = self.id;
        let s = n.streams.get_mut(&id).expect("stream");
        if s.tx_stop.is_some() {
            return Poll::Ready(Ok(()));
        }
        if s.tx_fin || s.tx_reset.is_some() {
            return Poll::Ready(Err(StreamErrorIncoming::Unknown(Box::new(ClosedStream))));
        }
        s.tx_fin = true;
        n.ev(json!({"ev": "h3_fin", "sid": id, "implicit": false}));
        Poll::Ready(Ok(()))
    }

    fn reset(&mut self, reset_code: u64) {
        let mut n = self.net.lock();
        let id = self.id;
        let s = n.streams.get_mut(&id).expect("stream");
        if s.tx_reset.is_none() && !s.tx_fin {
            s.tx_reset = Some(reset_code);
            n.ev(json!({"ev": "h3_reset", "sid": id, "code": reset_code, "implicit": false}));
        } else if s.tx_reset.is_none() {
            // reset after finish: Quinn accepts it (data may no longer be retransmitted); log it, the stream stays finished
            s.tx_reset = Some(reset_code);
            n.ev(json!({"ev": "h3_reset", "sid": id, "code": reset_code, "implicit": false, "after_fin": true}));
        }
    }

    fn send_id(&self) -> StreamId {
        sid(self.id)
    }
}

impl quic::SendStreamUnframed<Bytes> for SimSend {
    fn poll_send<D: Buf>(&mut self, cx: &mut Context<'_>, buf: &mut D) -> Poll<Result<usize, StreamErrorIncoming>> {
        if self.writing.is_some() {
            panic!("poll_send called while send stream is not ready");
        }
        self.write_some(cx, buf, false)
    }
}

impl Drop for SimSend {
    fn drop(&mut self) {
        let mut n = self.net.lock();
        let id = self.id;
        if n.conn_err().is_some() {
            return;
        }
        if let Some(s) = n.streams.get_mut(&id) {
            if let Some(code) = s.tx_stop {
                if s.tx_reset.is_none() && !s.tx_fin {
                    s.tx_reset = Some(code);
                    n.ev(json!({"ev": "h3_reset", "sid": id, "code": code, "implicit": true}));
                }
            } else if !s.tx_fin && s.tx_reset.is_none() {
                s.tx_fin = true;
                n.ev(json!({"ev": "h3_fin", "sid": id, "implicit": true}));
            }
        }
    }
}

impl quic::RecvStream for SimBidi {
    type Buf = Bytes;
    fn poll_data(&mut self, cx: &mut Context<'_>) -> Poll<Result<Option<Bytes>, StreamErrorIncoming>> {
        self.r.poll_data(cx)
    }
    fn stop_sending(&mut self, c: u64) {
        self.r.stop_sending(c)
    }
    fn recv_id(&self) -> StreamId {
        self.r.recv_id()
    }
}

impl quic::SendStream<Bytes> for SimBidi {
    fn poll_ready(&mut self, cx: &mut Context<'_>) -> Poll<Result<(), StreamErrorIncoming>> {
        self.s.poll_ready(cx)
    }
    fn send_data<T: Into<WriteBuf<Bytes>>>(&mut self, d: T) -> Result<(), StreamErrorIncoming> {
        self.s.send_data(d)
    }
    fn poll_finish(&mut self, cx: &mut Context<'_>) -> Poll<Result<(), StreamErrorIncoming>> {
        self.s.poll_finish(cx)
    }
    fn reset(&mut self, c: u64) {
        self.s.reset(c)
    }
    fn send_id(&self) -> StreamId {
        self.s.send_id()
    }
}

impl quic::SendStreamUnframed<Bytes> for SimBidi {
    fn poll_send<D: Buf>(&mut self, cx: &mut Context<'_>, buf: &mut D) -> Poll<Result<usize, StreamErrorIncoming>> {
        self.s.poll_send(cx, buf)
    }
}

impl quic::BidiStream<Bytes> for SimBidi {
    type SendStream = SimSend;
    type RecvStream = SimRecv;
    fn split(self) -> (SimSend, SimRecv) {
        (self.s, self.r)
    }
}

impl quic::Is0rtt for SimBidi {
    fn is_0rtt(&self) -> bool {
        false
    }
}

// ------------------------------------------------------------------------------------------- connection
pub struct SimConn {
    net: Net,
}

#[derive(Clone)]
pub struct SimOpener {
    net: Net,
}

fn mk_bidi(net: &Net, id: u64) -> SimBidi {
    SimBidi { s: SimSend { net: net.clone(), id, writing: None, keep_failed_write: false }, r: SimRecv { net: net.clone(), id } }
}

macro_rules! impl_open {
    ($t:ty) => {
        impl quic::OpenStreams<Bytes> for $t {
            type BidiStream = SimBidi;
            type SendStream = SimSend;

            fn poll_open_bidi(&mut self, cx: &mut Context<'_>) -> Poll<Result<SimBidi, StreamErrorIncoming>> {
                let r = self.net.lock().open(true, cx);
                match r {
                    Poll::Pending => Poll::Pending,
                    Poll::Ready(Err(e)) => Poll::Ready(Err(e)),
                    Poll::Ready(Ok(id)) => Poll::Ready(Ok(mk_bidi(&self.net, id))),
                }
            }

            fn poll_open_send(&mut self, cx: &mut Context<'_>) -> Poll<Result<SimSend, StreamErrorIncoming>> {
                let r = self.net.lock().open(false, cx);
                match r {
                    Poll::Pending => Poll::Pending,
                    Poll::Ready(Err(e)) => Poll::Ready(Err(e)),
                    Poll::Ready(Ok(id)) => Poll::Ready(Ok(SimSend { net: self.net.clone(), id, writing: None, keep_failed_write: false })),
                }
            }

            fn close(&mut self, code: h3::error::Code, reason: &[u8]) {
                self.net.lock().close(code.value(), reason);
            }
        }
    };
}
impl_open!(SimConn);
impl_open!(SimOpener);

impl quic::Connection<Bytes> for SimConn {
    type RecvStream = SimRecv;
    type OpenStreams = SimOpener;

    fn poll_accept_recv(&mut self, cx: &mut Context<'_>) -> Poll<Result<SimRecv, ConnectionErrorIncoming>> {
        // as in quinn: streams already announced are handed out before the close is reported
        let mut n = self.net.lock();
        match n.in_uni.pop_front() {
            Some(id) => Poll::Ready(Ok(SimRecv { net: self.net.clone(), id })),
            None => {
                if let Some(e) = n.conn_err() {
                    return Poll::Ready(Err(e));
                }
                reg(&mut n.w_in_uni, cx);
                Poll::Pending
            }
        }
    }

    fn poll_accept_bidi(&mut self, cx: &mut Context<'_>) -> Poll<Result<SimBidi, ConnectionErrorIncoming>> {
        let mut n = self.net.lock();
        match n.in_bidi.pop_front() {
            Some(id) => {
                drop(n);
                Poll::Ready(Ok(mk_bidi(&self.net, id)))
            }
            None => {
                if let Some(e) = n.conn_err() {
                    return Poll::Ready(Err(e));
                }
                reg(&mut n.w_in_bidi, cx);
                Poll::Pending
            }
        }
    }

    fn opener(&self) -> SimOpener {
        SimOpener { net: self.net.clone() }
    }
}

// -------------------------------------------------------------------------------------------- datagrams
pub struct SimDgSend {
    net: Net,
}
pub struct SimDgRecv {
    net: Net,
}

impl h3_datagram::quic_traits::SendDatagram<Bytes> for SimDgSend {
    fn send_datagram<T: Into<h3_datagram::datagram::EncodedDatagram<Bytes>>>(
        &mut self,
        data: T,
    ) -> Result<(), h3_datagram::quic_traits::SendDatagramErrorIncoming> {
        use h3_datagram::quic_traits::SendDatagramErrorIncoming as E;
        let mut n = self.net.lock();
        if let Some(e) = n.conn_err() {
            return Err(E::ConnectionError(e));
        }
        if !n.dgram_avail {
            return Err(E::NotAvailable);
        }
        let mut d = data.into();
        let mut out = Vec::new();
        let mut guard = 0;
        while d.has_remaining() && guard < 4 {
            let c = d.chunk().to_vec();
            if c.is_empty() {
                guard += 1;
                continue;
            }
            d.advance(c.len());
            out.extend_from_slice(&c);
        }
        if out.len() > n.dgram_max {
            return Err(E::TooLarge);
        }
        n.ev(json!({"ev": "h3_datagram", "bytes": out}));
        Ok(())
    }
}

impl h3_datagram::quic_traits::RecvDatagram for SimDgRecv {
    type Buffer = Bytes;
    fn poll_incoming_datagram(&mut self, cx: &mut Context<'_>) -> Poll<Result<Bytes, ConnectionErrorIncoming>> {
        let mut n = self.net.lock();
        if let Some(d) = n.dgram_in.pop_front() {
            return Poll::Ready(Ok(d));
        }
        if let Some(e) = n.conn_err() {
            return Poll::Ready(Err(e));
        }
        reg(&mut n.w_dgram, cx);
        Poll::Pending
    }
}

impl h3_datagram::quic_traits::DatagramConnectionExt<Bytes> for SimConn {
    type SendDatagramHandler = SimDgSend;
    type RecvDatagramHandler = SimDgRecv;
    fn send_datagram_handler(&self) -> SimDgSend {
        SimDgSend { net: self.net.clone() }
    }
    fn recv_datagram_handler(&self) -> SimDgRecv {
        SimDgRecv { net: self.net.clone() }
    }
}
