//! detexec — a single-threaded executor without a run queue of its own.
//!
//! Tasks are numbered futures; `step(i)` polls one task once, a wake-up only sets that task's flag.
//! `run()` polls woken tasks (lowest index first) until no flag is set, so *quiescence* is decidable:
//! a task that is still unfinished at quiescence is pending forever unless the environment acts again.
//! A panic inside a poll is caught and logged as an event; it never takes the harness down.
use crate::simquic::Log;
use serde_json::{json, Value};
use std::cell::RefCell;
use std::future::Future;
use std::panic::{catch_unwind, AssertUnwindSafe};
use std::pin::Pin;
use std::rc::Rc;
use std::sync::atomic::{AtomicBool, Ordering};
use std::sync::{Arc, Mutex};
use std::task::{Context, Poll, Wake, Waker};

pub struct Flag {
    pub woken: AtomicBool,
}

impl Wake for Flag {
    fn wake(self: Arc<Self>) {
        self.woken.store(true, Ordering::SeqCst);
    }
    fn wake_by_ref(self: &Arc<Self>) {
        self.woken.store(true, Ordering::SeqCst);
    }
}

/// What a task is currently doing (API call in flight and the object it waits on).
#[derive(Clone, Default)]
pub struct Status(pub Arc<Mutex<Option<(String, String)>>>);

impl Status {
    pub fn set(&self, api: &str, waits_on: &str) {
        *self.0.lock().unwrap() = Some((api.to_string(), waits_on.to_string()));
    }
    pub fn clear(&self) {
        *self.0.lock().unwrap() = None;
    }
    pub fn get(&self) -> Option<(String, String)> {
        self.0.lock().unwrap().clone()
    }
}

pub struct Task {
    pub name: String,
    fut: Option<Pin<Box<dyn Future<Output = ()>>>>,
    pub flag: Arc<Flag>,
    pub status: Status,
    pub polls: u64,
}

pub type SpawnQueue = Rc<RefCell<Vec<(String, Status, Pin<Box<dyn Future<Output = ()>>>)>>>;

/// Which of several woken tasks `run()` polls next.
#[derive(Clone, Copy, Debug)]
pub enum Policy {
    /// lowest task index first (the default; drivers come first)
    Lo,
    /// highest task index first (handlers before drivers)
    Hi,
    /// seeded pseudo-random choice
    Rand(u64),
}

pub struct Exec {
    pub tasks: Vec<Task>,
    pub spawnq: SpawnQueue,
    pub log: Log,
    pub policy: Policy,
    /// the poll budget was exhausted once: the scenario is a livelock, later `run()` calls return at once
    pub dead: bool,
}

impl Exec {
    pub fn new(log: Log) -> Exec {
        Exec { tasks: vec![], spawnq: Rc::new(RefCell::new(vec![])), log, policy: Policy::Lo, dead: false }
    }

    pub fn spawn(&mut self, name: &str, status: Status, fut: Pin<Box<dyn Future<Output = ()>>>) -> usize {
        self.tasks.push(Task {
            name: name.to_string(),
            fut: Some(fut),
            flag: Arc::new(Flag { woken: AtomicBool::new(true) }),
            status,
            polls: 0,
        });
        self.tasks.len() - 1
    }

    fn drain_spawns(&mut self) {
        let v: Vec<_> = self.spawnq.borrow_mut().drain(..).collect();
        for (name, st, fut) in v {
            self.spawn(&name, st, fut);
        }
    }

    pub fn find(&self, name: &str) -> Option<usize> {
        self.tasks.iter().position(|t| t.name == name)
    }

    /// Poll task `i` once (whether woken or not). Returns true if it was still alive.
    pub fn step(&mut self, i: usize) -> bool {
        let t = &mut self.tasks[i];
        let Some(mut fut) = t.fut.take() else { return false };
        t.flag.woken.store(false, Ordering::SeqCst);
        t.polls += 1;
        let waker = Waker::from(t.flag.clone());
        let mut cx = Context::from_waker(&waker);
        let r = catch_unwind(AssertUnwindSafe(|| fut.as_mut().poll(&mut cx)));
        match r {
            Ok(Poll::Pending) => {
                self.tasks[i].fut = Some(fut);
            }
            Ok(Poll::Ready(())) => {
                self.tasks[i].status.clear();
                // the future (and every handle it owned) is gone
                self.log.push(json!({"ev": "task_end", "task": self.tasks[i].name}));
            }
            Err(e) => {
                let msg = if let Some(s) = e.downcast_ref::<&str>() {
                    s.to_string()
                } else if let Some(s) = e.downcast_ref::<String>() {
                    s.clone()
                } else {
                    "panic".to_string()
                };
                let st = self.tasks[i].status.get();
                self.log.push(json!({"ev": "panic", "task": self.tasks[i].name, "api": st.map(|s| s.0), "msg": msg}));
                // the future is poisoned; forget it rather than run its destructors (they may panic again)
                std::mem::forget(fut);
                self.tasks[i].status.clear();
            }
        }
        self.drain_spawns();
        true
    }

    /// Poll woken tasks until none is woken. Returns false if the poll budget was exhausted (livelock).
    pub fn run(&mut self) -> bool {
        self.drain_spawns();
        if self.dead {
            return false;
        }
        let mut budget = 200_000u64;
        loop {
            let woken = |t: &Task| t.fut.is_some() && t.flag.woken.load(Ordering::SeqCst);
            let next = match self.policy {
                Policy::Lo => self.tasks.iter().position(woken),
                Policy::Hi => self.tasks.iter().rposition(woken),
                Policy::Rand(ref mut x) => {
                    let cand: Vec<usize> = (0..self.tasks.len()).filter(|&i| woken(&self.tasks[i])).collect();
                    if cand.is_empty() {
                        None
                    } else {
                        // xorshift64*
                        *x ^= *x >> 12;
                        *x ^= *x << 25;
                        *x ^= *x >> 27;
                        let r = x.wrapping_mul(0x2545F4914F6CDD1D);
                        Some(cand[(r >> 33) as usize % cand.len()])
                    }
                }
            };
            match next {
                None => return true,
                Some(i) => {
                    self.step(i);
                    budget -= 1;
                    if budget == 0 || self.log.runaway() {
                        self.log.push(json!({"ev": "livelock"}));
                        self.dead = true;
                        return false;
                    }
                }
            }
        }
    }

    pub fn pending(&self) -> Vec<Value> {
        self.tasks
            .iter()
            .filter(|t| t.fut.is_some())
            .map(|t| {
                let st = t.status.get();
                let api = st.as_ref().map(|s| s.0.clone()).unwrap_or_default();
                let w = st.as_ref().map(|s| s.1.clone()).unwrap_or_else(|| "script".to_string());
                // "rx:4" / "tx:4" -> kind + stream id, so that the trace specs need no string parsing
                let (kind, sid) = match w.split_once(':') {
                    Some((k, n)) if (k == "rx" || k == "tx") && n.parse::<i64>().is_ok() => (k.to_string(), n.parse::<i64>().unwrap()),
                    _ => ("other".to_string(), -1),
                };
                json!({"task": t.name, "api": api, "waits_on": w, "kind": kind, "sid": sid})
            })
            .collect()
    }

    pub fn alive(&self, i: usize) -> bool {
        self.tasks[i].fut.is_some()
    }

    /// Drop every remaining future (in task order), e.g. at the end of a scenario.
    pub fn drop_all(&mut self) {
        for t in self.tasks.iter_mut() {
            if let Some(f) = t.fut.take() {
                let _ = catch_unwind(AssertUnwindSafe(move || drop(f)));
            }
        }
    }
}
