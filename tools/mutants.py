#!/usr/bin/env python3
"""tools/mutants.py adopt <inbox dir> <id> <prop> "<needs>"   copy a confirmed sub-agent mutant to seeded/<id>/
   tools/mutants.py run [<id> ...] [--tier quick]              apply each seeded patch to /repo, run its property's check, undo
The patches are never committed to /repo; `git -C /repo checkout -- .` restores the tree after each run."""
import json, os, shutil, subprocess, sys, time
ROOT = os.path.dirname(os.path.dirname(os.path.abspath(__file__)))
SEED = os.path.join(ROOT, "seeded")


def adopt(src, mid, prop, needs):
    d = os.path.join(SEED, mid)
    os.makedirs(d, exist_ok=True)
    for f in ("patch.diff", "demo.diff", "notes.md"):
        if os.path.exists(os.path.join(src, f)):
            shutil.copy(os.path.join(src, f), os.path.join(d, f))
    conf = json.load(open(os.path.join(src, "confirm.json"))) if os.path.exists(os.path.join(src, "confirm.json")) else {}
    meta = {"id": mid, "breaks_property": prop, "needs_to_manifest": needs, "origin": "independent sub-agent given only the property text and a scratch worktree",
            "confirmed": {"how": "tools/confirm_mutant.sh in a scratch worktree under /tmp (removed afterwards): full workspace suite with patch; suite+demo with patch; suite+demo without patch",
                          **conf}, "detected_by": {}}
    json.dump(meta, open(os.path.join(d, "meta.json"), "w"), indent=1)
    print("adopted", mid)


def run(ids, tier="quick", props=None):
    res = {}
    for mid in ids:
        d = os.path.join(SEED, mid)
        meta = json.load(open(os.path.join(d, "meta.json")))
        plist = props or [meta["breaks_property"]]
        st = subprocess.run(["git", "-C", "/repo", "status", "--porcelain"], capture_output=True, text=True).stdout.strip()
        if st:
            print("refusing: /repo has uncommitted changes"); return
        a = subprocess.run(["git", "-C", "/repo", "apply", os.path.join(d, "patch.diff")], capture_output=True, text=True)
        if a.returncode != 0:
            print(mid, "patch does not apply:", a.stderr[:300]); res[mid] = "no-apply"; continue
        try:
            for prop in plist:
                t = time.time()
                p = subprocess.run([os.path.join(ROOT, "check"), prop, tier], capture_output=True, text=True, cwd=ROOT)
                viol = [l for l in p.stdout.splitlines() if l.startswith("VIOLATION")]
                verdict = "detected" if p.returncode == 1 and viol else ("tool-error" if p.returncode == 2 else "missed")
                print(f"{mid}: {prop} {tier}: {verdict} (exit {p.returncode}, {time.time()-t:.0f}s) {viol[0][:200] if viol else ''}")
                if p.returncode == 2:
                    print(p.stderr[-800:])
                meta["detected_by"][f"{prop}:{tier}"] = {"verdict": verdict, "first_violation": viol[0][:300] if viol else None,
                                                        "repo_head": subprocess.run(["git", "-C", "/repo", "rev-parse", "--short", "HEAD"], capture_output=True, text=True).stdout.strip()}
                res[mid] = verdict
        finally:
            subprocess.run(["git", "-C", "/repo", "checkout", "--", "."])
        json.dump(meta, open(os.path.join(d, "meta.json"), "w"), indent=1)
    return res


if __name__ == "__main__":
    if sys.argv[1] == "adopt":
        adopt(sys.argv[2], sys.argv[3], sys.argv[4], sys.argv[5])
    elif sys.argv[1] == "run":
        args = sys.argv[2:]
        tier = "quick"
        props = None
        if "--tier" in args:
            i = args.index("--tier"); tier = args[i + 1]; del args[i:i + 2]
        if "--prop" in args:
            i = args.index("--prop"); props = args[i + 1].split(","); del args[i:i + 2]
        ids = args or sorted(os.listdir(SEED))
        run(ids, tier, props)
