#!/usr/bin/env python3
"""tools/neutral.py <dir with */patch.diff> [ids...] — behaviour-preserving refactorings (the properties still hold): apply each to /repo,
run EVERY quick check, undo.  Any VIOLATION is a candidate false alarm and is listed for analysis.  Results: neutral/results.json."""
import json, os, subprocess, sys, time
ROOT = os.path.dirname(os.path.dirname(os.path.abspath(__file__)))
PROPS = [json.loads(l)["id"] for l in open(os.path.join(ROOT, "properties.jsonl"))]


def main():
    src = sys.argv[1]
    only = sys.argv[2:]
    out_dir = os.path.join(ROOT, "neutral")
    os.makedirs(out_dir, exist_ok=True)
    rf = os.path.join(out_dir, "results.json")
    res = json.load(open(rf)) if os.path.exists(rf) else {}
    for name in sorted(os.listdir(src)):
        pd = os.path.join(src, name, "patch.diff")
        if not os.path.exists(pd) or (only and name not in only):
            continue
        if subprocess.run(["git", "-C", "/repo", "status", "--porcelain"], capture_output=True, text=True).stdout.strip():
            print("refusing: /repo has uncommitted changes"); return
        a = subprocess.run(["git", "-C", "/repo", "apply", pd], capture_output=True, text=True)
        if a.returncode != 0:
            print(name, "patch does not apply:", a.stderr[:200]); res[name] = {"error": "no-apply"}; continue
        # NEUTRAL_PROPS=C02,C03 re-runs only those checks and keeps the recorded results of the others
        sel = [x for x in os.environ.get("NEUTRAL_PROPS", "").split(",") if x]
        r = dict(res.get(name, {})) if sel and isinstance(res.get(name), dict) and "error" not in res.get(name) else {}
        try:
            for p in (sel or PROPS):
                t = time.time()
                c = subprocess.run([os.path.join(ROOT, "check"), p, "quick"], capture_output=True, text=True, cwd=ROOT)
                viol = [l[:300] for l in c.stdout.splitlines() if l.startswith("VIOLATION")]
                r[p] = {"exit": c.returncode, "violations": viol[:3], "s": round(time.time() - t)}
                if c.returncode != 0:
                    print(f"{name}: {p} exit {c.returncode} {viol[0][:200] if viol else c.stderr[-300:]}")
        finally:
            subprocess.run(["git", "-C", "/repo", "checkout", "--", "."])
        res[name] = r
        json.dump(res, open(rf, "w"), indent=1)
        print(name, "done:", {p: v["exit"] for p, v in r.items() if v["exit"] != 0} or "all quiet")
        # keep the refactoring itself with the results
        os.makedirs(os.path.join(out_dir, name), exist_ok=True)
        for f in ("patch.diff", "notes.md"):
            if os.path.exists(os.path.join(src, name, f)):
                subprocess.run(["cp", os.path.join(src, name, f), os.path.join(out_dir, name, f)])


if __name__ == "__main__":
    main()
