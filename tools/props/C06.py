"""C06 — no peer behaviour makes h3 panic or leaves a call pending forever (C06_Trace)."""
import json, random
import vlib
from props import common, corpus


def sig(s, trace, why):
    p = [e for e in trace if e.get("ev") == "panic"]
    if p:
        msg = p[0].get("msg", "")
        api = p[0].get("api")
        if "capacity" in msg or "too large" in msg:
            return "c06:panic:header-map-capacity"
        return f"c06:panic:{api}:{msg[:40]}"
    if "pending forever" in why:
        return "c06:pending-forever"
    return "c06:" + why[:40]


def vi(x, rnd, minimal=False):
    """QUIC varint, random (possibly non-minimal) form"""
    m = 0 if x < 64 else 1 if x < 16384 else 2 if x < (1 << 30) else 3
    f = m if minimal else rnd.randint(m, 3)
    if f == 0:
        return [x]
    if f == 1:
        return list((0x4000 | x).to_bytes(2, "big"))
    if f == 2:
        return list((0x80000000 | x).to_bytes(4, "big"))
    return list((0xC000000000000000 | x).to_bytes(8, "big"))


REQ = [0, 0, 0xd1, 0xd7, 0x50, 1, 97, 0xc1]


def rand_section(rnd):
    """grammar-directed QPACK field section: static / name-reference / literal lines with odd lengths and flags"""
    out = [rnd.choice([0, 0, 0, 1, 5]), rnd.choice([0, 0, 0, 0x80, 1])]
    for _ in range(rnd.randint(0, 5)):
        k = rnd.random()
        if k < 0.3:
            out.append(0xc0 | rnd.randint(0, 63))
        elif k < 0.5:
            vl = rnd.randint(0, 4)
            out += [0x50 | rnd.randint(0, 15), vl | (0x80 if rnd.random() < 0.3 else 0)] + [rnd.randint(0, 255) for _ in range(vl)]
        elif k < 0.9:
            nl = rnd.choice([0, 0, 1, 2, 3])
            vl = rnd.randint(0, 4)
            name = [rnd.choice([120, 97, 58, 88, 0, 32, 255]) for _ in range(nl)]
            out += [0x20 | (0x08 if rnd.random() < 0.2 else 0) | nl] + name + [vl | (0x80 if rnd.random() < 0.2 else 0)] + [rnd.choice([121, 0, 10, 13, 255, 49]) for _ in range(vl)]
        else:
            out.append(rnd.randint(0, 0x3f))
    return out


def rand_frames(rnd, n):
    out = []
    for _ in range(n):
        t = rnd.choice([0, 0, 1, 1, 3, 4, 5, 7, 13, 2, 6, 0x21, 0x40, rnd.randint(0, 1 << 20), 0x41])
        k = rnd.randint(0, 12)
        if t == 1 and rnd.random() < 0.6:
            payload = list(REQ) if rnd.random() < 0.3 else rand_section(rnd) if rnd.random() < 0.7 else [0, 0] + [rnd.choice([0xd1, 0xc1, 0x50, 0x21, 0x29, 0x80, 0x10, 1, 97, 0xff]) for _ in range(k)]
        else:
            payload = [rnd.randint(0, 255) for _ in range(k)]
        ln = len(payload) + rnd.choice([0, 0, 0, 1, -1, 5]) if rnd.random() < 0.2 else len(payload)
        out += vi(t, rnd) + vi(max(ln, 0), rnd) + payload
    return out


def random_scenarios(seed, n):
    rnd = random.Random(seed)
    scns = []
    full = [{"op": "resolve"}, {"op": "recv_body"}, {"op": "recv_trailers"}, {"op": "send_response", "status": 200, "fields": []}, {"op": "send_data", "len": 5}, {"op": "finish"}]
    for i in range(n):
        role = rnd.choice(["server", "client"])
        uni = [2, 6, 10, 14] if role == "server" else [3, 7, 11, 15]
        steps = []
        if role == "client":
            steps.append({"op": "request", "task": "r1", "prog": [{"op": "send_request", "method": [71, 69, 84], "uri": [104, 116, 116, 112, 115, 58, 47, 47, 97, 47], "fields": []},
                                                                {"op": "finish"}, {"op": "recv_response"}, {"op": "recv_body"}, {"op": "recv_trailers"}]})
        streams = {}
        for sid in rnd.sample(uni, rnd.randint(0, 3)):
            ty = rnd.choice([0, 0, 0, 1, 2, 3, 0x54, 0x21, rnd.randint(0, 300)])
            body = vi(ty, rnd)
            if ty == 0:
                body += ([4, 0] if rnd.random() < 0.7 else []) + rand_frames(rnd, rnd.randint(0, 3))
            else:
                body += [rnd.randint(0, 255) for _ in range(rnd.randint(0, 10))]
            streams[sid] = body
        for sid in ([0, 4] if role == "server" else [0]):
            if rnd.random() < 0.85:
                sec = rand_section(rnd)
                head = ([1, len(REQ)] + REQ) if (role == "server" and rnd.random() < 0.4) else ([1, 3, 0, 0, 0xd9] if rnd.random() < 0.3 else [1, len(sec)] + sec if rnd.random() < 0.7 else [])
                streams[sid] = head + rand_frames(rnd, rnd.randint(0, 4))
                if rnd.random() < 0.2:
                    streams[sid] = [rnd.randint(0, 255) for _ in range(rnd.randint(0, 20))]
        # cut the streams into chunks and interleave
        pend = {sid: b for sid, b in streams.items()}
        while pend:
            sid = rnd.choice(list(pend))
            b = pend[sid]
            k = len(b) if rnd.random() < 0.3 else rnd.randint(1, max(1, min(len(b), 9)))
            if b:
                steps.append({"op": "deliver", "sid": sid, "bytes": b[:k]})
            pend[sid] = b[k:]
            if not pend[sid]:
                del pend[sid]
                e = rnd.random()
                if e < 0.5:
                    steps.append({"op": "fin", "sid": sid})
                elif e < 0.7:
                    steps.append({"op": "reset", "sid": sid, "code": rnd.choice([0, 268, 1 << 30])})
            if rnd.random() < 0.05:
                steps.append({"op": "stop", "sid": rnd.choice([0, 4]), "code": 268})
        if rnd.random() < 0.5:
            steps.append({"op": "close", "code": rnd.choice([256, 0, 4660]), "kind": rnd.choice(["app", "app", "timeout"])})
        scns.append({"id": f"rnd-{seed}-{i}", "part": "R", "role": role, "cfg": {"grease": rnd.random() < 0.3, "write": rnd.choice(["all", "all", "1"]), "max_field": rnd.choice([None, 100, 1000])},
                     "default_handler": full, "steps": steps})
        if scns[-1]["cfg"]["max_field"] is None:
            del scns[-1]["cfg"]["max_field"]
    # the large-input corner: a section of ~25 000 one-byte field lines (and its neighbours)
    for nf in (24576, 24577, 40000):
        sec = [0, 0] + [0xd1] * nf
        frame = [1] + list((0x80000000 | len(sec)).to_bytes(4, "big")) + sec
        scns.append({"id": f"many-fields-{nf}", "part": "R", "role": "server", "cfg": {"grease": False}, "default_handler": full,
                     "steps": [{"op": "deliver", "sid": 0, "bytes": frame}, {"op": "fin", "sid": 0}]})
    return scns


def run(tier, chk):
    wd = vlib.workdir("C06")
    scns = common.gen_scenarios(chk, wd, "C06_Gen", workers=8)
    common.run_sim(chk, wd, scns, "C06_Trace", shards=14, sig_of=sig)
    rnd = random_scenarios(vlib.seed(), 3000 if tier == "quick" else 60000)
    common.run_sim(chk, wd, rnd, "C06_Trace", label="rnd", shards=14, sig_of=sig)
    # WebTransport streams read through the futures / tokio AsyncRead of BufRecvStream in fixed-size pieces, in every fragmentation the
    # C19 generator produces (a public read call must not panic whatever the relation of chunk sizes to the caller's buffer)
    wts = common.gen_scenarios(chk, wd, "C19_Gen", workers=4, label="wtgen")
    common.run_sim(chk, wd, wts, "C06_Trace", label="wtsim", shards=8, sig_of=lambda s, t, w: "c06:webtransport:" + sig(s, t, w), schedules=[])
    # the real transport: h3 on h3-quinn against a raw Quinn peer that ends the request stream or the connection in every way QUIC
    # offers after every prefix of a message; the application repeats its calls after the first error (C06Q_Trace)
    qs = common.gen_scenarios(chk, wd, "C06Q_Gen", workers=2, label="qgen", cfg_text=f'SPECIFICATION Spec\nCONSTANT Tier = "{tier}"\nINVARIANT Emit\nCHECK_DEADLOCK FALSE\n')
    common.run_sim(chk, wd, qs, "C06Q_Trace", label="quinn", shards=6, runner="quinn",
                   sig_of=lambda s, t, w: "c06:quinn:" + ("panic" if "panic" in w else "pending" if "pending" in w else "calls-unaccounted"))
    # the other real-transport families (datagrams valid and invalid through DatagramReader / DatagramSender; timeouts and closes met
    # while the connection is being built), judged for termination only (C06P_Trace)
    oq = common.gen_scenarios(chk, wd, "C18D_Gen", workers=2, label="dgen", cfg_text="SPECIFICATION Spec\nINVARIANT Emit\nCHECK_DEADLOCK FALSE\n")
    oq += common.gen_scenarios(chk, wd, "C17H_Gen", workers=2, label="hgen", cfg_text="SPECIFICATION Spec\nINVARIANT Emit\nCHECK_DEADLOCK FALSE\n")
    oq = [s for s in oq if s["fam"] != "H3DG" or s["sends"] or s["raws"]]      # (the empty datagram scenario records nothing)
    for i, s in enumerate(oq):
        s["id"] = f"oq-{i+1}"
    common.run_sim(chk, wd, oq, "C06P_Trace", label="quinn2", shards=4, runner="quinn",
                   sig_of=lambda s, t, w: f"c06:quinn:{s['fam']}:" + ("panic" if "panic" in w else "pending" if "pending" in w else "nothing-recorded"))
    if tier != "quick":
        # the scenario families of the other checks: none of them may make h3 panic or leave a call pending for ever either
        corpus.cross(chk, "C06", "C06_Trace", sig_of=lambda s, t, w: f"c06:corpus:{s.get('family')}:" + sig(s, t, w), exclude=("C06",))
    chk.exhaustive = False
    chk.distinct_nontrivial = len(scns) + len(rnd) + len(wts) + len(qs) + len(oq)
    chk.notes["exhaustive_part"] = f"{len(scns)} fault-injection scenarios (5 base scripts x every step index x every fault x 2 configurations) are enumerated completely by TLC"
    chk.rule = ("5 base peer scripts for both roles x ONE fault (FIN, RESET, STOP_SENDING on every stream of the script; connection close with 2 codes; idle timeout) after EVERY step index x "
                "2 configurations (TLC-enumerated), plus seeded random / grammar-mutated byte strings on request, control, QPACK, push, WebTransport and unknown streams in random chunkings "
                "and interleavings with random endings; the C19 WebTransport scenarios (streams read through AsyncRead in fixed-size pieces); over real Quinn: 7 message prefixes x 7 endings "
                "(FIN, RESET_STREAM, STOP_SENDING+RESET, STOP_SENDING+FIN, CONNECTION_CLOSE) x both roles x {ending at once, ending 25 ms after the last write} x the call pattern with 1 or 2 retries of the first failing call, plus the datagram (H3DG) and error-class (H3CLS) families judged for termination only; a trace with a panic, a lost wake-up, a livelock, or a call left pending on an object that has ended is rejected")
    chk.assumptions = ["panics are caught per poll by the executor and recorded as events", "quiescence of the deterministic executor decides 'pending forever'"]


def replay(path, chk):
    return common.replay_scenario(path, chk)
