"""C01 — end-to-end message fidelity between the real client and server over the simulated transport."""
import vlib
from props import common


def sig(s, trace, why):
    if any(e.get("ev") == "panic" for e in trace):
        return "c01:panic"
    c = s.get("cfg", {})
    return f"c01:chunk{c.get('pump_chunk')}:wc{c.get('client', {}).get('write')}:ws{c.get('server', {}).get('write')}"


def run(tier, chk):
    wd = vlib.workdir("C01")
    scns = common.gen_scenarios(chk, wd, "C01_Gen", cfg_text=f'SPECIFICATION Spec\nCONSTANT Tier = "{tier}"\nINVARIANT Emit\nCHECK_DEADLOCK FALSE\n', workers=8)
    common.run_sim(chk, wd, scns, "C01_Trace", shards=14, sig_of=sig)
    chk.exhaustive = True
    chk.distinct_nontrivial = len(scns)
    chk.rule = ("8 requests (GET/POST/PUT/OPTIONS/CONNECT/extended CONNECT; absolute- and authority-form targets; repeated and mixed-case names; 300-byte value; bodies of 0..3 pieces "
                "incl. empty pieces and 16 KiB; trailers) x 4 responses x sender write sizes x delivery chunk sizes (every byte boundary for chunk 1) x whole/split streams x grease")
    chk.assumptions = ["bodies are position-coded; pieces longer than 48 bytes are compared by the harness against the pattern (pat_ok), shorter ones in TLA+",
                       "task interleavings are those the chunk/write policies induce, not an exhaustive enumeration"]


def replay(path, chk):
    return common.replay_scenario(path, chk)
