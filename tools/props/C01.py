"""C01 — end-to-end message fidelity between the real client and server over the simulated transport."""
import vlib
from props import common


def sig(s, trace, why):
    if any(e.get("ev") == "panic" for e in trace):
        return "c01:panic"
    c = s.get("cfg", {})
    return f"c01:chunk{c.get('pump_chunk')}:wc{c.get('client', {}).get('write')}:ws{c.get('server', {}).get('write')}"


def run(tier, chk):
    wd = vlib.workdir("C01")
    scns = common.gen_scenarios(chk, wd, "C01_Gen", cfg_text=f'SPECIFICATION Spec\nCONSTANT Tier = "{tier}"\nINVARIANT Emit\nCHECK_DEADLOCK FALSE\n', workers=8)
    common.run_sim(chk, wd, scns, "C01_Trace", shards=14, sig_of=sig)
    # the same message catalogue over the REAL transport: h3 client <-> h3 server through the h3-quinn adapter on both sides, Quinn over
    # loopback UDP, flow-control windows from tiny (every write is partial, the sender is back-pressured) to default
    import json as _j
    seen, e2e = set(), []
    for s in scns:
        key = _j.dumps([s["req"], s["resp"]], sort_keys=True)
        if key in seen:
            continue
        seen.add(key)
        for w in ([64, 2048, 0] if tier == "quick" else [64, 100, 1000, 2048, 65536, 0]):
            e2e.append({"fam": "E2E", "req": s["req"], "resp": s["resp"], "win": {"stream": w, "conn": 0 if w == 0 else 4 * w}, "id": f"e2e-{len(e2e)+1}"})
    common.run_sim(chk, wd, e2e, "C01_Trace", label="e2e", shards=8, runner="quinn",
                   sig_of=lambda s, t, w: "c01:panic" if any(e.get("ev") == "panic" for e in t) else f"c01:e2e:win{s['win']['stream']}")
    chk.exhaustive = True
    chk.distinct_nontrivial = len(scns) + len(e2e)
    chk.notes["end_to_end_over_quinn"] = len(e2e)
    chk.rule = ("8 requests (GET/POST/PUT/OPTIONS/CONNECT/extended CONNECT; absolute- and authority-form targets; repeated and mixed-case names; 300-byte value; bodies of 0..3 pieces "
                "incl. empty pieces and 16 KiB; trailers; opaque non-UTF-8 field values) x 4 responses x sender write sizes x delivery chunk sizes (every byte boundary for chunk 1) x whole/split/late-split streams x grease; "
                "plus every request x response pair over real Quinn loopback (h3-quinn on both sides) with stream windows 64 / 2048 / default")
    chk.assumptions = ["bodies are position-coded; pieces longer than 48 bytes are compared by the harness against the pattern (pat_ok), shorter ones in TLA+",
                       "task interleavings are those the chunk/write policies induce, not an exhaustive enumeration"]


def replay(path, chk):
    return common.replay_scenario(path, chk)
