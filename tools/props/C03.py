"""C03 — request-stream frame sequences (RFC 9114 4.1) at the real server/client API vs. RequestRecv.tla."""
import json
import vlib
from props import common


def sig(s, trace, why):
    rets = [e for e in trace if e.get("ev") == "ret" and e.get("api") in ("resolve_request", "recv_response", "recv_data", "recv_trailers")]
    last = rets[-1]["res"]["k"] if rets else "none"
    if any(e.get("ev") == "panic" for e in trace):
        return "c03:panic"
    letters = s.get("letters", [])
    feat = []
    if "D0" in letters:
        feat.append("zero-length-DATA")
    return f"c03:{s.get('role')}:{'+'.join(feat) or 'seq'}:{s.get('ending')}:last-{last}"


def run(tier, chk):
    wd = vlib.workdir("C03")
    n = 3 if tier == "quick" else 4
    scns = common.gen_scenarios(chk, wd, "C03_Gen", cfg_text=f"SPECIFICATION Spec\nCONSTANT N = {n}\nINVARIANT Emit\nCHECK_DEADLOCK FALSE\n", workers=8)
    common.run_sim(chk, wd, scns, "C03_Trace", shards=14, sig_of=sig)
    chk.exhaustive = True
    chk.distinct_nontrivial = len(scns)
    chk.rule = (f"all sequences up to length {n} over the 13-letter (incl. two truncated frames) request-stream alphabet x endings (FIN, RESET, open) x chunkings (one chunk, per frame, per byte) "
                "x (server, client); every recorded execution validated by C03_Trace at every quiescent point")
    chk.assumptions = ["simquic follows Quinn's stream semantics (reset discards unread data and is reported once)",
                       "client: FIN before HEADERS and PUSH_PROMISE are unconstrained by the property (R2)"]


def replay(path, chk):
    return common.replay_scenario(path, chk)
