"""C19 — WebTransport streams stay attached to their session, bytes intact (C19_Trace)."""
import vlib
from props import common


def sig(s, trace, why):
    if any(e.get("ev") == "panic" for e in trace):
        return "c19:panic"
    acc = [e for e in trace if e.get("ev") == "ret" and e.get("api") == "wt_accept"]
    if acc and acc[0]["res"].get("k") == "ok" and acc[0]["res"].get("session") != s.get("connect_sid"):
        return "c19:session-id-is-not-the-connect-stream-id"
    uni = [e for e in trace if e.get("ev") == "ret" and e.get("api") == "accept_uni"]
    if s.get("wt") and not uni and s.get("fin_in") is False:
        return "c19:typed-stream-not-surfaced-while-open"
    return f"c19:connect{s.get('connect_sid')}:wt{s.get('wt')}"


def run(tier, chk):
    wd = vlib.workdir("C19")
    scns = common.gen_scenarios(chk, wd, "C19_Gen", workers=4)
    common.run_sim(chk, wd, scns, "C19_Trace", shards=8, sig_of=sig)
    chk.exhaustive = True
    chk.distinct_nontrivial = len(scns)
    chk.rule = ("CONNECT stream ids {0,4,8,252,256,65536} (1-, 2- and 4-byte varint session ids), directly or after 1-2 ordinary requests; incoming uni and bidi streams with header+payload "
                "split at every offset, payload present or empty, finished or left open; a uni and a bidi stream opened by the server; a datagram each way; extension enabled or not")
    chk.assumptions = ["server side (h3-webtransport has no client API)", "the scripted peer enables WebTransport, datagrams and extended CONNECT in its SETTINGS"]


def replay(path, chk):
    return common.replay_scenario(path, chk)
