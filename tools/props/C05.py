"""C05 — one connection error, seen everywhere, never lost between tasks.
ConnError.tla model-checked for the shape of the real code + every enumerated thread schedule replayed on the real code."""
import json, os
import vlib
from props import common, corpus


def sig(s, trace, why):
    if "lost wake-up" in why:
        return "c05:lost-wakeup:driver-parked-with-error-stored"
    if "different connection errors" in why:
        return "c05:different-errors-reported"
    if any(e.get("ev") == "panic" for e in trace):
        return "c05:panic"
    return "c05:close-or-later-call"


def learn_shape(wd, role="client"):
    """run the driver alone, then one request task alone, and read Rounds / Order / steps off the pre-emption points they pass"""
    scn = os.path.join(wd, "probe.scn")
    out = os.path.join(wd, "probe.trace")
    json.dump({"id": "probe", "role": role, "streams": ["settings"], "driver": "none", "schedule": [0] * 40 + [1] * 40}, open(scn, "w"))
    vlib.h3v("sched", scn, out)
    pts, spts = [], []
    parked = False
    for e in vlib.read_ndjson(out):
        if e.get("ev") == "yield" and e.get("t") == 0 and not parked:
            if e["at"] in ("d:parked", "done"):
                parked = True
            else:
                pts.append(e["at"])
        if e.get("ev") == "yield" and e.get("t") == 1:
            spts.append(e["at"])
    rounds = pts.count("waker")
    if rounds == 0 or "cell:get" not in pts:
        raise vlib.ToolError("MODEL-DRIFT: the driver passed no check/registration pre-emption point (hooks missing or renamed)")
    if "cell:set" not in spts or "waker" not in spts:
        raise vlib.ToolError("MODEL-DRIFT: the request task passed no store/wake pre-emption point (hooks missing or renamed)")
    order = "CheckThenRegister" if pts.index("cell:get") < pts.index("waker") else "RegisterThenCheck"
    return rounds, order, pts, spts


def run_role(tier, chk, wd, role):
    rounds, order, pts, spts = learn_shape(wd, role)
    chk.notes.setdefault("shape_of_real_code", {})[role] = {"rounds_per_driver_poll": rounds, "order": order, "driver_first_poll_points": pts, "request_task_points": spts}
    # design level: does the property hold for this shape?  (a failure here is information, the verdict comes from the replay)
    cfg = os.path.join(wd, f"mc-{role}.cfg")
    n = 2 if tier == "quick" else 3
    streams = ", ".join(f'"s{i}"' for i in range(1, n + 1))
    open(cfg, "w").write(f'SPECIFICATION Spec\nCONSTANTS Streams = {{{streams}}}\n Rounds = {rounds}\n Order = "{order}"\n DriverErr = TRUE\n'
                         "INVARIANT SingleOutcome\nINVARIANT NoLostWakeup\nPROPERTY Eventually\nCHECK_DEADLOCK FALSE\n")
    mc = vlib.tlc("ConnError", cfg, name=f"mc-{role}", wd=wd, workers=4, coverage=True)
    chk.add_tlc(f"mc-{role}", mc)
    chk.notes.setdefault("design_level", {})[role] = "ConnError.tla holds for the shape of the real code" if mc.ok else "ConnError.tla VIOLATED for the shape of the real code (see replay results)"
    for a in ("StreamStore", "StreamWake", "DriverRegister", "DriverChkCell"):
        if mc.coverage.get(a, 0) == 0:
            raise vlib.ToolError(f"vacuity: action {a} of ConnError never taken")
    # replay: every interleaving for one request task; two (three) tasks sampled / bounded
    dsteps = len(pts) + 2 if tier == "quick" else 2 * len(pts) + 4
    ssteps = len(spts)
    gcfg = lambda n: f"SPECIFICATION Spec\nCONSTANTS N = {n}\n DriverSteps = {dsteps}\n StreamSteps = {ssteps}\nINVARIANT Emit\nCHECK_DEADLOCK FALSE\n"
    s1 = common.gen_scenarios(chk, wd, "C05_Gen", cfg_text=gcfg(1), workers=4, label=f"g1{role[0]}")
    sim_n = 1500 if tier == "quick" else 20000
    scns = s1 + common.gen_scenarios(chk, wd, "C05_Gen", cfg_text=gcfg(2), workers=1, label=f"g2{role[0]}", simulate=sim_n, depth=dsteps + 10)
    if tier != "quick":
        scns += common.gen_scenarios(chk, wd, "C05_Gen", cfg_text=gcfg(3), workers=1, label=f"g3{role[0]}", simulate=sim_n, depth=dsteps + 14)
    for s in scns:
        s["role"] = role
    common.run_sim(chk, wd, scns, "C05_Trace", shards=12, sig_of=sig, runner="sched", label=f"sim-{role}")
    return len(scns), len(s1), rounds, order, sim_n


def run(tier, chk):
    wd = vlib.workdir("C05")
    total = 0
    parts = []
    for role in ("client", "server"):
        n, n1, rounds, order, sim_n = run_role(tier, chk, wd, role)
        total += n
        parts.append(f"{role}: {rounds} check/register rounds per driver poll ({order}), {n1} exhaustive single-task schedules")
    # the datagram reader over real Quinn: asked after the driver has reported h3's own error, it reports that same error (C05D_Trace)
    dg = common.gen_scenarios(chk, wd, "C05D_Gen", workers=2, label="dgen", cfg_text="SPECIFICATION Spec\nINVARIANT Emit\nCHECK_DEADLOCK FALSE\n")
    common.run_sim(chk, wd, dg, "C05D_Trace", label="quinn", shards=2, runner="quinn", sig_of=lambda s, t, w: "c05:datagram-reader-reports-another-error")
    total += len(dg)
    if tier != "quick":
        # sequential executions too: in every scenario family of the simulator-based checks all reported connection errors agree and match the close code
        common.run_mc(chk, wd, "H3Conn", must_cover=("Detect", "PeerClose", "Handle", "Report", "SendGoaway", "RecvGoaway"), label="h3conn-mc")
        # unbounded (any codes, any identifiers): the invariant behind OneError / CloseIsTheError / NoCloseOnRemote is inductive
        common.run_apalache(chk, wd, "H3ConnInd", [("Init", "IndInv", 0, "initiation"), ("IndInit", "IndInv", 1, "consecution"),
                                                    ("IndInit", "Safety", 0, "IndInv implies OneError, CloseIsTheError, NoCloseOnRemote"),
                                                    ("IndInit", "StepProps", 1, "action properties CellStable and GoawayMonotone")])
        corpus.cross(chk, "C05", "H3Conn_Trace", env_extra={"INV": "ERR"}, sig_of=lambda s, t, w: "c05:corpus:different-errors-or-close-code")
    chk.exhaustive = False
    chk.distinct_nontrivial = total
    chk.notes["exhaustive_part"] = parts
    chk.rule = ("both roles (client driver poll_close, server driver accept) x 1 request task: every interleaving at pre-emption-point granularity x "
                "{no own error, own error (missing SETTINGS), remote close}; 2 (3) request tasks raising different errors (unexpected frame, truncated frame, QPACK failure): "
                f"{sim_n} TLC-simulated schedules each; every schedule executed on OS threads released one step at a time")
    chk.assumptions = ["AtomicWaker, OnceLock and Arc are linearizable at the granularity of the pre-emption points"]


def replay(path, chk):
    return common.replay_scenario(path, chk)
