"""C07 — faults confined to one request never harm the connection or other requests (C07_Trace)."""
import vlib
from props import common


def sig(s, trace, why):
    if any(e.get("ev") == "panic" for e in trace):
        return "c07:panic"
    closes = [e["code"] for e in trace if e.get("ev") == "h3_close"]
    return f"c07:{s.get('part')}:{'+'.join(k for k in s.get('kinds', []) if k != 'healthy')}:close-{closes[0] if closes else 'none'}"


def run(tier, chk):
    wd = vlib.workdir("C07")
    n = 2 if tier == "quick" else 3
    scns = common.gen_scenarios(chk, wd, "C07_Gen", cfg_text=f"SPECIFICATION Spec\nCONSTANT NStreams = {n}\nINVARIANT Emit\nCHECK_DEADLOCK FALSE\n", workers=8)
    common.run_sim(chk, wd, scns, "C07_Trace", shards=14, sig_of=sig)
    chk.exhaustive = True
    chk.distinct_nontrivial = len(scns)
    chk.rule = (f"{n} concurrent requests on one server connection: one healthy, the other(s) with one of 19 stream-scoped faults (RESET with 3 codes at 5 positions, STOP_SENDING at 2 positions, "
                "malformed section, oversize section, FIN before HEADERS, malformed trailers, resolver / stream dropped by the application), healthy first or second, in every interleaving of "
                "the per-stream event sequences; plus lagging-reader schedules where chunks pile up inside h3 before the RESET")
    chk.assumptions = ["server side against a scripted peer; the client side of the same mechanisms is exercised by C03/C10/C12 scenarios"]


def replay(path, chk):
    return common.replay_scenario(path, chk)
