"""C10 — field-section size limit in both directions vs. C10_Trace (sizes computed by QpackBlock!SectionSize)."""
import vlib
from props import common


def sig(s, trace, why):
    if any(e.get("ev") == "panic" for e in trace):
        return "c10:panic"
    return f"c10:{s.get('part')}:{s.get('kind')}:{s.get('role')}:{s.get('when', '')}"


def run(tier, chk):
    wd = vlib.workdir("C10")
    scns = common.gen_scenarios(chk, wd, "C10_Gen", cfg_text=f'SPECIFICATION Spec\nCONSTANT Tier = "{tier}"\nINVARIANT Emit\nCHECK_DEADLOCK FALSE\n', workers=4)
    common.run_sim(chk, wd, scns, "C10_Trace", shards=8, sig_of=sig)
    chk.exhaustive = True
    chk.distinct_nontrivial = len(scns)
    chk.rule = ("receiving: configured limits (thorough: 207, 208, 256, 300, 500, sweeps L-3..L+3; plus 2^62-1) x message sizes sweeping L-2..L+2 for request heads, response heads, one-field and three-field trailers, both roles, peer limit "
                "unlimited or below the 431 answer; sending: advertised limits x sizes L-2..L+2 for requests, responses, response and request trailers, SETTINGS before the attempt, "
                "never, or while the attempt waits for stream credit; every HEADERS frame on the wire decoded and measured in TLA+")
    chk.assumptions = ["the scripted peer's sections are literal-only encodings produced by the TLA+ reference encoder"]


def replay(path, chk):
    return common.replay_scenario(path, chk)
