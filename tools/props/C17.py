"""C17 — the Quinn adapter moves bytes, identifiers and errors faithfully.
QuinnAdapterModel.tla model-checked; TLC-generated + seeded random programs run against the real h3-quinn adapter
over real Quinn loopback connections; every recorded run judged by the trace specification C17_Trace."""
import json, os, random
import vlib
from props import common

MAX62 = [63, 255, 255, 255, 255, 255, 255, 255]


def b8(x):
    return list(x.to_bytes(8, "big"))


def sig(s, trace, why):
    w = why.lower()
    for key, name in (("recv_id panicked", "c17:recv_id-panics-while-read-pending"),
                      ("send_id panicked", "c17:send_id-panics"),
                      ("already been reported as failed", "c17:send-refused-after-failed-write"),
                      ("different stream id", "c17:stream-id-changed"),
                      ("not the next bytes of the accepted units", "c17:bytes-to-peer-not-fifo-exactly-once"),
                      ("while an earlier one is unfinished", "c17:overlapping-write-accepted"),
                      ("incomplete", "c17:fin-before-complete"),
                      ("not the class/code of the injected fault", "c17:error-class-or-code"),
                      ("never ended", "c17:wait-never-ended"),
                      ("never surfaced", "c17:fault-never-surfaced"),
                      ("not the next bytes the peer wrote", "c17:bytes-from-peer-altered"),
                      ("flow-control credit", "c17:ready-before-written")):
        if key in w:
            return name
    return "c17:" + (json.loads(why)[0] if why.startswith("[") else why)[:60].replace(" ", "-")


def random_programs(rng, n, big):
    """seeded random send/receive programs: arbitrary unit sizes (up to 256 KiB in the thorough tier), windows, read steps, overlaps"""
    out = []
    for i in range(n):
        role = rng.choice(["client", "server"])
        w = rng.choice([64, 100, 1024, 4096, 0, 0]) if not big else rng.choice([64, 1024, 65536, 0])
        kind = rng.choice(["bidi", "uni"])
        split = True if kind == "uni" else rng.random() < 0.7
        ops = [{"op": "a_open_bidi" if kind == "bidi" else "a_open_uni", "s": "s0", "split": split, "via": rng.choice(["opener", "conn"])}]
        nunits = rng.randint(1, 6) if not big else rng.randint(1, 3)
        total = 0
        # a p_read blocks until at least one byte arrives, so it is generated only when a byte is CERTAINLY there:
        #   certain  lower bound of the bytes the adapter has been made to hand to Quinn completely (units whose a_ready returned)
        #   maxread  upper bound of the bytes the peer's reads so far may have taken
        certain, maxread, handed = 0, 0, 0
        for u in range(nunits):
            if big:
                ln = rng.choice([0, 1, 100, 4096, 65536, 262144]) if w != 64 else rng.choice([0, 1, 100, 4096, 16384])
            else:
                ln = rng.choice([0, 1, 2, 62, 63, 64, 65, 100, 127, 128, 1000, 1200, 1201, 4096, rng.randint(0, 6000)])
            total += ln
            ops.append({"op": "a_send", "s": "s0", "len": ln, "tag": u + 1, "kind": rng.choice(["data", "data", "headers"])})
            for _ in range(rng.choice([0, 0, 1, 2])):
                x = rng.random()
                if x < 0.4:
                    ops.append({"op": "a_send", "s": "s0", "len": rng.randint(0, 50), "tag": 100 + u, "kind": "data"})
                    handed += 59                 # it is accepted if an earlier single poll happened to finish the unit
                elif x < 0.7:
                    ops.append({"op": "a_ready_once", "s": "s0"})
                elif x < 0.85:
                    ops.append({"op": "a_send_id", "s": "s0"})
                elif certain - maxread >= 1:
                    n = rng.randint(1, 200)
                    ops.append({"op": "p_read", "s": "s0", "n": n})
                    maxread += n
            step = rng.choice([1, 3, 17, 64, 500, 4096, 65536]) if ln < 20000 else rng.choice([4096, 65536])
            ops.append({"op": "a_ready", "s": "s0", "step": step})
            handed += ln + 9                     # upper bound of the unit's wire image
            certain += ln + 2                    # lower bound
            if w:
                maxread = max(maxread, handed)   # with a small window the peer read concurrently during the wait: it may have taken everything
        ops.append({"op": "a_finish", "s": "s0"})
        ops.append({"op": "p_read_to_end", "s": "s0", "n": rng.choice([1, 7, 1000, 65536]) if total < 3000 else rng.choice([1000, 65536])})
        if kind == "bidi":
            # and the other direction on the same stream
            for u in range(rng.randint(1, 3)):
                ops.append({"op": "p_write", "s": "s0", "len": rng.randint(1, 3000), "tag": 30 + u})
                ops.append({"op": rng.choice(["a_poll_data", "a_poll_data", "a_recv_id"]), "s": "s0"})
            if rng.random() < 0.5:
                ops += [{"op": "p_fin", "s": "s0"}, {"op": "a_read_to_end", "s": "s0"}, {"op": "a_recv_id", "s": "s0"}]
            else:
                ops += [{"op": "p_reset", "s": "s0", "code": b8(rng.choice([0, 256, 268, 2**62 - 1, rng.randrange(2**62)]))}, {"op": "a_read_to_end", "s": "s0"}, {"op": "a_recv_id", "s": "s0"}]
        out.append({"fam": "rand-big" if big else "rand", "a_role": role, "win": {"stream": w, "conn": rng.choice([0, 0, 0, 200]) if w and w <= 100 else 0, "send": 0}, "idle_ms": 0, "ops": ops})
    return out


def run(tier, chk):
    wd = vlib.workdir("C17")
    mc = common.run_mc(chk, wd, "QuinnAdapterModel", None, must_cover=("SendData", "PollWrite", "PollBlocked", "PollDone", "PollErr", "PeerRead", "PeerStop"))
    quick = tier == "quick"
    cfg = ("SPECIFICATION Spec\nCONSTANTS Lens = {%s}\n MultiLens = {%s}\n MaxUnits = %d\n Windows = {64, 1024, 0}\n Full = %s\nINVARIANT Emit\nCHECK_DEADLOCK FALSE\n"
           % (("0, 1, 64, 300", "0, 300", 2, "FALSE") if quick else ("0, 1, 63, 64, 65, 300, 5000", "0, 1, 300", 3, "TRUE")))
    scns = common.gen_scenarios(chk, wd, "C17_Gen", cfg_text=cfg, workers=4, label="gen")
    rng = random.Random(vlib.seed())
    rnd = random_programs(rng, 150 if quick else 3000, False)
    if not quick:
        rnd += random_programs(rng, 60, True)
    for i, s in enumerate(rnd):
        s["id"] = f"rand-{i+1}"
    scns += rnd
    common.run_sim(chk, wd, scns, "C17_Trace", shards=12, sig_of=sig, runner="quinn")
    # the last clause as seen THROUGH h3: timeout / application close met by build(), by the driver and by a request, both roles
    cls = common.gen_scenarios(chk, wd, "C17H_Gen", workers=2, label="hgen", cfg_text="SPECIFICATION Spec\nINVARIANT Emit\nCHECK_DEADLOCK FALSE\n")
    common.run_sim(chk, wd, cls, "C17H_Trace", label="h3cls", shards=4, runner="quinn",
                   sig_of=lambda s, t, w: f"c17:h3-error-class:{s['cond']['k']}:{s['when']}")
    chk.exhaustive = False
    chk.distinct_nontrivial = len(scns) + len(cls)
    fams = {}
    for s in scns:
        fams[s.get("fam", "?")] = fams.get(s.get("fam", "?"), 0) + 1
    chk.notes["programs_by_family"] = fams
    chk.rule = ("real Quinn loopback connections; adapter as client and as server; bidirectional (split and unsplit) and unidirectional streams; peer stream windows {64, 1024, default} "
                "(random: 64..65536, connection window 200); frames with payloads from TLC's length set and random 0..6000 bytes (thorough: up to 256 KiB); overlapping send_data after 0 and 2 polls; "
                "identifier queries before I/O, between units, after a pending read, after FIN, after reset, after close; peer close / reset / stop with codes {0, 0x100, 0x10c, 2^62-1, random}; idle timeout; "
                "poll_send; datagrams both ways; the adapter's own close, reset and stop_sending; through h3 (both roles): idle timeout and application close with 7 codes at varint form "
                "boundaries arriving while h3 builds the connection (no uni-stream credit) or once established - every h3 result must carry the corresponding class (C17H_Trace)")
    chk.assumptions = ["Quinn (the transport itself) is correct", "loopback UDP delivers within 5 s (a longer wait is reported as a violation 'wait never ended')",
                       "datagram loss on loopback is tolerated (a missing datagram is not a violation)"]


def replay(path, chk):
    return common.replay_scenario(path, chk)
