"""X01 (beyond the listed properties) — client life cycle: the connection is closed with H3_NO_ERROR exactly when the last
SendRequest handle is dropped (ClientLife.tla model-checked; every interleaving replayed on the real client)."""
import vlib
from props import common


def sig(s, trace, why):
    return "x01:" + ("closed-with-live-handle" if "alive" in why else "not-closed-or-wrong-code")


def run(tier, chk):
    wd = vlib.workdir("X01")
    common.run_mc(chk, wd, "ClientLife", must_cover=("Clone", "Drop", "Driver"))
    k = 2 if tier == "quick" else 3
    if tier != "quick":
        # unbounded number of handles: the invariant behind ClosedOnlyWithoutHandles / OutcomeIffNone is inductive
        common.run_apalache(chk, wd, "ClientLifeInd", [("Init", "IndInv", 0, "initiation"), ("IndInit", "IndInv", 1, "consecution")])
    scns = common.gen_scenarios(chk, wd, "ClientLife_Gen", cfg_text="SPECIFICATION Spec\nCONSTANT K = 2\nINVARIANT Emit\nCHECK_DEADLOCK FALSE\n", workers=4)
    if k == 3:
        scns += common.gen_scenarios(chk, wd, "ClientLife_Gen", cfg_text="SPECIFICATION Spec\nCONSTANT K = 3\nINVARIANT Emit\nCHECK_DEADLOCK FALSE\n", workers=4, label="gen3")
    common.run_sim(chk, wd, scns, "ClientLife_Trace", shards=12, sig_of=sig)
    chk.exhaustive = True
    chk.distinct_nontrivial = len(scns)
    chk.rule = (f"0..{k} request tasks x (clone kept for the life of the request / until it is sent) x every interleaving of spawning, releasing, responses and the application dropping its own "
                "handle (after the spawns); plus a request attempted after the last handle went")
    chk.assumptions = ["not one of the 20 listed properties: evidence under extras/"]


def replay(path, chk):
    return common.replay_scenario(path, chk)
