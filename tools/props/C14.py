"""C14 — everything h3 writes is valid HTTP/3 (WireOut.tla judged on per-stream byte logs)."""
import vlib
from props import common, corpus


def sig(s, trace, why):
    if any(e.get("ev") == "panic" for e in trace):
        return "c14:panic"
    return f"c14:{s.get('part')}:{s.get('role')}:write{(s.get('cfg', {}).get('write') or s.get('cfg', {}).get('client', {}).get('write'))}"


def run(tier, chk):
    wd = vlib.workdir("C14")
    m = 3 if tier == "quick" else 4
    scns = common.gen_scenarios(chk, wd, "C14_Gen", cfg_text=f"SPECIFICATION Spec\nCONSTANT MaxCalls = {m}\nINVARIANT Emit\nCHECK_DEADLOCK FALSE\n", workers=8)
    for s in scns:
        s["cfg"]["setup_log"] = True
    common.run_sim(chk, wd, scns, "C14_Trace", shards=14, sig_of=sig)
    # the client<->server traffic of the C01 catalogue, with the wire logged
    pair = common.gen_scenarios(chk, wd, "C01_Gen", cfg_text=f'SPECIFICATION Spec\nCONSTANT Tier = "{tier}"\nINVARIANT Emit\nCHECK_DEADLOCK FALSE\n', workers=8, label="pgen")
    pair = [p for p in pair if sum(p["req"]["body"]) + sum(p["resp"]["body"]) < 5000]
    for p in pair:
        p["cfg"]["log_wrote"] = True
        p["cfg"]["setup_log"] = True
    common.run_sim(chk, wd, pair, "C14_Trace", label="psim", shards=14, sig_of=sig)
    if tier != "quick":
        # the scenario families of the other checks, judged by the same wire rules
        corpus.cross(chk, "C14", "C14_Trace", sig_of=lambda s, t, w: f"c14:corpus:{s.get('family')}:" + sig(s, t, w), exclude=("C14",))
    # WebTransport sessions whose server-opened streams are written 1 or 3 bytes at a time (the C19 scenarios with partial writes):
    # every stream the endpoint opens must still begin with a legal stream type / signal value
    wts = [w for w in common.gen_scenarios(chk, wd, "C19_Gen", workers=2, label="wtgen") if (w.get("cfg") or {}).get("write") in ("1", "3")]
    for w in wts:
        w["cfg"] = dict(w["cfg"], log_wrote=True, setup_log=True)
    common.run_sim(chk, wd, wts, "C14_Trace", label="wtsim", shards=2, sig_of=lambda s, t, w: "c14:webtransport-stream-header-under-partial-writes")
    # the real adapter: h3 (both roles) over h3-quinn against a RAW Quinn peer with tiny windows, which records what it reads per stream
    raws = []
    for role in ("client", "server"):
        for w in ([64, 200, 0] if tier == "quick" else [64, 100, 200, 1000, 4096, 0]):
            for body in ([], [1], [70], [1000, 0, 5], [5000]) + (() if tier == "quick" else ([16384], [3, 20000, 1])):
                raws.append({"fam": "H3RAW", "role": role, "win": {"stream": w}, "body": list(body), "id": f"raw-{len(raws)+1}"})
    common.run_sim(chk, wd, raws, "C14_Trace", label="raw", shards=6, runner="quinn", sig_of=lambda s, t, w: f"c14:quinn:{s['role']}:win{s['win']['stream']}")
    # binding A: the byte image of DATA frames whose payload buffer is not contiguous (two pieces), drained in several step sizes
    nv = common.run_vectors(chk, wd, "C14W_Gen", workers=2, label="wbuf", sig_of=lambda v, got: "wbuf:panic" if isinstance(got, dict) and "panic" in got else "wbuf:data-frame-image")
    chk.exhaustive = True
    chk.distinct_nontrivial = len(scns) + len(pair) + nv + len(wts) + len(raws)
    chk.rule = (f"API programs of up to {m} calls after the head (send_data 0/1/5/70 bytes, send_trailers, finish, drop) x shutdown(n in 0,1,15,4095: GOAWAY identifiers at varint form boundaries) x second request x 5 configurations "
                "(grease, 1- and 3-byte writes, uni-stream credit withheld then granted) for both roles against a scripted peer, plus the C01 client<->server catalogue; every stream's "
                "byte log judged by WireOut at quiescence; plus the WriteBuf image of DATA frames with a two-piece (non-contiguous) payload buffer, 4 x 5 piece lengths x 6 drain patterns")
    chk.assumptions = ["cancellation of a call in mid-write is outside the property's quantifier and not generated"]


def replay(path, chk):
    return common.replay_scenario(path, chk)
