"""Pieces shared by the vector-style (codec) checks."""
import json, os
import vlib


def validate_records(chk, wd, trace_module, recs, label, sig_of=None):
    """Validate harness records with a trace spec; every rejected record is reported (the spec skips it and goes on)."""
    path = os.path.join(wd, f"{label}.rec.ndjson")
    # a panic in the code under test is data: it is a violation by itself and never reaches the trace specification
    # (whose operators are defined on results, not on panic messages)
    total = len(recs)
    for x in recs:
        if isinstance(x.get("out"), dict) and "panic" in x["out"]:
            chk.violation(f"{x.get('fn')}:panic", f"{x.get('fn')} panicked: {str(x['out']['panic'])[:120]} on {json.dumps({k: v for k, v in x.items() if k != 'out'})[:200]}", {"kind": "record", "record": x})
    recs = [x for x in recs if not (isinstance(x.get("out"), dict) and "panic" in x["out"])]
    with open(path, "w") as f:
        for x in recs:
            f.write(json.dumps(x) + "\n")
    if recs:
        rej, r = vlib.validate_records(trace_module, path, name=f"{label}-validate", wd=wd)
        chk.add_tlc(f"{label}-validate", r)
        for pos in rej:
            bad = recs[pos - 1]
            if getattr(r, "why", {}).get(pos):
                bad = dict(bad, _why=r.why[pos])     # the specification's reason, for classification only
            sig = sig_of(bad) if sig_of else f"{bad['fn']}:record"
            chk.violation(sig, f"{bad['fn']} record not explained by the specification: {json.dumps(bad)[:300]}", {"kind": "record", "record": bad})
    chk.evaluations += total
    chk.traces += total
    return total


def run_vectors(chk, wd, gen_module, *, gen_cfg=None, env=None, workers=4, label="gen", sig_of=None, what_of=None, timeout=3600,
                trace_module=None, rec_sig_of=None):
    """Binding A for pure functions: TLC enumerates inputs + expected values, the harness executes and compares."""
    g = vlib.tlc(gen_module, gen_cfg, name=label, wd=wd, workers=workers, env=env, timeout=timeout)
    if not g.ok:
        raise vlib.ToolError(f"generator {gen_module} failed:\n{g.error}")
    chk.add_tlc(label, g)
    vec = os.path.join(wd, f"{label}.vec.ndjson")
    n = vlib.scn_extract(g.out_path, vec)
    if n == 0:
        raise vlib.ToolError(f"generator {gen_module} produced no vectors (vacuous)")
    out = os.path.join(wd, f"{label}.res.ndjson")
    vlib.h3v("codec", vec, out)
    summary = None
    per_fn = {}
    with open(vec) as f:
        for i, line in enumerate(f):
            fn = json.loads(line)["fn"] if i < 200000 and (i % 997 == 0 or i < 3) else None
            if fn and len(chk.samples) < 5 and fn not in per_fn:
                per_fn[fn] = 1
                chk.sample(json.loads(line))
    recs = []
    for r in vlib.read_ndjson(out):
        if r.get("summary"):
            summary = r
            continue
        if "rec" in r:
            recs.append(r["rec"])
            continue
        v = r["vec"]
        sig = sig_of(v, r["got"]) if sig_of else f"{v['fn']}"
        what = what_of(v, r["got"]) if what_of else f"{v['fn']} in={json.dumps(v.get('in'))[:120]} expected {json.dumps(v.get('exp'))[:160]} got {json.dumps(r['got'])[:160]}"
        chk.violation(sig, what, {"kind": "vector", "vector": v, "got": r["got"]})
    if summary is None or summary["vectors"] != n:
        raise vlib.ToolError("harness did not process every vector")
    chk.evaluations += n - len(recs)
    chk.traces += n - len(recs)
    if recs:
        if not trace_module:
            raise vlib.ToolError("records produced but no trace module given")
        chk.sample(recs[0])
        validate_records(chk, wd, trace_module, recs, label + "-rec", rec_sig_of)
    return n


def run_random(chk, wd, prop, trace_module, n, *, label="rand", shards=1, sig_of=None):
    """Binding B for pure functions: the harness drives random inputs, TLC judges every record."""
    total = 0
    for s in range(shards):
        out = os.path.join(wd, f"{label}{s}.ndjson")
        vlib.h3v("codec-rand", prop, vlib.seed() * 1000 + s, n, out)
        recs = list(vlib.read_ndjson(out))
        if recs:
            chk.sample(recs[0])
        total += validate_records(chk, wd, trace_module, recs, f"{label}{s}", sig_of or (lambda b: f"{b['fn']}:random"))
    return total


def replay_vector(path, chk):
    """Re-run one recorded vector / record against the rebuilt code and report whether it still fails."""
    obj = json.load(open(path))
    rep = obj["replay"]
    wd = vlib.workdir(chk.prop + "-replay")
    vec = os.path.join(wd, "one.ndjson")
    if rep["kind"] == "vector":
        json.dump(rep["vector"], open(vec, "w"))
        out = os.path.join(wd, "one.res")
        vlib.h3v("codec", vec, out)
        bad = [r for r in vlib.read_ndjson(out) if not r.get("summary")]
        if bad:
            print(f"VIOLATION property={chk.prop} replay={path}  # reproduced: got {json.dumps(bad[0]['got'])[:200]}")
            return 1
        print("replay: vector now matches the specification")
        return 0
    print("replay: record-type replays are validated by re-running the check")
    return 0


# ------------------------------------------------------------------------------------------------ scenarios
import re as _re
from concurrent.futures import ThreadPoolExecutor


def gen_scenarios(chk, wd, gen_module, *, cfg_text=None, label="gen", workers=8, timeout=3600, simulate=None, depth=None):
    """Run a generator spec; returns the list of scenarios (dicts) with ids assigned."""
    cfg = None
    if cfg_text:
        cfg = os.path.join(wd, f"{label}.cfg")
        open(cfg, "w").write(cfg_text)
    g = vlib.tlc(gen_module, cfg, name=label, wd=wd, workers=workers, timeout=timeout, simulate=simulate, depth=depth)
    if not g.ok:
        raise vlib.ToolError(f"generator {gen_module} failed:\n{g.error}")
    chk.add_tlc(label, g)
    raw = os.path.join(wd, f"{label}.scn.raw")
    n = vlib.scn_extract(g.out_path, raw)
    if n == 0:
        raise vlib.ToolError(f"generator {gen_module} produced no scenarios (vacuous)")
    scns = []
    seen = set()
    for i, line in enumerate(open(raw)):
        if simulate:
            h = hash(line)
            if h in seen:
                continue
            seen.add(h)
        s = json.loads(line)
        s["id"] = f"{label}-{i+1}"
        scns.append(s)
    return scns


def run_sim(chk, wd, scns, trace_module, *, label="sim", shards=12, sig_of=None, what_of=None, keep_traces=False, trace_cfg=None, runner="sim", env_extra=None, schedules=None):
    """Execute scenarios on the real code (h3v sim) and validate every recorded trace with a TLC trace spec.
    Scenarios the spec cannot explain become violations (with a self-contained replay file)."""
    if not scns:
        return 0
    # executor schedules: which of several woken tasks is polled next (lowest index first is the default)
    if schedules is not None:
        pols = schedules
    elif os.environ.get("VERIF_SCHEDS") is not None:
        pols = [p for p in os.environ["VERIF_SCHEDS"].split(",") if p]
    elif getattr(chk, "tier", "quick") == "quick":
        pols = ["hi"] if len(scns) <= 6000 else []
    else:
        pols = ["hi", f"rand:{vlib.seed()}", f"rand:{vlib.seed() + 1}"] if len(scns) <= 50000 else ["hi"]
    if runner == "sim" and hasattr(chk, "notes"):
        chk.notes.setdefault("executor_schedules", {})[label] = ["lo"] + list(pols)
    if pols and runner == "sim":
        extra = []
        for pol in pols:
            for s0 in scns:
                s1 = dict(s0)
                s1["cfg"] = dict(s0.get("cfg") or {}, sched=pol)
                s1["id"] = f"{s0['id']}@{pol}"
                extra.append(s1)
        scns = list(scns) + extra
    # exploration aid: deliver everything before the endpoint runs (events pile up between polls)
    if os.environ.get("VERIF_BATCH") and runner == "sim":
        extra = []
        for s0 in scns:
            st = s0.get("steps") or []
            if len(st) < 2 or s0.get("role") == "pair":
                continue
            s1 = dict(s0)
            s1["steps"] = [dict(x, no_run=True) for x in st[:-1]] + [st[-1]]
            s1["id"] = f"{s0['id']}@batch"
            extra.append(s1)
        scns = list(scns) + extra
    shards = max(1, min(shards, (len(scns) + 199) // 200))
    parts = [scns[i::shards] for i in range(shards)]
    by_id = {s["id"]: s for s in scns}

    def one(k):
        sf = os.path.join(wd, f"{label}.{k}.scn.ndjson")
        tf = os.path.join(wd, f"{label}.{k}.trace.ndjson")
        with open(sf, "w") as f:
            for s in parts[k]:
                f.write(json.dumps(s) + "\n")
        vlib.h3v(runner, sf, tf)
        r = vlib.tlc(trace_module, trace_cfg, name=f"{label}.{k}.validate", wd=wd, workers=1, env=dict({"TRACE": tf}, **(env_extra or {})), deque=True, xmx="3g")
        return k, tf, r

    with ThreadPoolExecutor(max_workers=min(shards, 14)) as ex:
        results = list(ex.map(one, range(shards)))
    nrej = 0
    for k, tf, r in results:
        if not r.ok:
            raise vlib.ToolError(f"trace validation {trace_module} shard {k} failed to run:\n{r.error}")
        chk.add_tlc(f"{label}.{k}-validate", r)
        rej = _re.findall(r'<<"REJECT", "([^"]+)", "((?:[^"\\]|\\.)*)">>', r.text)
        if rej:
            # slice the traces of the rejected scenarios out of the shard trace
            want = {sid for sid, _ in rej}
            traces, cur = {}, None
            for ev in vlib.read_ndjson(tf):
                if ev.get("ev") == "reset":
                    cur = ev.get("scn") if ev.get("scn") in want else None
                    if cur:
                        traces[cur] = []
                if cur:
                    traces[cur].append(ev)
            for sid, why in rej:
                nrej += 1
                s = by_id.get(sid, {})
                why = vlib._unesc.sub(lambda m: m.group(1), why)
                sig = sig_of(s, traces.get(sid, []), why) if sig_of else f"{label}:rejected"
                what = what_of(s, traces.get(sid, []), why) if what_of else f"scenario {sid} ({json.dumps({k: v for k, v in s.items() if k not in ('steps', 'handlers', 'default_handler', 'cfg')})[:200]}) is not a behaviour of {trace_module}: {why[:120]}"
                chk.violation(sig, what, {"kind": "scenario", "trace_module": trace_module, "trace_cfg": trace_cfg, "runner": runner, "env_extra": env_extra, "scenario": s, "trace": traces.get(sid, []), "why": why})
        if os.environ.get("VERIF_KEEP"):
            json.dump({"trace": tf, "trace_module": trace_module, "trace_cfg": trace_cfg, "runner": runner}, open(tf + ".meta.json", "w"))
        elif not keep_traces:
            try:
                os.remove(tf)
            except OSError:
                pass
    for s in scns[:2]:
        chk.sample({k: v for k, v in s.items() if k != "id"})
    chk.evaluations += len(scns)
    chk.traces += len(scns)
    return len(scns)


def replay_scenario(path, chk):
    obj = json.load(open(path))
    rep = obj["replay"]
    if rep.get("kind") != "scenario":
        return replay_vector(path, chk)
    wd = vlib.workdir(chk.prop + "-replay")
    n = run_sim(chk, wd, [rep["scenario"]], rep["trace_module"], label="replay", shards=1, keep_traces=True, trace_cfg=rep.get("trace_cfg"), runner=rep.get("runner", "sim"), env_extra=rep.get("env_extra"))
    if chk.violations:
        print(f"VIOLATION property={chk.prop} replay={path}  # reproduced: {chk.violations[0]['what'][:200]}")
        return 1
    print("replay: the recorded scenario is now a behaviour of the specification")
    return 0


def run_apalache(chk, wd, module, runs, *, timeout=900):
    """Unbounded design-level safety with Apalache: `runs` = [(init, inv, length, what)], every run must report NoError.
    The specification is independent of /repo; a failure is a defect of the specification (tool error), never a verdict on the code."""
    import subprocess, shutil, time
    src = os.path.join(vlib.ROOT, "spec", "apalache", module + ".tla")
    out = []
    for init, inv, length, what in runs:
        od = os.path.join(wd, f"apalache-{module}-{inv}-{length}")
        shutil.rmtree(od, ignore_errors=True)
        t = time.time()
        try:
            p = subprocess.run(["apalache-mc", "check", f"--init={init}", f"--inv={inv}", f"--length={length}", f"--out-dir={od}", src],
                               capture_output=True, text=True, timeout=timeout, cwd=wd)
        except subprocess.TimeoutExpired:
            raise vlib.ToolError(f"Apalache timed out after {timeout}s on {module} ({what})")
        okk = p.returncode == 0 and "The outcome is: NoError" in p.stdout
        out.append({"module": module, "init": init, "inv": inv, "length": length, "what": what, "ok": okk, "wall_s": round(time.time() - t, 1)})
        print(f"[apalache] {module} {what}: {'NoError' if okk else 'FAILED'} {time.time() - t:.1f}s", flush=True)
        shutil.rmtree(od, ignore_errors=True)
        if not okk:
            raise vlib.ToolError(f"Apalache: {what} of {module} failed (the specification itself is wrong):\n{p.stdout[-1500:]}")
    chk.notes.setdefault("apalache", []).extend(out)
    return out


def run_mc(chk, wd, module, cfg=None, *, label="mc", workers=4, must_cover=()):
    """Design-level model checking of a system spec (invariants + temporal properties); vacuity = tool error."""
    r = vlib.tlc(module, cfg, name=label, wd=wd, workers=workers, coverage=True)
    if not r.ok:
        raise vlib.ToolError(f"design-level model checking of {module} failed (the specification itself violates its properties):\n{r.error}")
    for a in must_cover:
        if r.coverage.get(a, 0) == 0:
            raise vlib.ToolError(f"vacuity: action {a} of {module} was never taken")
    chk.add_tlc(label, r)
    return r
