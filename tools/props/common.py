"""Pieces shared by the vector-style (codec) checks."""
import json, os
import vlib


def run_vectors(chk, wd, gen_module, *, gen_cfg=None, env=None, workers=4, label="gen", sig_of=None, what_of=None, timeout=3600):
    """Binding A for pure functions: TLC enumerates inputs + expected values, the harness executes and compares."""
    g = vlib.tlc(gen_module, gen_cfg, name=label, wd=wd, workers=workers, env=env, timeout=timeout)
    if not g.ok:
        raise vlib.ToolError(f"generator {gen_module} failed:\n{g.error}")
    chk.add_tlc(label, g)
    vec = os.path.join(wd, f"{label}.vec.ndjson")
    n = vlib.scn_extract(g.out_path, vec)
    if n == 0:
        raise vlib.ToolError(f"generator {gen_module} produced no vectors (vacuous)")
    out = os.path.join(wd, f"{label}.res.ndjson")
    vlib.h3v("codec", vec, out)
    summary = None
    per_fn = {}
    with open(vec) as f:
        for i, line in enumerate(f):
            fn = json.loads(line)["fn"] if i < 200000 and (i % 997 == 0 or i < 3) else None
            if fn and len(chk.samples) < 5 and fn not in per_fn:
                per_fn[fn] = 1
                chk.sample(json.loads(line))
    for r in vlib.read_ndjson(out):
        if r.get("summary"):
            summary = r
            continue
        v = r["vec"]
        sig = sig_of(v, r["got"]) if sig_of else f"{v['fn']}"
        what = what_of(v, r["got"]) if what_of else f"{v['fn']} in={json.dumps(v.get('in'))[:120]} expected {json.dumps(v['exp'])[:160]} got {json.dumps(r['got'])[:160]}"
        chk.violation(sig, what, {"kind": "vector", "vector": v, "got": r["got"]})
    if summary is None or summary["vectors"] != n:
        raise vlib.ToolError("harness did not process every vector")
    chk.evaluations += n
    chk.traces += n
    return n


def run_random(chk, wd, prop, trace_module, n, *, label="rand", shards=1):
    """Binding B for pure functions: the harness drives random inputs, TLC judges every record."""
    total = 0
    for s in range(shards):
        out = os.path.join(wd, f"{label}{s}.ndjson")
        vlib.h3v("codec-rand", prop, vlib.seed() * 1000 + s, n, out)
        ok, pos, r = vlib.validate_trace(trace_module, out, name=f"{label}{s}", wd=wd)
        chk.add_tlc(f"{label}{s}-validate", r)
        recs = list(vlib.read_ndjson(out))
        total += len(recs)
        if recs:
            chk.sample(recs[0])
        while not ok:
            bad = recs[pos - 1]
            chk.violation(f"{bad['fn']}:random", f"{bad['fn']} in={json.dumps(bad.get('in'))[:120]} out={json.dumps(bad['out'])[:200]} not explained by the definition",
                          {"kind": "record", "record": bad})
            # cut the rejected record out and validate the rest, so one rejection never hides the others
            recs = recs[pos:]
            if not recs or len(chk.violations) > 25:
                break
            with open(out, "w") as f:
                for x in recs:
                    f.write(json.dumps(x) + "\n")
            ok, pos, r = vlib.validate_trace(trace_module, out, name=f"{label}{s}", wd=wd)
    chk.evaluations += total
    chk.traces += total
    return total


def replay_vector(path, chk):
    """Re-run one recorded vector / record against the rebuilt code and report whether it still fails."""
    obj = json.load(open(path))
    rep = obj["replay"]
    wd = vlib.workdir(chk.prop + "-replay")
    vec = os.path.join(wd, "one.ndjson")
    if rep["kind"] == "vector":
        json.dump(rep["vector"], open(vec, "w"))
        out = os.path.join(wd, "one.res")
        vlib.h3v("codec", vec, out)
        bad = [r for r in vlib.read_ndjson(out) if not r.get("summary")]
        if bad:
            print(f"VIOLATION property={chk.prop} replay={path}  # reproduced: got {json.dumps(bad[0]['got'])[:200]}")
            return 1
        print("replay: vector now matches the specification")
        return 0
    print("replay: record-type replays are validated by re-running the check")
    return 0
