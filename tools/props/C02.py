"""C02 — frame segmentation (RFC 9114 7.1) through the real FrameStream vs. H3Frame!Observe, all chunkings."""
import json, os
import vlib
from props import common


def sig(v, got):
    w = v["wire"]
    fin = v["exp"]["final"]
    g = got.get("final", {}).get("t", {}) if isinstance(got, dict) else {}
    if isinstance(got, dict) and "panic" in got:
        return "frames:harness-level-panic"
    # classify by what went wrong, not by the input
    inter_bad = "inter"
    if g.get("term") == "panic":
        return f"frames:panic-in-{g.get('at')}"
    return f"frames:exp-{fin['term']}-got-{g.get('term')}-{g.get('code', '')}"


def run(tier, chk):
    wd = vlib.workdir("C02")
    depth = 2 if tier == "quick" else 2
    shards = 1 if tier == "quick" else 1
    total = 0
    for sh in range(shards):
        cfg = os.path.join(wd, f"gen{sh}.cfg")
        open(cfg, "w").write(f"SPECIFICATION Spec\nCONSTANTS Depth = {depth}\n Shard = {sh}\n NShards = {shards}\n"
                             "INVARIANT Emit\nINVARIANT PrefixConsistent\nCHECK_DEADLOCK FALSE\n")
        total += common.run_vectors(chk, wd, "C02_Gen", gen_cfg=cfg, workers=8, label=f"gen{sh}", sig_of=sig)
    nr = common.run_random(chk, wd, "C02", "C02_Trace", 1500 if tier == "quick" else 20000, shards=1 if tier == "quick" else 8,
                           sig_of=lambda b: "frames:random")
    # (ii) the same rules at connection level: request streams of a real server / client incl. truncated frames
    #      (observing the error code that reaches the transport), judged by RequestRecv / C03_Trace
    scns = common.gen_scenarios(chk, wd, "C03_Gen", cfg_text="SPECIFICATION Spec\nCONSTANT N = 3\nINVARIANT Emit\nCHECK_DEADLOCK FALSE\n", workers=8, label="cgen")
    #      and request streams split by the application inside a DATA frame (the position inside the frame must survive the split)
    scns = [s for s in scns if {"PD", "PX", "Un", "U0", "H2"} & set(s.get("letters", [])) or s.get("split") == "mid"]
    common.run_sim(chk, wd, scns, "C03_Trace", label="csim", shards=12,
                   sig_of=lambda s, t, w: "frames:connection-level:" + ("split-inside-frame" if s.get("split") == "mid" else "truncated" if {"PD", "PX"} & set(s.get("letters", [])) else "unknown-or-reserved"))
    total += len(scns)
    chk.exhaustive = True
    chk.distinct_nontrivial = total + nr
    chk.rule = ("wires = up to 2 frame templates (every known type, H2-reserved, reserved and unknown types; 1/2/4-byte length forms; payload exact, "
                "one byte long, one short, empty; varint fields in all four forms) x every truncation x chunkings {whole, bytewise, every single "
                "split} x {clean end, still open}; expected observation after every chunk and at the end from H3Frame!Observe. Plus seeded random "
                "grammar-directed wires up to ~2 KiB in random chunkings validated by C02_Trace. Every scenario is a distinct (wire, chunking, fin).")
    chk.assumptions = ["FrameStreamError -> code mapping of the call sites (UnexpectedEnd -> H3_FRAME_ERROR, Proto -> got_frame_error) is applied by the harness; "
                       "the connection-level codes are checked again through C03/C04 scenarios",
                       "how eagerly a partially received DATA payload is handed out is not compared (prefix while open, exact at clean end)"]


def replay(path, chk):
    return common.replay_vector(path, chk)
