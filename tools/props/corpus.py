"""The corpus: the scenario families of all simulator-based checks, collected so that one property's (generic) trace
specification can judge executions that were designed for another property (DESIGN.md section 5).

`build()` runs the other checks' `run()` in capture mode: generators run (TLC), nothing is executed or judged; the
scenario lists that would have gone to `common.run_sim(..., runner="sim")` are returned instead."""
import importlib, os, random
import vlib
from props import common

FAMILIES = ["C01", "C03", "C04", "C06", "C07", "C08", "C09", "C10", "C12", "C13", "C14", "C19"]


class _Sink:
    """stands in for vlib.Check while capturing"""
    def __init__(self):
        self.notes, self.assumptions, self.samples, self.items, self.violations = {}, [], [], [], []
        self.states = self.transitions = self.traces = self.evaluations = self.distinct_nontrivial = 0
        self.exhaustive, self.rule, self.prop, self.tier = None, "", "corpus", "quick"

    def add_tlc(self, *a, **k): pass
    def sample(self, *a, **k): pass
    def violation(self, *a, **k): pass


def build(owner, tier="quick", cap=4000, exclude=()):
    captured = []
    real = {k: getattr(common, k) for k in ("run_sim", "run_vectors", "run_random", "validate_records", "run_mc")}
    real_wd = vlib.workdir
    fam = [None]

    def cap_run_sim(chk, wd, scns, trace_module, *, runner="sim", **kw):
        if runner == "sim":
            for s in scns:
                captured.append((fam[0], s))
        return len(scns)

    def noop(*a, **k):
        return 0

    try:
        common.run_sim = cap_run_sim
        common.run_vectors = common.run_random = common.validate_records = noop
        common.run_mc = lambda *a, **k: None
        vlib.workdir = lambda prop: real_wd(f"{owner}-corpus-{prop}")
        for f in FAMILIES:
            if f in exclude:
                continue
            fam[0] = f
            mod = importlib.import_module(f"props.{f}")
            mod.run(tier, _Sink())
    finally:
        for k, v in real.items():
            setattr(common, k, v)
        vlib.workdir = real_wd
    rng = random.Random(vlib.seed())
    by = {}
    for f, s in captured:
        by.setdefault(f, []).append(s)
    out = []
    for f, ss in by.items():
        if len(ss) > cap:
            ss = rng.sample(ss, cap)
        for s in ss:
            s = dict(s)
            s["id"] = f"{f}.{s.get('id')}"
            s["family"] = f
            if s.get("role") in ("server", "client"):
                cfg = dict(s.get("cfg") or {})
                cfg["log_wrote"] = True
                cfg["setup_log"] = True
                s["cfg"] = cfg
            out.append(s)
    return out, {f: len(ss) for f, ss in by.items()}


def cross(chk, owner, trace_module, *, trace_cfg=None, sig_of=None, tier="quick", cap=4000, exclude=(), label="corpus", env_extra=None):
    """Judge the corpus with `trace_module`; rejected scenarios are violations of the calling property."""
    scns, sizes = build(owner, tier, cap, exclude)
    wd = vlib.workdir(f"{owner}-corpus")
    n = common.run_sim(chk, wd, scns, trace_module, label=label, shards=12, sig_of=sig_of, trace_cfg=trace_cfg, env_extra=env_extra, schedules=[])
    chk.notes["corpus"] = {"families": sizes, "executed": n, "judged_by": trace_module}
    return n
