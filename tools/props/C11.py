"""C11 — stateless QPACK field sections: h3's encoder and decoder vs. QpackBlock.tla (RFC 9204 4.5)."""
import os
import vlib
from props import common


def sig(v, got):
    if isinstance(got, dict) and "panic" in got:
        return f"{v['fn']}:panic"
    if v["fn"] == "qdec":
        e = v["exp"]
        if e["v"] == "reject" and got.get("ok"):
            why = e.get("why", "?")
            if why in ("padding-too-long", "eos-symbol"):
                return "qdec:accepts:huffman-" + why
            return "qdec:accepts:" + why
        if e["v"] == "ok" and not got.get("ok"):
            return "qdec:rejects-valid"
        return "qdec:wrong-fields"
    return v["fn"]


def rec_sig(r):
    if r["fn"] == "qenc":
        return "qenc:not-decodable-to-input"
    if r["fn"] == "qdec" and isinstance(r.get("out"), dict) and r["out"].get("ok"):
        if r.get("_why") in ("padding-too-long", "eos-symbol"):
            return "qdec:accepts:huffman-" + r["_why"]      # the all-ones cases of known finding D11b
        return "qdec:accepts-invalid:random" + (":" + r["_why"] if r.get("_why") else "")
    return f"{r['fn']}:record"


def run(tier, chk):
    wd = vlib.workdir("C11")
    cfgp = os.path.join(wd, "gen.cfg")
    open(cfgp, "w").write(f'SPECIFICATION Spec\nCONSTANT Tier = "{tier}"\nINVARIANT Emit\nCHECK_DEADLOCK FALSE\n')
    n = common.run_vectors(chk, wd, "C11_Gen", gen_cfg=cfgp, workers=6, sig_of=sig, trace_module="C11_Trace", rec_sig_of=rec_sig)
    nr = common.run_random(chk, wd, "C11", "C11_Trace", 800 if tier == "quick" else 20000, shards=1 if tier == "quick" else 6, sig_of=rec_sig)
    # connection level: the same kinds of invalid sections as request head, response head and trailers, both roles
    cs = common.gen_scenarios(chk, wd, "C11C_Gen", workers=2, label="cgen")
    common.run_sim(chk, wd, cs, "C11C_Trace", label="csim", shards=4, sig_of=lambda s, t, w: f"c11:conn-level:{s.get('role')}:{s.get('pos')}")
    chk.exhaustive = True
    chk.distinct_nontrivial = n + nr + len(cs)
    chk.rule = ("decode: every byte string of 0..2 bytes after the prefix 00 00, 0..1 bytes after 10 odd prefixes, every first byte x 10 tails, all 99 static indices, index edges "
                "(61..63, 97..100, over-long encodings), every truncation / bit mutation / trailing garbage of 7 valid encodings; encode: 48 name x value fields alone and in lists "
                "with repetition, all 99 static entries; plus seeded random field lists (arbitrary bytes, lengths up to 300) and random byte strings")
    chk.assumptions = ["h3 advertises no dynamic table capacity, so the RFC 9204 decoder with capacity 0 is the reference"]


def replay(path, chk):
    return common.replay_vector(path, chk)
