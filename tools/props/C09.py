"""C09 — shutdown drains: accept() ends exactly when all accepted requests have (Shutdown.tla liveness on traces)."""
import vlib
from props import common


def sig(s, trace, why):
    if any(e.get("ev") == "panic" for e in trace):
        return "c09:panic"
    if "in progress" in why:
        return "c09:accept-ended-with-request-in-progress"
    kinds = s.get("kinds", [])
    early = sorted({k for k in kinds if k in ("dropres", "heldres", "finfirst", "resetfirst", "malformed", "hdrreset")})
    return "c09:accept-never-ends:" + ("+".join(early) or "other")


def run(tier, chk):
    wd = vlib.workdir("C09")
    common.run_mc(chk, wd, "Shutdown_MC", must_cover=("AppShutdown", "Accept", "AcceptNone", "PeerGoaway", "ReqEnd"))
    n = 2 if tier == "quick" else 3
    scns = common.gen_scenarios(chk, wd, "Shutdown_Gen", cfg_text=f'SPECIFICATION Spec\nCONSTANTS Mode = "C09"\n Len8 = 0\n NReq9 = {n}\nINVARIANT Emit\nCHECK_DEADLOCK FALSE\n', workers=8)
    common.run_sim(chk, wd, scns, "Shutdown_Trace", trace_cfg="Shutdown_Trace_C09", shards=14, sig_of=sig)
    chk.exhaustive = True
    chk.distinct_nontrivial = len(scns)
    chk.rule = (f"0..{n} accepted requests, each ending in one of 9 ways (normal, resolver dropped, resolver/stream held then released, split halves dropped separately, "
                "FIN before HEADERS, RESET before/after HEADERS, malformed headers) x peer GOAWAY at every position x release order; safety at every accept()->None, "
                "liveness at executor quiescence")
    chk.assumptions = ["a request has ended when every task holding one of its handles has finished (task_start/task_end events of the harness)",
                       "quiescence of the deterministic executor = nothing can ever happen without new input"]


def replay(path, chk):
    return common.replay_scenario(path, chk)
