"""C13 — SETTINGS sent for every builder configuration and received payloads applied exactly (C13_Trace)."""
import vlib
from props import common


def sig(s, trace, why):
    if any(e.get("ev") == "panic" for e in trace):
        p = [e for e in trace if e.get("ev") == "panic"][0]
        if s.get("part") == "S":
            return "c13:S:panic-in-setup:" + ("unrepresentable-value" if "Err" in p.get("msg", "") or "unwrap" in p.get("msg", "") else "other")
        return "c13:R:panic"
    return f"c13:{s.get('part')}:{s.get('role')}"


def run(tier, chk):
    wd = vlib.workdir("C13")
    n = 1 if tier == "quick" else 2
    scns = common.gen_scenarios(chk, wd, "C13_Gen", cfg_text=f"SPECIFICATION Spec\nCONSTANT Entries = {n}\nINVARIANT Emit\nCHECK_DEADLOCK FALSE\n", workers=8)
    common.run_sim(chk, wd, scns, "C13_Trace", shards=14, sig_of=sig)
    chk.exhaustive = True
    chk.distinct_nontrivial = len(scns)
    chk.rule = ("sending: every builder configuration (booleans x grease x two numeric settings over 11 boundary values incl. 2^62 and 2^64-1) for both roles; "
                f"receiving: SETTINGS payloads of up to {n} entries over 14 identifiers x 7 values (+ non-minimal varint forms), truncated at every byte, both roles, followed by a probe "
                "message whose size straddles the advertised limit; every known identifier listed twice")
    chk.assumptions = ["an omitted setting counts as its protocol default (effective values are compared)",
                       "a configured value >= 2^62 may be refused cleanly or clamped to 2^62-1"]


def replay(path, chk):
    return common.replay_scenario(path, chk)
