"""C08 — GOAWAY identifiers and the accept/reject line (server) + received GOAWAY handling (client)."""
import vlib
from props import common, corpus


def sig(s, trace, why):
    if any(e.get("ev") == "panic" for e in trace):
        return "c08:panic"
    w = why[:60]
    if "shown at or above" in why:
        return "c08:stream-at-or-above-goaway-id-served"
    if "invariant after GOAWAY" in why:
        return "c08:goaway-id-not-above-served-streams"
    if "stopped with another code" in why:
        return "c08:refused-request-stopped-with-another-code"
    if "refused" in why:
        return "c08:stream-below-line-refused"
    return "c08:" + w


def run(tier, chk):
    wd = vlib.workdir("C08")
    common.run_mc(chk, wd, "Shutdown_MC", must_cover=("AppShutdown", "Accept", "AcceptNone", "PeerGoaway", "ReqEnd"))
    n = 5 if tier == "quick" else 6
    scns = common.gen_scenarios(chk, wd, "Shutdown_Gen", cfg_text=f'SPECIFICATION Spec\nCONSTANTS Mode = "C08"\n Len8 = {n}\n NReq9 = 0\nINVARIANT Emit\nCHECK_DEADLOCK FALSE\n', workers=8)
    common.run_sim(chk, wd, scns, "Shutdown_Trace", trace_cfg="Shutdown_Trace_C08", shards=14, sig_of=sig)
    cl = common.gen_scenarios(chk, wd, "GoawayRecv_Gen", label="cgen", workers=4)
    common.run_sim(chk, wd, cl, "C04_Trace", label="csim", shards=6, sig_of=lambda s, t, w: "c08:client-goaway-sequence")
    if tier != "quick":
        # unbounded (any stream ids, any n): the invariant behind RequestIds / Line is inductive, the announced identifier never grows
        common.run_apalache(chk, wd, "ShutdownInd", [("Init", "IndInv", 0, "initiation"), ("IndInit", "IndInv", 1, "consecution"),
                                                      ("IndInit", "Safety", 0, "IndInv implies RequestIds and Line"),
                                                      ("IndInit", "LimitNeverGrows", 1, "action property NonIncreasing")])
        # every scenario family of the simulator-based checks: GOAWAY identifiers written on the control stream never grow (H3Conn_Trace)
        corpus.cross(chk, "C08", "H3Conn_Trace", env_extra={"INV": "GOAWAY"}, sig_of=lambda s, t, w: "c08:corpus:goaway-id-grows-on-the-wire")
    chk.exhaustive = True
    chk.distinct_nontrivial = len(scns) + len(cl)
    chk.rule = (f"server: every history of length <= {n} over (arrival of stream 0/4/8 in any order, shutdown(0..2) at most twice); "
                "client: every sequence of up to 3 received GOAWAY identifiers over {0,4,8,1,2,3,2^62-4,2^62-1} followed by a probe request; "
                "design-level: Shutdown.tla model-checked (invariants + Drains liveness) for Ids={0,4,8}, n<=2")
    chk.assumptions = ["a stream is counted as refused when h3 resets it with H3_REQUEST_REJECTED",
                       "GOAWAY identifiers are parsed from the server's control stream bytes by H3Frame!Observe"]


def replay(path, chk):
    return common.replay_scenario(path, chk)
