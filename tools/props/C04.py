"""C04 — control / unidirectional stream rules at the real server and client vs. PeerStreams.tla."""
import json
import vlib
from props import common


def sig(s, trace, why):
    if any(e.get("ev") == "panic" for e in trace):
        return "c04:panic"
    closes = [e["code"] for e in trace if e.get("ev") == "h3_close"]
    cfg = s.get("cfg", {})
    feat = "credit3+grease" if cfg.get("uni_credit") == 3 and cfg.get("grease") else "cfg"
    if s.get("part") == "C":
        return f"c04:C:{s.get('role')}:chunking:close-{closes[0] if closes else 'none'}"
    if s.get("part") == "A":
        return f"c04:A:{s.get('role')}:{feat}:close-{closes[0] if closes else 'none'}"
    return f"c04:B:{s.get('role')}:close-{closes[0] if closes else 'none'}"


def run(tier, chk):
    wd = vlib.workdir("C04")
    m, k, mc, pairs = (2, 2, 2, "FALSE") if tier == "quick" else (3, 3, 2, "TRUE")
    scns = common.gen_scenarios(chk, wd, "C04_Gen", cfg_text=f"SPECIFICATION Spec\nCONSTANTS M = {m}\n K = {k}\n MC = {mc}\n Pairs = {pairs}\nINVARIANT Emit\nCHECK_DEADLOCK FALSE\n", workers=8)
    common.run_sim(chk, wd, scns, "C04_Trace", shards=14, sig_of=sig)
    chk.exhaustive = True
    chk.distinct_nontrivial = len(scns)
    chk.rule = (f"part A: every control frame sequence up to length {m} over a 14-letter alphabet x (open, FIN, RESET) x (server, client) x 4 sending-side configurations "
                f"(grease, 3 or ample uni credit, whole or 1-byte writes, credit granted late); part B: every ordered {k}-tuple of 16 stream scripts in every interleaving; "
                f"part C: SETTINGS + every sequence of up to {mc} frames over (unknown frames with payload in 1- and 2-byte type form, GOAWAY, MAX_PUSH_ID, second SETTINGS) cut at every single position"
                f"{', every pair of positions' if pairs == 'TRUE' else ''} and into single bytes, open or FIN; "
                "each executed on the real endpoint, the trace validated by C04_Trace at every quiescent point")
    chk.assumptions = ["push streams and CANCEL_PUSH to a client are unconstrained (R2)", "unknown frame before SETTINGS is skipped, as the property states"]


def replay(path, chk):
    return common.replay_scenario(path, chk)
