"""C16 — QUIC variable-length integers and stream-id arithmetic vs. the RFC 9000 definitions in TLA+."""
import vlib
from props import common


def run(tier, chk):
    wd = vlib.workdir("C16")
    n = common.run_vectors(chk, wd, "C16_Gen", workers=4)
    nr = common.run_random(chk, wd, "C16", "C16_Trace", 4000 if tier == "quick" else 60000, shards=1 if tier == "quick" else 4)
    chk.exhaustive = True
    chk.distinct_nontrivial = n + nr
    chk.rule = ("TLC enumerates every 1- and 2-byte string, every form (minimal or not) and every truncation of the boundary "
                "values, all values 0..65536 and boundary values for encoding, stream ids of all four kinds x boundary indices x "
                "increments up to 2^64-1, each with the value computed by Varint.tla / StreamIdSpec.tla; plus seeded random "
                "62/64-bit values judged by C16_Trace. Every vector is a distinct input.")
    chk.assumptions = ["U64.tla byte arithmetic is correct (self-checked by ASSUME round-trip theorems in C16_Gen)",
                       "initiator/direction are observed through Display for StreamId (the accessor methods are crate-private)"]


def replay(path, chk):
    return common.replay_vector(path, chk)
