"""C15 — Huffman string literals and prefixed integers vs. Huffman.tla / PrefixInt.tla (RFC 7541 5.1, 5.2)."""
import vlib
from props import common


def sig(v, got):
    fn = v["fn"]
    if isinstance(got, dict) and "panic" in got:
        return f"{fn}:panic"
    if fn == "sdec":
        inp = v["in"]
        if v["exp"]["v"] == "reject" and got.get("ok"):
            return "sdec:accepts:" + v["exp"].get("why", "?")
        return "sdec:wrong-result"
    if fn == "idec":
        return "idec:accepts-invalid" if v["exp"]["v"] == "reject" else "idec:wrong-result"
    return fn


def rec_sig(r):
    """signature of a rejected record (classification only; the verdict is TLC's)"""
    if r["fn"] == "sdec" and isinstance(r.get("out"), dict) and r["out"].get("ok"):
        b = r["in"]
        # payload = everything after the length prefix; count the trailing one bits
        bits = "".join(format(x, "08b") for x in b[1:]) if len(b) > 1 else ""
        t = len(bits) - len(bits.rstrip("1"))
        if t >= 30:
            return "sdec:accepts:eos-symbol"
        if t >= 8:
            return "sdec:accepts:padding-too-long"
        return "sdec:accepts-invalid"
    return f"{r['fn']}:record"


def run(tier, chk):
    wd = vlib.workdir("C15")
    cfg = f'SPECIFICATION Spec\nCONSTANT Tier = "{tier}"\nINVARIANT Emit\nCHECK_DEADLOCK FALSE\n'
    import os
    cfgp = os.path.join(wd, "gen.cfg")
    open(cfgp, "w").write(cfg)
    n = common.run_vectors(chk, wd, "C15_Gen", gen_cfg=cfgp, workers=6, sig_of=sig, trace_module="C15_Trace", rec_sig_of=rec_sig)
    nr = common.run_random(chk, wd, "C15", "C15_Trace", 1200 if tier == "quick" else 30000, shards=1 if tier == "quick" else 6, sig_of=rec_sig)
    chk.exhaustive = True
    chk.distinct_nontrivial = n + nr
    chk.rule = ("decode: every Huffman-flagged payload of 0..2 bytes, every padding of 0..9 bits in every bit pattern (and longer all-ones/single-zero paddings) after a symbol of "
                "every code length, EOS inside, raw and truncated literals; encode: every string of length 0..2 and prefix sizes 2..8 (judged by oracle decoding); integers: prefix sizes "
                "1..8 x first bytes x continuation patterns, long runs to the overflow bound, boundary values encoded; plus seeded random strings up to 300 bytes and random integers")
    chk.assumptions = ["the hook re-exports qpack::verif::{prefix_int,prefix_string} expose the unmodified private functions"]


def replay(path, chk):
    return common.replay_vector(path, chk)
