"""C18 — HTTP Datagram encode / decode / Buf view vs. Datagram.tla (RFC 9297 section 2.1)."""
import json
import vlib
from props import common


def sig(v, got):
    if v["fn"] == "dgenc":
        exp = v["exp"]["bytes"]
        gb = got.get("bytes") if isinstance(got, dict) else None
        if gb is not None and len(gb) == len(exp):
            hl = len(exp) - len(v["payload"])
            if gb[hl:] == exp[hl:] and all(x == 0 for x in gb[:hl]):
                return "dgenc:quarter-id-bytes-zero"
            if gb[hl:] == exp[hl:]:
                return "dgenc:wrong-quarter-id"
        return "dgenc:other"
    if v["fn"] == "dgdec":
        if isinstance(got, dict) and "panic" in got:
            return "dgdec:panic"
        return "dgdec:" + ("accepts-invalid" if not v["exp"]["ok"] else "wrong-result")
    return v["fn"]


def rec_sig(r):
    if r["fn"] == "dgcons":
        return "dgcons:buf-view"
    return r["fn"] + ":record"


def run(tier, chk):
    wd = vlib.workdir("C18")
    n = common.run_vectors(chk, wd, "C18_Gen", workers=4, sig_of=sig, trace_module="C18_Trace", rec_sig_of=rec_sig)
    nr = common.run_random(chk, wd, "C18", "C18_Trace", 3000 if tier == "quick" else 40000, shards=1 if tier == "quick" else 4,
                           sig_of=lambda b: sig(b, b["out"]) if False else f"{b['fn']}:random")
    # connection level (RFC 9297 2.1 "connection error of type H3_DATAGRAM_ERROR"): DatagramSender / DatagramReader of a real h3
    # client and server over h3-quinn against a raw Quinn peer, judged by C18D_Trace with the same Datagram.tla operators
    dg = common.gen_scenarios(chk, wd, "C18D_Gen", workers=2, label="dgen", cfg_text="SPECIFICATION Spec\nINVARIANT Emit\nCHECK_DEADLOCK FALSE\n")
    common.run_sim(chk, wd, dg, "C18D_Trace", label="quinn", shards=4, runner="quinn",
                   sig_of=lambda s, t, w: "c18:connection:" + ("panic" if any(e.get("ev") == "panic" for e in t) else "sending" if "what the peer read" in w else "receiving"))
    chk.exhaustive = True
    chk.distinct_nontrivial = n + nr + len(dg)
    chk.rule = ("TLC enumerates quarter stream ids 0..65536 and every varint form boundary up to 2^60-1 x 5 payloads (and a 1500-byte payload "
                "at the boundaries), all byte strings of length 0..2 and first-byte x tail patterns up to 9 bytes for decoding, and every "
                "composition of advance() sizes over datagrams with payloads <= 3 bytes; expected values from Datagram.tla. Consumption runs and "
                "seeded random datagrams are recorded from the real code and validated by C18_Trace. Connection level over real Quinn, both roles: 6 lists of sent datagrams "
                "(ids at every varint form boundary, empty / 1000-byte payloads, a repeated datagram), every valid form of a received datagram (minimal and non-minimal), "
                "9 invalid ones (empty, truncated in every form, quarter id 2^60 and above) alone and after valid ones; judged by C18D_Trace.")
    chk.assumptions = ["decode error code read from the Debug rendering of InternalConnectionError (its fields are crate-private)"]


def replay(path, chk):
    return common.replay_vector(path, chk)
