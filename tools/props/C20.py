"""C20 — stateful QPACK encoder and decoder stay in agreement (QpackDyn.tla reference model, C20_Trace)."""
import random
import vlib
from props import common


def sig(s, trace, why):
    if any(e.get("ev") == "panic" for e in trace):
        return "c20:panic"
    w = why[:70]
    if "not reported as blocked" in why:
        import json as _j
        try:
            t = _j.loads(why)
            lag, me = t[t.index("lag") + 1], t[t.index("max_entries") + 1]
            if lag > me:
                return "c20:not-blocked:decoder-behind-by-more-than-max-entries"
        except Exception:
            pass
        return "c20:not-blocked"
    for key in ("evicted", "different field list", "not decodable", "missing", "differs", "exceeds", "malformed", "partial"):
        if key in why:
            return "c20:" + key.replace(" ", "-")
    return "c20:" + w


NAMES = [b"a", b"bb", b"n3", b"content-type", b":method", b"x-long-name-0123456789"]
VALUES = [b"1", b"22", b"zz", b"GET", b"text/plain", b"v" * 30, b""]


def workload(rnd, i):
    cap = rnd.choice([0, 33, 35, 40, 48, 63, 64, 70, 80, 100, 150, 300, 4096])
    mb = rnd.choice([0, 1, 2, 100])
    ops = []
    outstanding = []
    nsec = rnd.randint(1, 40)
    streams = [4, 8, 12, 16]
    nxt = 20
    for _ in range(nsec):
        s = rnd.choice(streams)
        nf = rnd.randint(1, 3)
        fields = [[list(rnd.choice(NAMES[:4] if rnd.random() < 0.8 else NAMES)), list(rnd.choice(VALUES[:3] if rnd.random() < 0.7 else VALUES))] for _ in range(nf)]
        ops.append({"op": "encode", "stream": s, "fields": fields})
        outstanding.append(s)
        # delivery schedule: immediate, delayed, partial, acks withheld
        for _ in range(rnd.randint(0, 4)):
            k = rnd.random()
            if k < 0.35:
                ops.append({"op": "deliver_enc"} if rnd.random() < 0.7 else {"op": "deliver_enc", "n": rnd.randint(1, 12)})
            elif k < 0.6 and outstanding:
                ops.append({"op": "decode", "stream": rnd.choice(outstanding)})
            elif k < 0.8 and outstanding:
                s2 = rnd.choice(outstanding)
                ops.append({"op": "decode", "stream": s2})
                if rnd.random() < 0.8:
                    ops.append({"op": "deliver_enc"})
                    ops.append({"op": "decode", "stream": s2})
                    ops.append({"op": "ack", "stream": s2})
                    outstanding.remove(s2)
            elif k < 0.95:
                ops.append({"op": "deliver_dec"})
            elif outstanding:
                s2 = rnd.choice(outstanding)
                ops.append({"op": "cancel", "stream": s2})
                outstanding = [x for x in outstanding if x != s2]
                # a cancelled stream id is never used again (QUIC stream ids are not reused)
                streams = [x for x in streams if x != s2] + [nxt]
                nxt += 4
    ops += [{"op": "deliver_enc"}] + [{"op": "decode", "stream": s} for s in sorted(set(outstanding))]
    return {"id": f"wl-{i}", "capacity": cap, "max_blocked": mb, "ops": ops}


def run(tier, chk):
    wd = vlib.workdir("C20")
    m = 4 if tier == "quick" else 5
    scns = common.gen_scenarios(chk, wd, "C20_Gen", cfg_text=f"SPECIFICATION Spec\nCONSTANT MaxOps = {m}\nINVARIANT Emit\nCHECK_DEADLOCK FALSE\n", workers=8)
    common.run_sim(chk, wd, scns, "C20_Trace", shards=14, sig_of=sig, runner="qdyn")
    rnd = random.Random(vlib.seed())
    wl = [workload(rnd, i) for i in range(1500 if tier == "quick" else 20000)]
    common.run_sim(chk, wd, wl, "C20_Trace", label="wl", shards=14, sig_of=sig, runner="qdyn")
    chk.exhaustive = False
    chk.distinct_nontrivial = len(scns) + len(wl)
    chk.notes["exhaustive_part"] = f"{len(scns)} schedules of up to {m} operations x 4 capacities enumerated completely by TLC"
    chk.rule = (f"every sequence of up to {m} operations (encode on 2 streams x 4 field lists, deliver encoder instructions whole / 3 bytes, decode, ack, cancel, deliver decoder instructions; "
                "at most 3 sections) x capacities {0,40,75,4096}; plus seeded workloads of 1..40 sections over 6 names x 7 values, capacities from 0 and one-entry (33..64) to 4096, blocked "
                "limits 0..100, with immediate / delayed / partial delivery, withheld acknowledgements and cancellations")
    chk.assumptions = ["the hook re-exports expose the unmodified Encoder / Decoder / DynamicTable", "both tables are configured with the same capacity up front (as h3's own tests do)",
                       "the blocked-streams limit is not part of the property and is not asserted"]


def replay(path, chk):
    return common.replay_scenario(path, chk)
