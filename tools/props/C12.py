"""C12 — only well-formed messages reach the application; sent ones are well-formed (H3Message.tla, C12_Trace)."""
import vlib
from props import common


def sig(s, trace, why):
    if any(e.get("ev") == "panic" for e in trace):
        return "c12:panic"
    return f"c12:{s.get('part')}:{s.get('kind')}"


def run(tier, chk):
    wd = vlib.workdir("C12")
    pairs = "FALSE" if tier == "quick" else "TRUE"
    scns = common.gen_scenarios(chk, wd, "C12_Gen", cfg_text=f"SPECIFICATION Spec\nCONSTANT Pairs = {pairs}\nINVARIANT Emit\nCHECK_DEADLOCK FALSE\n", workers=8)
    common.run_sim(chk, wd, scns, "C12_Trace", shards=14, sig_of=sig)
    chk.exhaustive = True
    chk.distinct_nontrivial = len(scns)
    chk.rule = ("gate: 4 base messages x every single perturbation (pairs in the thorough tier) from invalid/odd names and values, removed/duplicated/foreign/unknown pseudo fields, "
                "invalid pseudo values, Host agreement, pseudo after regular; each in raw and Huffman encoding; output: 4 methods x 3 target forms x 3 field lists, plain and extended CONNECT, "
                "responses x field lists x trailers")
    chk.assumptions = ["messages that satisfy every listed condition but are not of the fully regular shape are unconstrained (R2)"]


def replay(path, chk):
    return common.replay_scenario(path, chk)
