"""Shared orchestration for the /verif checks: cargo build, TLC runs, scenario extraction, evidence, findings.

Exit-code contract of every check (see MANIFEST.json):
  0  property held on everything explored (KNOWN-FINDING lines may have been printed)
  1  at least one VIOLATION line was printed (real-code evidence, replay file written)
  2  tool error / model drift / vacuity (never a statement about the property)
"""
import json, os, re, subprocess, sys, time, shutil, hashlib

ROOT = os.path.dirname(os.path.dirname(os.path.abspath(__file__)))
SPEC = os.path.join(ROOT, "spec")
WORK = os.path.join(ROOT, "work")
HARNESS = os.path.join(ROOT, "harness")
H3V = os.path.join(HARNESS, "target", "release", "h3v")
TLA_CP = "/opt/veriftools/tla/tla2tools.jar:/opt/veriftools/tla/CommunityModules-deps.jar"
LIBPATH = os.pathsep.join(os.path.join(SPEC, d) for d in ("lib", "sys", "gen", "trace", "mc"))


class ToolError(Exception):
    pass


def log(*a):
    print(*a, file=sys.stderr, flush=True)


def seed():
    try:
        return int(os.environ.get("VERIF_SEED", "1"))
    except ValueError:
        return 1


def workdir(prop):
    d = os.path.join(WORK, prop)
    shutil.rmtree(d, ignore_errors=True)
    os.makedirs(d, exist_ok=True)
    os.makedirs(os.path.join(WORK, "replay"), exist_ok=True)
    return d


def build():
    """(Re)build the harness against /repo's current working tree with the hooks enabled."""
    t = time.time()
    env = dict(os.environ, CARGO_NET_OFFLINE="true")
    p = subprocess.run(["cargo", "build", "--release", "--offline"], cwd=HARNESS, env=env,
                       stdout=subprocess.PIPE, stderr=subprocess.STDOUT, text=True)
    if p.returncode != 0:
        log(p.stdout[-6000:])
        raise ToolError("harness build failed (MODEL-DRIFT or compile error in /repo)")
    log(f"[build] ok in {time.time()-t:.1f}s")
    return H3V


class Tlc:
    def __init__(self, out, rc, wall):
        self.out_path, self.rc, self.wall = out, rc, wall
        txt = open(out, errors="replace").read()
        self.text = txt
        m = re.findall(r"(\d+) states generated, (\d+) distinct states found", txt)
        self.generated = int(m[-1][0]) if m else 0
        self.distinct = int(m[-1][1]) if m else 0
        self.ok = ("Model checking completed. No error has been found." in txt) or \
                  ("Finished computing initial states" in txt and rc == 0 and "Error:" not in txt)
        self.error = None
        if not self.ok:
            i = txt.find("Error:")
            self.error = txt[i:i + 1500] if i >= 0 else txt[-1500:]
        self.coverage = {}
        for a, n1, n2 in re.findall(r"<(\w+) line \d+, col \d+ to line \d+, col \d+ of module \w+>: (\d+):(\d+)", txt):
            self.coverage[a] = self.coverage.get(a, 0) + int(n2)


def tlc(module, cfg=None, *, name, wd, workers=4, env=None, simulate=None, depth=None, coverage=False,
        timeout=1500, xmx="4g", deque=False, extra=()):
    """Run TLC on spec/<...>/<module>.tla. Returns a Tlc result; raises ToolError on timeout/crash."""
    mod_path = None
    for d in ("gen", "trace", "mc", "sys", "lib"):
        p = os.path.join(SPEC, d, module + ".tla")
        if os.path.exists(p):
            mod_path = p
            break
    if mod_path is None:
        raise ToolError(f"spec module {module} not found")
    cfg_path = cfg if cfg and os.path.isabs(cfg) else os.path.join(os.path.dirname(mod_path), (cfg or module) + ".cfg")
    out = os.path.join(wd, name + ".tlc.out")
    meta = os.path.join(wd, name + ".meta")
    jopts = "-Xss1g"
    if deque:
        jopts += " -Dtlc2.tool.queue.IStateQueue=StateDeque"
    e = dict(os.environ, JAVA_TOOL_OPTIONS=jopts)
    e.update(env or {})
    cmd = ["java", "-XX:+UseParallelGC", f"-Xmx{xmx}", f"-DTLA-Library={LIBPATH}", "-cp", TLA_CP, "tlc2.TLC",
           "-workers", str(workers), "-metadir", meta, "-cleanup", "-noGenerateSpecTE", "-config", cfg_path]
    if coverage:
        cmd += ["-coverage", "1"]
    if simulate:
        cmd += ["-simulate", f"num={simulate}", "-depth", str(depth or 100), "-seed", str(seed())]
    cmd += list(extra) + [mod_path]
    t = time.time()
    with open(out, "w") as fo:
        try:
            p = subprocess.run(cmd, cwd=os.path.dirname(mod_path), env=e, stdout=fo, stderr=subprocess.STDOUT, timeout=timeout)
        except subprocess.TimeoutExpired:
            raise ToolError(f"TLC timed out after {timeout}s on {module}")
    shutil.rmtree(meta, ignore_errors=True)
    r = Tlc(out, p.returncode, time.time() - t)
    log(f"[tlc] {name}: {r.generated} states generated, {r.distinct} distinct, ok={r.ok}, {r.wall:.1f}s")
    return r


_unesc = re.compile(r'\\(.)')


def scn_extract(tlc_out, dest, tag="SCN", mode="w"):
    """Extract lines `<<"TAG", "json">>` printed by TLC into an ndjson file. Returns the count."""
    n = 0
    pre = f'<<"{tag}", "'
    with open(tlc_out, errors="replace") as fi, open(dest, mode) as fo:
        for line in fi:
            if line.startswith(pre):
                body = line.rstrip("\n")
                if not body.endswith('">>'):
                    continue
                body = body[len(pre):-3]
                body = _unesc.sub(lambda m: m.group(1), body)
                fo.write(body + "\n")
                n += 1
    return n


def h3v(*args, timeout=3600, env=None):
    t = time.time()
    p = subprocess.run([H3V] + [str(a) for a in args], stdout=subprocess.PIPE, stderr=subprocess.PIPE, text=True,
                       timeout=timeout, env=dict(os.environ, **(env or {})))
    if p.returncode != 0:
        log(p.stderr[-4000:])
        raise ToolError(f"h3v {' '.join(map(str, args[:2]))} failed with status {p.returncode}")
    log(f"[h3v] {' '.join(map(str, args[:2]))} {time.time()-t:.1f}s")
    return p.stdout


def read_ndjson(path):
    with open(path) as f:
        for line in f:
            line = line.strip()
            if line:
                yield json.loads(line)


def validate_records(module, trace_file, *, name, wd, cfg=None, timeout=3600, xmx="4g"):
    """Binding B for record streams: every record is judged; returns (list of rejected 1-based indices, Tlc)."""
    r = tlc(module, cfg, name=name, wd=wd, workers=1, env={"TRACE": trace_file}, deque=True, timeout=timeout, xmx=xmx)
    if not r.ok:
        raise ToolError(f"trace validation of {trace_file} against {module} failed to run:\n{r.error}")
    rej = {}
    for m in re.finditer(r'<<"REJECT", (\d+)(?:, "((?:[^"\\]|\\.)*)")?>>', r.text):
        rej[int(m.group(1))] = m.group(2) or ""
    r.why = rej
    return sorted(rej), r


class Check:
    """Accumulates what one check run covered and what it found; writes evidence and decides the exit status."""

    def __init__(self, prop, tier, clear=True):
        self.prop, self.tier = prop, tier
        self.t0 = time.time()
        import glob
        # a new run starts from an empty set of replay files (a --replay run must of course keep the file it is given)
        if clear:
            for f in glob.glob(os.path.join(WORK, "replay", f"{prop}-*.json")):
                os.remove(f)
        self.states = 0
        self.transitions = 0
        self.traces = 0
        self.evaluations = 0
        self.samples = []
        self.items = []
        self.violations = []   # dicts: sig, what, replay
        self.exhaustive = None
        self.notes = {}
        self.assumptions = []
        self.distinct_nontrivial = 0
        self.rule = ""

    def add_tlc(self, label, r):
        self.states += r.distinct
        self.transitions += r.generated
        self.items.append({"stage": label, "states_generated": r.generated, "distinct_states": r.distinct,
                           "wall_s": round(r.wall, 1), "coverage": r.coverage or None})

    def sample(self, s, cap=6):
        if len(self.samples) < cap:
            self.samples.append(s)

    def violation(self, sig, what, replay_obj):
        """Record a violation demonstrated on the real code. `sig` is matched against known_findings.json."""
        h = hashlib.sha1(json.dumps(replay_obj, sort_keys=True).encode()).hexdigest()[:10]
        path = os.path.join(WORK, "replay", f"{self.prop}-{h}.json")
        with open(path, "w") as f:
            json.dump({"property": self.prop, "signature": sig, "what": what, "replay": replay_obj}, f, indent=1)
        self.violations.append({"sig": sig, "what": what, "replay": path})

    def finish(self, level="model_checking"):
        kf = {"open": [], "fixed": []}
        p = os.path.join(ROOT, "known_findings.json")
        if os.path.exists(p):
            kf = json.load(open(p))
        open_sigs = {(e["property"], e["signature"]): e for e in kf.get("open", [])}
        known_hit, new = {}, []
        for v in self.violations:
            k = (self.prop, v["sig"])
            if k in open_sigs:
                known_hit.setdefault(k, []).append(v)
            else:
                new.append(v)
        for k, vs in known_hit.items():
            print(f"KNOWN-FINDING: property={self.prop} {open_sigs[k]['what']} [{len(vs)} occurrence(s), signature {k[1]}]")
        seen = set()
        for v in new:
            if v["sig"] in seen:
                continue
            seen.add(v["sig"])
            print(f"VIOLATION property={self.prop} replay={v['replay']}  # {v['sig']}: {v['what']}")
        cov = {
            "states": max(self.states, 0), "transitions": max(self.transitions, 0),
            "traces_validated_against_impl": self.traces,
            "evaluations": self.evaluations, "distinct_nontrivial": self.distinct_nontrivial,
            "rule": self.rule, "samples": self.samples or ["(none)"],
            "stages": self.items, "exhaustive": bool(self.exhaustive),
            "violations_new": len(new), "violations_known": sum(len(v) for v in known_hit.values()),
            "violation_signatures": sorted({v["sig"] for v in self.violations}),
        }
        cov.update(self.notes)
        ev = {"property_id": self.prop, "tier": self.tier, "seed": seed(), "level": level, "coverage": cov,
              "assumptions": self.assumptions, "wall_s": round(time.time() - self.t0, 1), "violations": len(new)}
        # checks beyond the listed properties (ids X..) keep their evidence apart from the properties' evidence files
        edir = os.path.join(ROOT, "extras" if self.prop.startswith("X") else "evidence")
        os.makedirs(edir, exist_ok=True)
        with open(os.path.join(edir, f"{self.prop}.json"), "w") as f:
            json.dump(ev, f, indent=1)
        log(f"[{self.prop}] {self.tier}: states={self.states} traces={self.traces} evals={self.evaluations} "
            f"new_violations={len(new)} known={cov['violations_known']} wall={ev['wall_s']}s")
        return 1 if new else 0
