#!/usr/bin/env python3
"""Regenerates the table of seeded changes in DESIGN.md (between the seeded:begin / seeded:end markers) from seeded/*/meta.json."""
import glob, json, os, re
ROOT = os.path.dirname(os.path.dirname(os.path.abspath(__file__)))
rows = ["| change | breaks | needs, in order to manifest | caught by (quick tier) | missed by |", "|---|---|---|---|---|"]
for d in sorted(glob.glob(os.path.join(ROOT, "seeded", "*"))):
    m = json.load(open(os.path.join(d, "meta.json")))
    det = sorted(k.split(":")[0] for k, v in m["detected_by"].items() if v["verdict"] == "detected")
    mis = sorted(k.split(":")[0] for k, v in m["detected_by"].items() if v["verdict"] != "detected")
    rows.append(f"| `{m['id']}` | {m['breaks_property']} | {m['needs_to_manifest'][:230].replace('|', '/')} | {', '.join(det) or '-'} | {', '.join(mis) or '-'} |")
p = os.path.join(ROOT, "DESIGN.md")
s = open(p).read()
block = "<!-- seeded:begin -->\n" + "\n".join(rows) + "\n<!-- seeded:end -->"
if "SEEDED_TABLE" in s:
    s = s.replace("SEEDED_TABLE", block)
else:
    s = re.sub(r"<!-- seeded:begin -->.*?<!-- seeded:end -->", lambda _: block, s, flags=re.S)
open(p, "w").write(s)
print(len(rows) - 2, "seeded changes")
