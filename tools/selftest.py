#!/usr/bin/env python3
"""tools/selftest.py [<id> ...] — demonstrates that the trace specifications are bound to what the harness records (DESIGN.md R7).

For every property: run the quick check keeping the recorded traces, check that the untouched traces are accepted, then
corrupt ONE logged field (or drop / duplicate ONE event) in each of the first scenarios and validate again: the trace
specification must reject. Prints a matrix corruption kind x property (applied / rejected) and writes selftest/selftest.json.
Exit 1 if some property's trace specification rejected nothing at all (it would constrain nothing)."""
import copy, glob, json, os, subprocess, sys
sys.path.insert(0, os.path.dirname(os.path.abspath(__file__)))
import vlib

ROOT = os.path.dirname(os.path.dirname(os.path.abspath(__file__)))
SKIP_EV = {"reset", "step", "op", "quiesce", "yield", "task_start", "task_end"}


def find_path(o, pred, depth=0, path=()):
    """first path (tuple of keys) in o whose value satisfies pred"""
    if pred(path, o):
        return path
    if depth > 3:
        return None
    if isinstance(o, dict):
        for k in sorted(o):
            r = find_path(o[k], pred, depth + 1, path + (k,))
            if r is not None:
                return r
    return None


def get(o, path):
    for k in path:
        o = o[k]
    return o


def put(o, path, v):
    for k in path[:-1]:
        o = o[k]
    o[path[-1]] = v


def is_bytes(path, v):
    return bool(path) and path[-1] in ("bytes", "block", "enc", "out") and isinstance(v, list) and len(v) > 0 and all(isinstance(x, int) for x in v)


def is_code(path, v):
    return bool(path) and path[-1] in ("code", "id", "sid") and (isinstance(v, int) and v >= 0 or (isinstance(v, list) and len(v) == 8))


def corrupt(scn_events, kind):
    """returns a corrupted deep copy, or None if the corruption does not apply"""
    ev = copy.deepcopy(scn_events)
    idx = [i for i, e in enumerate(ev) if e.get("ev") not in SKIP_EV]
    if kind in ("bytes-first", "bytes-last"):
        order = idx if kind == "bytes-first" else list(reversed(idx))
        for i in order:
            p = find_path(ev[i], is_bytes)
            if p:
                b = get(ev[i], p)
                b[0] ^= 1
                return ev
    if kind in ("code-first", "code-last"):
        order = idx if kind == "code-first" else list(reversed(idx))
        for i in order:
            p = find_path(ev[i], is_code)
            if p:
                v = get(ev[i], p)
                if isinstance(v, int):
                    put(ev[i], p, v + 1)
                else:
                    v[7] ^= 1
                return ev
    if kind == "drop-last" and idx:
        del ev[idx[-1]]
        return ev
    if kind == "drop-first" and len(idx) > 1:
        del ev[idx[0]]
        return ev
    if kind == "inject-panic" and ev and ev[-1].get("ev") == "quiesce" and "pending" in ev[-1]:
        ev.insert(len(ev) - 1, {"ev": "panic", "task": "selftest", "api": "selftest", "msg": "injected by selftest"})
        return ev
    if kind == "pending-after-end" and ev and ev[-1].get("ev") == "quiesce" and isinstance(ev[-1].get("pending"), list):
        ended = [e.get("sid") for e in ev if e.get("ev") == "step" and e.get("op") in ("fin", "reset") and isinstance(e.get("sid"), int)]
        if ended:
            ev[-1]["pending"].append({"task": "selftest", "api": "recv_data", "waits_on": f"rx:{ended[0]}", "kind": "rx", "sid": ended[0]})
            return ev
    if kind == "dup-last" and idx:
        for i in reversed(idx):
            if find_path(ev[i], is_bytes):
                ev.insert(i, copy.deepcopy(ev[i]))
                return ev
    return None


KINDS = ["bytes-first", "bytes-last", "code-first", "code-last", "drop-first", "drop-last", "dup-last", "inject-panic", "pending-after-end"]


def scenarios_of(trace_path, limit):
    out, cur = [], None
    for e in vlib.read_ndjson(trace_path):
        if e.get("ev") == "reset":
            cur = [e]
        elif cur is not None:
            cur.append(e)
            if e.get("ev") == "quiesce":
                out.append(cur)
                cur = None
                if len(out) >= limit:
                    break
    return out


def validate(meta, events, wd, name):
    tf = os.path.join(wd, name + ".ndjson")
    with open(tf, "w") as f:
        for e in events:
            f.write(json.dumps(e) + "\n")
    r = vlib.tlc(meta["trace_module"], meta.get("trace_cfg"), name=name, wd=wd, workers=1, env={"TRACE": tf}, deque=True, xmx="3g")
    if not r.ok:
        return None, r.error[:400]
    import re
    return set(re.findall(r'<<"REJECT", "([^"]+)"', r.text)), None


def one(prop, limit):
    env = dict(os.environ, VERIF_KEEP="1")
    p = subprocess.run([os.path.join(ROOT, "check"), prop, "quick"], cwd=ROOT, env=env, capture_output=True, text=True)
    if p.returncode not in (0,):
        return {"error": f"check exited {p.returncode}"}
    metas = sorted(glob.glob(os.path.join(ROOT, "work", prop, "*.meta.json")))
    res = {"kinds": {}, "baseline_rejects": 0, "scenarios": 0, "tool_errors": 0}
    if not metas:
        return {"note": "no scenario traces (vector check: expected values are compared directly)"}
    wd = vlib.workdir(prop + "-selftest")
    seen_modules = set()
    for mf in metas:
        meta = json.load(open(mf))
        if meta["trace_module"] + str(meta.get("trace_cfg")) in seen_modules:
            continue
        seen_modules.add(meta["trace_module"] + str(meta.get("trace_cfg")))
        scns = scenarios_of(meta["trace"], limit)
        res["scenarios"] += len(scns)
        base, err = validate(meta, [e for s in scns for e in s], wd, "base")
        if base is None:
            res["tool_errors"] += 1
            continue
        res["baseline_rejects"] += len(base)
        for kind in KINDS:
            evs, applied = [], 0
            for k, s in enumerate(scns):
                if s[0].get("scn") in base:
                    continue
                c = corrupt(s, kind)
                if c is None:
                    continue
                c[0]["scn"] = f"{s[0].get('scn')}#{k}"
                evs += c
                applied += 1
            if not applied:
                continue
            rej, err = validate(meta, evs, wd, kind)
            d = res["kinds"].setdefault(kind, {"applied": 0, "rejected": 0, "tool_errors": 0})
            d["applied"] += applied
            if rej is None:
                d["tool_errors"] += 1
                d["error"] = err
            else:
                d["rejected"] += len(rej)
    for f in glob.glob(os.path.join(ROOT, "work", prop, "*.trace.ndjson*")):
        os.remove(f)
    return res


def main():
    props = [a for a in sys.argv[1:] if not a.startswith("-")] or [json.loads(l)["id"] for l in open(os.path.join(ROOT, "properties.jsonl"))]
    limit = 60
    out = {}
    bad = []
    for p in props:
        out[p] = one(p, limit)
        r = out[p]
        if "kinds" in r:
            tot = sum(k["rejected"] for k in r["kinds"].values())
            line = "  ".join(f"{k}:{v['rejected']}/{v['applied']}" + ("!" if v["tool_errors"] else "") for k, v in r["kinds"].items())
            print(f"{p}: scenarios={r['scenarios']} baseline_rejects={r['baseline_rejects']}  {line}")
            if tot == 0 or r["baseline_rejects"]:
                bad.append(p)
        else:
            print(f"{p}: {r}")
    ef = os.path.join(ROOT, "selftest", "selftest.json")
    prev = json.load(open(ef)) if os.path.exists(ef) else {}
    prev.update(out)
    json.dump(prev, open(ef, "w"), indent=1)
    if bad:
        print("SELFTEST FAILED for", bad)
        sys.exit(1)


if __name__ == "__main__":
    main()
