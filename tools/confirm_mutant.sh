#!/bin/bash
# tools/confirm_mutant.sh <mutant dir with patch.diff demo.diff> <scratch worktree>  -> writes <dir>/confirm.json
# Confirms: suite passes with patch; demo fails with patch; demo passes without patch.
D=$1; W=$2
cd "$W" || exit 2
git reset -q; git checkout -q -- . ; git clean -fdq -e target
run() { cargo test --workspace --offline -j 6 --no-fail-fast -- --test-threads 6 > "$1" 2>&1; 
  # failed tests other than the two known flaky ones
  grep -E "^test .* FAILED|^    [a-z_:0-9]+$" "$1" | grep -v "request_invalid_frame_after_trailers\|request_invalid_frame_first" | grep -c "FAILED"; }
git apply "$D/patch.diff" || { echo '{"error":"patch does not apply"}' > "$D/confirm.json"; exit 1; }
f1=$(run "$D/suite_with_patch.log"); c1=$(grep -c "^error" "$D/suite_with_patch.log")
git apply "$D/demo.diff" || { echo '{"error":"demo does not apply"}' > "$D/confirm.json"; exit 1; }
f2=$(run "$D/demo_with_patch.log"); c2=$(grep -c "^error" "$D/demo_with_patch.log")
git apply -R "$D/patch.diff"
f3=$(run "$D/demo_without_patch.log"); c3=$(grep -c "^error" "$D/demo_without_patch.log")
git reset -q; git checkout -q -- . ; git clean -fdq -e target
echo "{\"suite_failures_with_patch\": $f1, \"compile_errors_with_patch\": $c1, \"failures_with_patch_and_demo\": $f2, \"compile_errors_2\": $c2, \"failures_with_demo_only\": $f3, \"compile_errors_3\": $c3, \"head\": \"$(git rev-parse --short HEAD)\"}" > "$D/confirm.json"
cat "$D/confirm.json"
