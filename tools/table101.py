#!/usr/bin/env python3
"""tools/table101.py — refreshes the last column of the table in DESIGN.md 10.1 ("quick tier: executed on the real code / wall")
from evidence/<id>.json (only for evidence files written by a quick run)."""
import json, os, re
ROOT = os.path.dirname(os.path.dirname(os.path.abspath(__file__)))
p = os.path.join(ROOT, "DESIGN.md")
s = open(p).read()
a = s.index("### 10.1 What exists")
b = s.index("### 10.2")
seg = s[a:b]
out = []
for line in seg.split("\n"):
    m = re.match(r"^\| (C\d\d) \|", line)
    if m:
        ef = os.path.join(ROOT, "evidence", m.group(1) + ".json")
        if os.path.exists(ef):
            e = json.load(open(ef))
            if e.get("tier") == "quick":
                n = e["coverage"].get("traces_validated_against_impl", 0)
                cells = line.split(" | ")
                cells[-1] = f"{n:,}".replace(",", " ") + f" / {round(e['wall_s'])} s |"
                line = " | ".join(cells)
    out.append(line)
s = s[:a] + "\n".join(out) + s[b:]
open(p, "w").write(s)
print("table 10.1 refreshed")
