#!/usr/bin/env python3
"""Regenerates MANIFEST.json from tools/registry.json (one entry per claimed property) and properties.jsonl."""
import json, os
ROOT = os.path.dirname(os.path.dirname(os.path.abspath(__file__)))
reg = json.load(open(os.path.join(ROOT, "tools", "registry.json")))
props = [json.loads(l) for l in open(os.path.join(ROOT, "properties.jsonl"))]
checks, na = [], []
for p in props:
    pid = p["id"]
    r = reg["checks"].get(pid)
    if not r:
        na.append({"property_id": pid, "reason": reg["not_applicable"].get(pid, "check not built yet (planned with the same TLA+ technique, see DESIGN.md section 4)")})
        continue
    checks.append({
        "property_id": pid,
        "quick_cmd": f"./check {pid} quick",
        "thorough_cmd": f"./check {pid} thorough",
        "evidence_file": f"evidence/{pid}.json",
        "replay_cmd_template": f"./check {pid} --replay {{path}}",
        "engine": r.get("engine", "tlc+h3v"),
        "level_claimed": {"category": r.get("category", "model_checking"), "text": r["text"], "design_ref": r.get("design_ref", f"DESIGN.md section 4, {pid}")},
        "level_note": r["note"],
        "technique": r["technique"],
    })
m = {
    "version": 1,
    "setup_cmd": "cd harness && CARGO_NET_OFFLINE=true cargo build --release --offline",
    "hooks": reg["hooks"],
    "engines": reg["engines"],
    "checks": checks,
    "notes": reg["notes"],
    "not_applicable": na,
}
json.dump(m, open(os.path.join(ROOT, "MANIFEST.json"), "w"), indent=1)
print(f"{len(checks)} checks, {len(na)} not_applicable")
