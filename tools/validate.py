#!/usr/bin/env python3-vt
"""Validates MANIFEST.json and evidence/*.json against the schemas in /root/.vp (tooling venv has jsonschema)."""
import json, glob, sys, jsonschema
ok = True
m = json.load(open('/verif/MANIFEST.json'))
jsonschema.validate(m, json.load(open('/root/.vp/MANIFEST.schema.json')))
es = json.load(open('/root/.vp/EVIDENCE.schema.json'))
for f in sorted(glob.glob('/verif/evidence/*.json')):
    try:
        jsonschema.validate(json.load(open(f)), es)
    except Exception as e:
        ok = False
        print("INVALID", f, str(e)[:300])
ids = [c["property_id"] for c in m["checks"]] + [n["property_id"] for n in m.get("not_applicable", [])]
assert sorted(ids) == sorted(set(ids)) and len(ids) == 20, ids
print("valid" if ok else "INVALID")
sys.exit(0 if ok else 1)
